"""Fail-closed translator (Python `ast`): regenerates coq/Gen/PySerial.v from the CURRENT sources of

  instruction.py               class Instruction(IntEnum)                 -> ps_opcodes / pyop
  serializing_interpreter.py   every method of SerializingInterpreter     -> ser_<method> : ... -> W
                                                                             + gen_super (which super() method is
                                                                               called first, with which arguments)
  deserialize.py               the dispatch loop of deserialize_instructions -> gen_decode, gen_deser_fuel

Statement by statement / expression by expression onto the primitives of coq/Interp/SerialLib.v.
Renaming a local or reflowing changes nothing; a reordered write, a changed operand, opcode, constant,
comparison, a dropped guard or super() call changes the generated definitions (and the agreement
proofs in coq/Interp/GenPySerialAgree.v are about those).  Anything outside the subset below raises
SystemExit naming the node.

Accepted subset, serialiser methods
  ret = super().m(a, ...) | super().m(a, ...)        first statement; recorded in gen_super
  self.out.write(bytes(E))                           E a list display with optional *starred parts
  return ret | return                                last statement
  x = [a, b, ...]                                    local list of parameters
  if C: S* [else: S*]                                C: `k not in self._symbol_identifiers` | `E == n`
  self._symbol_identifiers[k] = E                    (inside such an if)
  x = self._symbol_identifiers[k]
  for x in L: S*
  expressions: Instruction.X, names, ints, len(E), sum([E for x in L]), [E for x in L], x.name,
               reversed(E), d.keys(), self.memory.index(E)
Accepted subset, deserialiser: see `Deser` below.
"""
from __future__ import annotations

import ast
import os
import re

PG = 'generation/src/proof_generation'


class Fail(SystemExit):
    pass


def fail(msg, node=None):
    where = f' (line {node.lineno}: {ast.unparse(node)[:90]!r})' if node is not None and hasattr(node, 'lineno') else ''
    raise Fail('py_serial translator: ' + msg + where)


def cname(n):
    return 'v_' + n


# ------------------------------------------------------------------------------------------------
# instruction.py
# ------------------------------------------------------------------------------------------------

def opcode_table(src):
    tree = ast.parse(src)
    for node in tree.body:
        if isinstance(node, ast.ClassDef) and node.name == 'Instruction':
            if [ast.unparse(b) for b in node.bases] != ['IntEnum']:
                fail('Instruction is not an IntEnum', node)
            t = []
            for st in node.body:
                if isinstance(st, ast.Assign) and len(st.targets) == 1 and isinstance(st.targets[0], ast.Name) \
                        and isinstance(st.value, ast.Constant) and isinstance(st.value.value, int):
                    t.append((st.value.value, st.targets[0].id))
                elif isinstance(st, ast.Expr) and isinstance(st.value, ast.Constant):
                    continue
                else:
                    fail('unexpected statement in Instruction', st)
            if len({b for b, _ in t}) != len(t) or len({n for _, n in t}) != len(t):
                fail('duplicate value or name in Instruction')
            return t
    fail('class Instruction not found')


# ------------------------------------------------------------------------------------------------
# serializing_interpreter.py
# ------------------------------------------------------------------------------------------------

ANN = {'int': 'N', 'str': 'N', 'EVar': 'N',
       'tuple[EVar, ...]': '(list N)', 'tuple[SVar, ...]': '(list N)',
       'Pattern': 'pat', 'Proved': 'pat', 'MetaVar | ESubst | SSubst': 'pat',
       'dict[int, Pattern]': 'delta', 'Mapping[int, Pattern]': 'delta',
       'Pattern | Proved': 'term'}
SYMDICT = 'self._symbol_identifiers'


class Ser:
    def __init__(self, opnames):
        self.opnames = opnames
        self.hoist = []
        self.helpers = {}

    def inline(self, call, result=None):
        """statements of the helper `self._h(args)` with its parameters replaced by the argument expressions"""
        import copy
        fn = self.helpers[call.func.attr]
        self.depth = getattr(self, 'depth', 0) + 1
        if self.depth > 8:
            fail('helper methods call each other too deeply', call)
        params = [a.arg for a in fn.args.args[1:]]
        va = fn.args.vararg.arg if fn.args.vararg else None
        if call.keywords or fn.args.kwarg or fn.args.kwonlyargs or fn.args.defaults or len(call.args) < len(params) \
                or (va is None and len(call.args) != len(params)) \
                or any(isinstance(a, ast.Starred) for a in call.args[:len(params)]):
            fail('helper call outside the subset', call)
        body = list(fn.body)
        if body and isinstance(body[0], ast.Expr) and isinstance(body[0].value, ast.Constant) and isinstance(body[0].value.value, str):
            body = body[1:]
        if body and isinstance(body[-1], ast.Return) and body[-1].value is None:
            body = body[:-1]
        if result is not None:
            if not (body and isinstance(body[-1], ast.Return) and body[-1].value is not None):
                fail('helper method used for its value does not end with `return E`', call)
            body = body[:-1] + [ast.Assign(targets=[ast.Name(id='@result', ctx=ast.Store())], value=body[-1].value,
                                           lineno=call.lineno)]
        sub = dict(zip(params, call.args))
        if va is not None:
            sub[va] = ast.Tuple(elts=list(call.args[len(params):]), ctx=ast.Load())
        # an argument that is not a plain name/constant is evaluated at the call: substituting it is only the same
        # thing when the helper is ONE statement that uses the parameter exactly once (nothing happens in between)
        for pname, a in sub.items():
            if isinstance(a, (ast.Name, ast.Constant)):
                continue
            uses = sum(1 for b in body for nd in ast.walk(b) if isinstance(nd, ast.Name) and nd.id == pname)
            if len(body) != 1 or uses != 1:
                fail('helper argument is an expression and the helper does not use it exactly once in a single statement', call)
        n = self.depth

        class T(ast.NodeTransformer):
            def visit_Name(self, node):
                if node.id == '@result':
                    return ast.copy_location(ast.Name(id=result.id, ctx=ast.Store()), node)
                if node.id in sub:
                    return copy.deepcopy(sub[node.id])
                if node.id in locals_:
                    return ast.copy_location(ast.Name(id=f'h{n}_{node.id}', ctx=node.ctx), node)
                return node
        locals_ = set()
        for b in body:
            for node in ast.walk(b):
                if isinstance(node, ast.Return):
                    fail('helper method returns a value / returns early', node)
                if isinstance(node, ast.Name) and isinstance(node.ctx, ast.Store) and node.id not in sub and node.id != '@result':
                    locals_.add(node.id)
                if isinstance(node, ast.Name) and isinstance(node.ctx, ast.Store) and node.id in sub:
                    fail('helper method assigns to its parameter', node)
        out = [ast.fix_missing_locations(T().visit(copy.deepcopy(b))) for b in body]
        self.depth -= 1
        return out

    def expr(self, e, env):
        """-> Gallina text of a value (N or list); env: python local -> kind"""
        if isinstance(e, ast.Attribute) and isinstance(e.value, ast.Name) and e.value.id == 'Instruction':
            if e.attr not in self.opnames:
                fail('unknown Instruction member', e)
            return f'(pyop "{e.attr}"%string)'
        if isinstance(e, ast.Constant) and isinstance(e.value, int) and not isinstance(e.value, bool):
            return str(e.value)
        if isinstance(e, ast.Name):
            if e.id not in env:
                fail('unknown name', e)
            return cname(e.id)
        if isinstance(e, ast.Attribute) and e.attr == 'name' and isinstance(e.value, ast.Name) and e.value.id in env:
            return f'(var_name {cname(e.value.id)})'
        if isinstance(e, ast.Call) and isinstance(e.func, ast.Name) and e.func.id == 'len' and len(e.args) == 1 and not e.keywords:
            if ast.unparse(e.args[0]) == SYMDICT:
                return '(dict_len d)'
            return f'(py_len {self.expr(e.args[0], env)})'
        if isinstance(e, ast.Call) and isinstance(e.func, ast.Name) and e.func.id == 'sum' and len(e.args) == 1 and not e.keywords:
            return f'(py_sum {self.expr(e.args[0], env)})'
        if isinstance(e, ast.Call) and isinstance(e.func, ast.Name) and e.func.id == 'reversed' and len(e.args) == 1 and not e.keywords:
            return f'(rev {self.expr(e.args[0], env)})'
        if isinstance(e, ast.Call) and isinstance(e.func, ast.Attribute) and e.func.attr == 'keys' and not e.args \
                and isinstance(e.func.value, ast.Name) and env.get(e.func.value.id) == 'delta':
            return f'(map fst {cname(e.func.value.id)})'
        if isinstance(e, ast.Call) and ast.unparse(e.func) == 'self.memory.index' and len(e.args) == 1 and not e.keywords:
            h = f'h{len(self.hoist)}'
            self.hoist.append((h, f'(py_index {self.expr(e.args[0], env)} (t_memory tr))'))
            return h
        if isinstance(e, (ast.ListComp, ast.GeneratorExp)) and len(e.generators) == 1 and not e.generators[0].ifs \
                and isinstance(e.generators[0].target, ast.Name) and not e.generators[0].is_async:
            g = e.generators[0]
            env2 = dict(env)
            env2[g.target.id] = 'elem'
            return f'(map (fun {cname(g.target.id)} => {self.expr(e.elt, env2)}) {self.expr(g.iter, env)})'
        if isinstance(e, (ast.List, ast.Tuple)):
            return self.listdisplay(e, env)
        fail('expression outside the subset', e)

    def listdisplay(self, e, env):
        parts = []
        cur = []
        for el in e.elts:
            if isinstance(el, ast.Starred):
                if cur:
                    parts.append('[' + '; '.join(cur) + ']')
                    cur = []
                parts.append(self.expr(el.value, env))
            else:
                cur.append(self.expr(el, env))
        if cur or not parts:
            parts.append('[' + '; '.join(cur) + ']')
        return '(' + ' ++ '.join(parts) + ')'

    def cond(self, t, env):
        if isinstance(t, ast.Compare) and len(t.ops) == 1 and isinstance(t.ops[0], ast.NotIn) \
                and ast.unparse(t.comparators[0]) == SYMDICT:
            return f'(negb (dict_has {self.expr(t.left, env)} d))'
        if isinstance(t, ast.Compare) and len(t.ops) == 1 and isinstance(t.ops[0], ast.In) \
                and ast.unparse(t.comparators[0]) == SYMDICT:
            return f'(dict_has {self.expr(t.left, env)} d)'
        if isinstance(t, ast.Compare) and len(t.ops) == 1 and isinstance(t.ops[0], (ast.Eq, ast.NotEq)):
            c = f'(N.eqb {self.expr(t.left, env)} {self.expr(t.comparators[0], env)})'
            return c if isinstance(t.ops[0], ast.Eq) else f'(negb {c})'
        fail('condition outside the subset', t)

    def dict_updates(self, body, env):
        """a block made of `self._symbol_identifiers[k] = E` only -> function text on d"""
        d = 'd'
        for st in body:
            if isinstance(st, ast.Assign) and len(st.targets) == 1 and isinstance(st.targets[0], ast.Subscript) \
                    and ast.unparse(st.targets[0].value) == SYMDICT:
                d = f'(let d := {d} in dict_put {self.expr(st.targets[0].slice, env)} {self.expr(st.value, env)} d)'
            else:
                return None
        return d

    def stmts(self, body, env, k, top):
        """CPS translation of a statement list; k = Gallina text of the continuation"""
        if not body:
            return k
        st, rest = body[0], body[1:]
        if isinstance(st, ast.Return):
            if rest or not top:
                fail('return is not the last statement of the method', st)
            if st.value is not None and not (isinstance(st.value, ast.Name) and env.get(st.value.id) == 'ret'):
                fail('return of something else than the super() result', st)
            return k
        # a private helper method of the class = its body inlined at the call site, parameters substituted
        if isinstance(st, ast.Expr) and isinstance(st.value, ast.Call) and isinstance(st.value.func, ast.Attribute) \
                and isinstance(st.value.func.value, ast.Name) and st.value.func.value.id == 'self' \
                and st.value.func.attr in self.helpers:
            return self.stmts(self.inline(st.value) + list(rest), env, k, top)
        if isinstance(st, ast.Expr) and isinstance(st.value, ast.Call) and ast.unparse(st.value.func) == 'self.out.write' \
                and len(st.value.args) == 1 and not st.value.keywords:
            a = st.value.args[0]
            if not (isinstance(a, ast.Call) and isinstance(a.func, ast.Name) and a.func.id == 'bytes' and len(a.args) == 1
                    and isinstance(a.args[0], (ast.List, ast.Tuple))):
                fail('write of something else than bytes([...])', st)
            self.hoist = []
            lst = self.listdisplay(a.args[0], env)
            hoisted, self.hoist = self.hoist, []
            code = f'w_write {lst} ({self.stmts(rest, env, k, top)})'
            for h, o in reversed(hoisted):
                code = f'w_opt {o} (fun {h} => {code})'
            return code
        if isinstance(st, ast.Assign) and len(st.targets) == 1 and isinstance(st.targets[0], ast.Name) \
                and isinstance(st.value, ast.Call) and ast.unparse(st.value.func) == SYMDICT + '.setdefault' \
                and len(st.value.args) == 2 and not st.value.keywords:
            key, dflt = st.value.args
            if 'index' in ast.unparse(dflt):
                fail('setdefault default that may raise', st)
            d = ast.parse(SYMDICT, mode='eval').body
            import copy
            guard = ast.If(test=ast.Compare(left=copy.deepcopy(key), ops=[ast.NotIn()], comparators=[copy.deepcopy(d)]),
                           body=[ast.Assign(targets=[ast.Subscript(value=copy.deepcopy(d), slice=copy.deepcopy(key), ctx=ast.Store())],
                                            value=dflt, lineno=st.lineno)], orelse=[], lineno=st.lineno)
            get = ast.Assign(targets=[st.targets[0]], value=ast.Subscript(value=copy.deepcopy(d), slice=copy.deepcopy(key), ctx=ast.Load()),
                             lineno=st.lineno)
            return self.stmts([ast.fix_missing_locations(guard), ast.fix_missing_locations(get)] + list(rest), env, k, top)
        if isinstance(st, ast.Assign) and len(st.targets) == 1 and isinstance(st.targets[0], ast.Name):
            x = st.targets[0].id
            if isinstance(st.value, ast.Subscript) and ast.unparse(st.value.value) == SYMDICT:
                env2 = dict(env)
                env2[x] = 'N'
                return f'w_get {self.expr(st.value.slice, env)} (fun {cname(x)} => {self.stmts(rest, env2, k, top)})'
            if isinstance(st.value, ast.List) and all(isinstance(el, ast.Name) for el in st.value.elts):
                env2 = dict(env)
                env2[x] = 'lists'
                return f'(let {cname(x)} := {self.listdisplay(st.value, env)} in {self.stmts(rest, env2, k, top)})'
            # x = self._helper(args): the helper's body, its final `return E` becoming `x = E`
            if isinstance(st.value, ast.Call) and isinstance(st.value.func, ast.Attribute) and isinstance(st.value.func.value, ast.Name) \
                    and st.value.func.value.id == 'self' and st.value.func.attr in self.helpers:
                return self.stmts(self.inline(st.value, result=st.targets[0]) + list(rest), env, k, top)
            # a value named before it is used: the same expression bound once (list.index may raise: evaluated here)
            self.hoist = []
            code = self.expr(st.value, env)
            hoisted, self.hoist = self.hoist, []
            env2 = dict(env)
            env2[x] = 'N'
            if len(hoisted) == 1 and code == hoisted[0][0]:
                return f'w_opt {hoisted[0][1]} (fun {cname(x)} => {self.stmts(rest, env2, k, top)})'
            if not hoisted:
                return f'(let {cname(x)} := {code} in {self.stmts(rest, env2, k, top)})'
            fail('assignment outside the subset', st)
        if isinstance(st, ast.AnnAssign) and isinstance(st.target, ast.Name) and isinstance(st.value, ast.List) \
                and all(isinstance(el, ast.Name) for el in st.value.elts):
            env2 = dict(env)
            env2[st.target.id] = 'lists'
            return f'(let {cname(st.target.id)} := {self.listdisplay(st.value, env)} in {self.stmts(rest, env2, k, top)})'
        if isinstance(st, ast.If):
            c = self.cond(st.test, env)
            upd = self.dict_updates(st.body, env)
            if upd is not None and not st.orelse:
                return f'w_dict (fun d => if {c} then {upd} else d) ({self.stmts(rest, env, k, top)})'
            a = self.stmts(st.body, env, 'k', False)
            b = self.stmts(st.orelse, env, 'k', False)
            return f'w_cond (fun d => {c}) (fun k => {a}) (fun k => {b}) ({self.stmts(rest, env, k, top)})'
        if isinstance(st, ast.For) and isinstance(st.target, ast.Name) and not st.orelse:
            env2 = dict(env)
            env2[st.target.id] = 'elem'
            body_code = self.stmts(st.body, env2, 'k', False)
            return f'w_for {self.expr(st.iter, env)} (fun {cname(st.target.id)} k => {body_code}) ({self.stmts(rest, env, k, top)})'
        fail('statement outside the subset', st)

    def method(self, fn):
        params = []
        env = {}
        for a in fn.args.args[1:]:
            if a.annotation is None:
                fail('parameter without annotation', fn)
            ann = ast.unparse(a.annotation)
            if ann not in ANN:
                fail(f'parameter annotation {ann!r} outside the subset', fn)
            params.append((a.arg, ANN[ann]))
            env[a.arg] = {'delta': 'delta'}.get(ANN[ann], 'param')
        if fn.args.vararg or fn.args.kwarg or fn.args.kwonlyargs or fn.args.posonlyargs:
            fail('parameters outside the subset', fn)
        body = list(fn.body)
        if body and isinstance(body[0], ast.Expr) and isinstance(body[0].value, ast.Constant) and isinstance(body[0].value.value, str):
            body = body[1:]
        if not body:
            fail('empty method', fn)
        first = body[0]
        call = None
        if isinstance(first, ast.Assign) and len(first.targets) == 1 and isinstance(first.targets[0], ast.Name):
            call = first.value
            env[first.targets[0].id] = 'ret'
        elif isinstance(first, ast.Expr):
            call = first.value
        if not (isinstance(call, ast.Call) and isinstance(call.func, ast.Attribute) and ast.unparse(call.func.value) == 'super()'
                and not call.keywords and all(isinstance(x, ast.Name) for x in call.args)):
            fail('the first statement is not a call of super()', first)
        sup = (fn.name, call.func.attr, [x.id for x in call.args])
        code = self.stmts(body[1:], env, 'w_done', True)
        sig = ' '.join(f'({cname(n)}:{t})' for n, t in params)
        text = (f'(* {fn.name}: first  super().{sup[1]}({", ".join(sup[2])}) *)\n'
                f'Definition ser_{fn.name} (tr:tracker) {sig} : W :=\n  {code}.\n')
        return text, sup, [n for n, _ in params]


def serializer(src, opnames):
    tree = ast.parse(src)
    cls = [n for n in tree.body if isinstance(n, ast.ClassDef) and n.name == 'SerializingInterpreter']
    if len(cls) != 1:
        fail('class SerializingInterpreter not found')
    cls = cls[0]
    if [ast.unparse(b) for b in cls.bases] != ['IOInterpreter']:
        fail('SerializingInterpreter no longer derives from IOInterpreter', cls)
    out, sups = [], []
    S = Ser(opnames)
    seen_init = False
    # private helpers (single leading underscore): not part of the Interpreter interface, inlined where called
    for st in cls.body:
        if isinstance(st, ast.FunctionDef) and st.name.startswith('_') and not st.name.startswith('__'):
            if st.decorator_list:
                fail('decorated helper method', st)
            S.helpers[st.name] = st
    for st in cls.body:
        if isinstance(st, ast.FunctionDef) and st.name in S.helpers:
            continue
        if isinstance(st, ast.Expr) and isinstance(st.value, ast.Constant):
            continue
        if not isinstance(st, ast.FunctionDef):
            fail('class-level statement outside the subset', st)
        if st.decorator_list:
            fail('decorated method', st)
        if st.name == '__init__':
            # the table starts empty; everything else is forwarded to super().__init__
            inits = [s for s in st.body if not (isinstance(s, ast.Expr) and ast.unparse(s).startswith('super().__init__('))]
            if len(inits) != 1 or ast.unparse(inits[0]).replace(' ', '') not in (
                    'self._symbol_identifiers:dict[str,int]={}', 'self._symbol_identifiers={}'):
                fail('__init__ does more than starting with an empty symbol dict', st)
            seen_init = True
            continue
        text, sup, params = S.method(st)
        out.append(text)
        sups.append((sup, params))
    if not seen_init:
        fail('__init__ (empty symbol dict) not found')
    return out, sups


# ------------------------------------------------------------------------------------------------
# deserialize.py
# ------------------------------------------------------------------------------------------------

# Interpreter method -> (call constructor, parameter kinds)
#   N = number; vars = tuple of variable objects; pat / proved / term = stack entry of that kind;
#   var = EVar(id) object; delta = dict; ignored = the `id: str` label of save/load
CALLS = {
    'evar': ('CEVar', ['N']), 'svar': ('CSVar', ['N']), 'symbol': ('CSymbol', ['name']),
    'metavar': ('CMetaVar', ['N', 'vars', 'vars', 'vars', 'vars', 'vars']),
    'implies': ('CImplies', ['pat', 'pat']), 'app': ('CApp', ['pat', 'pat']),
    'exists': ('CExists', ['N', 'pat']), 'mu': ('CMu', ['N', 'pat']),
    'esubst': ('CESubst', ['N', 'pat', 'pat']), 'ssubst': ('CSSubst', ['N', 'pat', 'pat']),
    'prop1': ('CProp1', []), 'prop2': ('CProp2', []), 'prop3': ('CProp3', []), 'exists_quantifier': ('CQuantifier', []),
    'modus_ponens': ('CModusPonens', ['proved', 'proved']),
    'exists_generalization': ('CGeneralization', ['proved', 'var']),
    'instantiate': ('CInstantiate', ['proved', 'delta']), 'instantiate_pattern': ('CInstantiatePattern', ['pat', 'delta']),
    'pop': ('CPop', ['term']), 'save': ('CSave', ['ignored', 'term']), 'load': ('CLoad', ['ignored', 'term']),
    'publish_proof': ('CPublishProof', ['proved']), 'publish_axiom': ('CPublishAxiom', ['pat']),
    'publish_claim': ('CPublishClaim', ['pat']),
}
PHASES = {'Gamma': 'Gamma', 'Claim': 'Claim', 'Proof': 'Proof'}


def canon_body(body):
    """canonical form of a statement list (equivalences that hold by construction):
       * `assert x is not None` dropped (x a plain name: the readers return an int or raise; an assert cannot
         change any value and the model maps a failing assert and a raise to the same reject)
       * `match E: case None: A  case x: B`            ==  `x = E; if x is None: A` followed by B
       * `r = []; for i in R: [e = E;] r.append(e|E); return tuple(r)`  ==  `return tuple(E for i in R)`"""
    out = []
    for st in body:
        if isinstance(st, ast.Expr) and isinstance(st.value, ast.Constant) and isinstance(st.value.value, str):
            continue          # docstring
        if isinstance(st, ast.Assert) and isinstance(st.test, ast.Compare) and len(st.test.ops) == 1 \
                and isinstance(st.test.ops[0], ast.IsNot) and isinstance(st.test.left, ast.Name) \
                and isinstance(st.test.comparators[0], ast.Constant) and st.test.comparators[0].value is None:
            continue
        if isinstance(st, ast.Match) and len(st.cases) == 2 and st.cases[0].guard is None and st.cases[1].guard is None \
                and isinstance(st.cases[0].pattern, ast.MatchSingleton) and st.cases[0].pattern.value is None \
                and isinstance(st.cases[1].pattern, ast.MatchAs) and st.cases[1].pattern.pattern is None \
                and st.cases[1].pattern.name is not None:
            x = st.cases[1].pattern.name
            out.append(ast.Assign(targets=[ast.Name(id=x, ctx=ast.Store())], value=st.subject, lineno=st.lineno))
            test = ast.Compare(left=ast.Name(id=x, ctx=ast.Load()), ops=[ast.Is()], comparators=[ast.Constant(value=None)])
            out.append(ast.If(test=test, body=canon_body(st.cases[0].body), orelse=[], lineno=st.lineno))
            out += canon_body(st.cases[1].body)
            continue
        if isinstance(st, (ast.If, ast.For, ast.While)):
            import copy
            st = copy.copy(st)
            st.body = canon_body(st.body)
            st.orelse = canon_body(st.orelse)
        out.append(st)
    # loop that appends -> generator
    i = 0
    res = []
    while i < len(out):
        a = out[i]
        if i + 2 < len(out) and isinstance(a, ast.Assign) and len(a.targets) == 1 and isinstance(a.targets[0], ast.Name) \
                and isinstance(a.value, ast.List) and not a.value.elts and isinstance(out[i + 1], ast.For) \
                and isinstance(out[i + 2], ast.Return):
            r, loop, ret = a.targets[0].id, out[i + 1], out[i + 2]
            elt = None
            lb = loop.body
            if not loop.orelse and isinstance(loop.target, ast.Name):
                if len(lb) == 1 and ast.unparse(lb[0]).startswith(f'{r}.append(') and isinstance(lb[0], ast.Expr):
                    elt = lb[0].value.args[0]
                elif len(lb) == 2 and isinstance(lb[0], ast.Assign) and len(lb[0].targets) == 1 \
                        and isinstance(lb[0].targets[0], ast.Name) and isinstance(lb[1], ast.Expr) \
                        and ast.unparse(lb[1]) == f'{r}.append({lb[0].targets[0].id})':
                    elt = lb[0].value
            if elt is not None and ast.unparse(ret.value) == f'tuple({r})':
                gen = ast.GeneratorExp(elt=elt, generators=[ast.comprehension(target=loop.target, iter=loop.iter, ifs=[], is_async=0)])
                res.append(ast.Return(value=ast.Call(func=ast.Name(id='tuple', ctx=ast.Load()), args=[gen], keywords=[]),
                                      lineno=ret.lineno))
                i += 3
                continue
        res.append(a)
        i += 1
    return res


def canon_fn(fn):
    import copy
    fn = copy.copy(fn)
    fn.body = canon_body(fn.body)
    return ast.fix_missing_locations(fn)


def alpha(node):
    """ast.dump with local names replaced by their order of first appearance (strings dropped)"""
    names = {}
    keep = {'len', 'data', 'tuple', 'range', 'DeserializingException', 'isinstance', 'Pattern', 'Proved', 'Instruction',
            'ValueError', 'int', 'None'}

    class T(ast.NodeTransformer):
        def visit_Name(self, n):
            if n.id in keep:
                return n
            names.setdefault(n.id, f'x{len(names)}')
            return ast.copy_location(ast.Name(id=names[n.id], ctx=n.ctx), n)

        def visit_arg(self, n):
            names.setdefault(n.arg, f'x{len(names)}')
            return ast.copy_location(ast.arg(arg=names[n.arg], annotation=None), n)

        def visit_FunctionDef(self, n):
            names.setdefault(n.name, f'x{len(names)}')
            n = self.generic_visit(n)
            n.name = names[n.name]
            n.returns = None
            return n

        def visit_Nonlocal(self, n):
            return ast.copy_location(ast.Nonlocal(names=[names.setdefault(x, f'x{len(names)}') for x in n.names]), n)

        def visit_Constant(self, n):
            return ast.copy_location(ast.Constant(value='' if isinstance(n.value, str) else n.value), n)

        def visit_JoinedStr(self, n):
            return ast.copy_location(ast.Constant(value=''), n)

        def visit_MatchAs(self, n):
            if n.name is not None:
                names.setdefault(n.name, f'x{len(names)}')
                return ast.copy_location(ast.MatchAs(pattern=n.pattern, name=names[n.name]), n)
            return n
    import copy
    return ast.dump(T().visit(copy.deepcopy(node)))


# the three byte readers and the loop head, as they must read (alpha-normalised, messages dropped):
#   maybe_next_byte = "next byte or None", next_byte = "next byte or raise", read_list = "length, then
#   that many bytes, raise when short" (= read_vec), loop = "while a byte is left: Instruction(byte) or raise"
REF_HELPERS = '''
index = 0
def maybe_next_byte():
    nonlocal index
    if index == len(data):
        return None
    ret = data[index]
    index += 1
    return ret
def next_byte(err_msg):
    match maybe_next_byte():
        case None:
            raise DeserializingException(err_msg)
        case ret:
            assert ret is not None
            return ret
def read_list():
    length = next_byte('')
    assert length is not None
    res = []
    for i in range(length):
        elem = next_byte('')
        assert elem is not None
        res.append(elem)
    return tuple(res)
'''
REF_LOOPHEAD = '''
while (byte := maybe_next_byte()) is not None:
    try:
        instruction = Instruction(byte)
    except ValueError:
        raise DeserializingException('') from None
'''
REF_ASSERT_IS_PATTERN = '''
def assert_is_pattern(p):
    assert isinstance(p, Pattern)
    return p
'''


def names_in(node):
    return [n.id for n in ast.walk(node) if isinstance(n, ast.Name)]


def canon_branch(body, helpers, counter):
    """canonical form of the statements of a dispatch arm (equivalences that hold by construction):
       * a module-level / nested helper function `_h` called with plain names: its body inlined, parameters
         substituted, locals renamed, a final `return E` turned into the assignment at the call site
         (`a, b = _h(x)` with `return u, v` becomes `a = u; b = v`)
       * `r = []; for t in R: r.append(E)`            ==  `r = [E for t in R]`
       * `x = E; x.reverse()`                          ==  `x = list(reversed(E))`
       * `x = E` (E free of reads and calls with effects) used exactly once, in the next statement == E there"""
    import copy
    out = []
    i = 0
    body = list(body)
    while i < len(body):
        st = body[i]
        # ---- helper inlining
        call, targets = None, None
        if isinstance(st, ast.Expr) and isinstance(st.value, ast.Call):
            call = st.value
        elif isinstance(st, ast.Assign) and len(st.targets) == 1 and isinstance(st.value, ast.Call):
            call, targets = st.value, st.targets[0]
        if call is not None and isinstance(call.func, ast.Name) and call.func.id in helpers \
                and not (isinstance(targets, ast.Name) and targets.id == '_'):
            fn = helpers[call.func.id]
            params = [a.arg for a in fn.args.args]
            if call.keywords or len(call.args) != len(params) or fn.args.vararg or fn.args.kwarg or fn.args.kwonlyargs \
                    or fn.args.defaults or not all(isinstance(a, ast.Name) for a in call.args):
                fail('helper function call outside the subset', st)
            counter[0] += 1
            n = counter[0]
            hb = list(fn.body)
            if hb and isinstance(hb[0], ast.Expr) and isinstance(hb[0].value, ast.Constant) and isinstance(hb[0].value.value, str):
                hb = hb[1:]
            sub = {p: a.id for p, a in zip(params, call.args)}
            locals_ = {nd.id for b in hb for nd in ast.walk(b) if isinstance(nd, ast.Name) and isinstance(nd.ctx, ast.Store)}
            if locals_ & set(sub):
                fail('helper function assigns to its parameter', st)

            class T(ast.NodeTransformer):
                def visit_Name(self, node):
                    if node.id in sub:
                        return ast.copy_location(ast.Name(id=sub[node.id], ctx=node.ctx), node)
                    if node.id in locals_:
                        return ast.copy_location(ast.Name(id=f'h{n}_{node.id}', ctx=node.ctx), node)
                    return node
            hb = [T().visit(copy.deepcopy(b)) for b in hb]
            for b in hb[:-1]:
                if any(isinstance(nd, ast.Return) for nd in ast.walk(b)):
                    fail('helper function returns early', st)
            tail = []
            if hb and isinstance(hb[-1], ast.Return):
                ret = hb.pop()
                if targets is None:
                    if ret.value is not None and not (isinstance(ret.value, ast.Constant) and ret.value.value is None):
                        fail('value of a helper function is dropped', st)
                elif isinstance(targets, ast.Tuple) and isinstance(ret.value, ast.Tuple) and len(targets.elts) == len(ret.value.elts) \
                        and all(isinstance(e, ast.Name) for e in targets.elts + ret.value.elts):
                    tail = [ast.Assign(targets=[t], value=v, lineno=st.lineno) for t, v in zip(targets.elts, ret.value.elts)]
                elif isinstance(targets, ast.Name) and ret.value is not None:
                    tail = [ast.Assign(targets=[targets], value=ret.value, lineno=st.lineno)]
                else:
                    fail('helper function result unpacked in a way outside the subset', st)
            elif targets is not None:
                fail('helper function without return used for its value', st)
            body[i:i + 1] = [ast.fix_missing_locations(b) for b in hb + tail]
            continue
        # ---- append loop -> comprehension
        if i + 1 < len(body) and isinstance(st, ast.Assign) and len(st.targets) == 1 and isinstance(st.targets[0], ast.Name) \
                and isinstance(st.value, ast.List) and not st.value.elts and isinstance(body[i + 1], ast.For):
            r, loop = st.targets[0].id, body[i + 1]
            if not loop.orelse and isinstance(loop.target, ast.Name) and len(loop.body) == 1 and isinstance(loop.body[0], ast.Expr) \
                    and isinstance(loop.body[0].value, ast.Call) and ast.unparse(loop.body[0].value.func) == f'{r}.append' \
                    and len(loop.body[0].value.args) == 1 and r not in names_in(loop.body[0].value.args[0]) + names_in(loop.iter):
                comp = ast.ListComp(elt=loop.body[0].value.args[0],
                                    generators=[ast.comprehension(target=loop.target, iter=loop.iter, ifs=[], is_async=0)])
                body[i:i + 2] = [ast.fix_missing_locations(ast.Assign(targets=[st.targets[0]], value=comp, lineno=st.lineno))]
                continue
        # ---- x = E; x.reverse()
        if i + 1 < len(body) and isinstance(st, ast.Assign) and len(st.targets) == 1 and isinstance(st.targets[0], ast.Name) \
                and isinstance(body[i + 1], ast.Expr) and ast.unparse(body[i + 1]) == f'{st.targets[0].id}.reverse()':
            rv = ast.Call(func=ast.Name(id='list', ctx=ast.Load()),
                          args=[ast.Call(func=ast.Name(id='reversed', ctx=ast.Load()), args=[st.value], keywords=[])], keywords=[])
            body[i:i + 2] = [ast.fix_missing_locations(ast.Assign(targets=[st.targets[0]], value=rv, lineno=st.lineno))]
            continue
        # ---- a local that is only a name for a read of the interpreter state (nothing is called in between:
        #      the only interpreter call of an arm is its last statement, and its arguments are evaluated first)
        if isinstance(st, ast.Assign) and len(st.targets) == 1 and isinstance(st.targets[0], ast.Name) \
                and isinstance(st.value, ast.Attribute) and isinstance(st.value.value, ast.Name) \
                and st.value.attr in ('memory', 'stack', 'claims', 'phase') and st.targets[0].id != '_':
            x, val = st.targets[0].id, st.value
            later_stores = [nd.id for b in body[i + 1:] for nd in ast.walk(b)
                            if isinstance(nd, ast.Name) and isinstance(nd.ctx, ast.Store)]
            if x not in later_stores and val.value.id not in later_stores:
                class B(ast.NodeTransformer):
                    def visit_Name(self, node):
                        if node.id == x and isinstance(node.ctx, ast.Load):
                            return copy.deepcopy(val)
                        return node
                body[i:] = [ast.fix_missing_locations(B().visit(copy.deepcopy(b))) for b in body[i + 1:]]
                continue
        # ---- a local that is only a second name for another local
        if isinstance(st, ast.Assign) and len(st.targets) == 1 and isinstance(st.targets[0], ast.Name) \
                and isinstance(st.value, ast.Name) and st.targets[0].id != '_' and st.targets[0].id != st.value.id:
            x, y = st.targets[0].id, st.value.id
            later_stores = [nd.id for b in body[i + 1:] for nd in ast.walk(b)
                            if isinstance(nd, ast.Name) and isinstance(nd.ctx, ast.Store)]
            if x not in later_stores and y not in later_stores:
                class A(ast.NodeTransformer):
                    def visit_Name(self, node):
                        if node.id == x:
                            return ast.copy_location(ast.Name(id=y, ctx=node.ctx), node)
                        return node
                body[i:] = [ast.fix_missing_locations(A().visit(copy.deepcopy(b))) for b in body[i + 1:]]
                continue
        # ---- a pure local used exactly once, in the next statement
        if i + 1 < len(body) and isinstance(st, ast.Assign) and len(st.targets) == 1 and isinstance(st.targets[0], ast.Name) \
                and pure_listexpr(st.value):
            x = st.targets[0].id
            uses_next = names_in(body[i + 1]).count(x)
            uses_later = sum(names_in(b).count(x) for b in body[i + 2:])
            if uses_next == 1 and uses_later == 0 and not isinstance(body[i + 1], (ast.If, ast.For, ast.While)):
                val = st.value

                class S(ast.NodeTransformer):
                    def visit_Name(self, node):
                        if node.id == x and isinstance(node.ctx, ast.Load):
                            return copy.deepcopy(val)
                        return node
                body[i:i + 2] = [ast.fix_missing_locations(S().visit(copy.deepcopy(body[i + 1])))]
                continue
        if isinstance(st, ast.If):
            st = copy.copy(st)
            st.body = canon_branch(st.body, helpers, counter)
            st.orelse = canon_branch(st.orelse, helpers, counter)
        out.append(st)
        i += 1
    return out


def pure_listexpr(e):
    """built from names with list / zip / reversed / dict only: no byte is read, nothing is called on the interpreter"""
    if isinstance(e, ast.Name):
        return True
    if isinstance(e, ast.Call) and isinstance(e.func, ast.Name) and e.func.id in ('list', 'zip', 'reversed', 'dict'):
        return all(pure_listexpr(a) for a in e.args) and all(isinstance(k.value, ast.Constant) for k in e.keywords)
    return False


class Deser:
    """dispatch branches -> Gallina of type option (option call * list N), threading `bs`.
    statements: x = next_byte(..); assert x is not None; x = interpreter.stack[-k];
      a, b, c, d, e = (read_list() for _ in range(5)); [_ =] interpreter.m(args) (last);
      assert isinstance(x, Pattern|Proved); if not isinstance(x, T): raise; if E >= len(interpreter.memory): raise;
      if not interpreter.claims: raise; x = interpreter.claims[0]; if x.pattern != y.conclusion: raise;
      phase dispatch on interpreter.phase; the Instantiate idiom (keys / target / values / delta / isinstance dispatch)"""

    def __init__(self, opnames, interp, helpers=None):
        self.opnames, self.I = opnames, interp
        self.n = 0
        self.helpers = helpers or {}

    def fresh(self, base):
        self.n += 1
        return f'{base}_{self.n}'

    def is_raise(self, body):
        return len(body) == 1 and isinstance(body[0], ast.Raise)

    def stack_index(self, e):
        """interpreter.stack[-k] -> k-1"""
        if isinstance(e, ast.Subscript) and ast.unparse(e.value) == f'{self.I}.stack' and isinstance(e.slice, ast.UnaryOp) \
                and isinstance(e.slice.op, ast.USub) and isinstance(e.slice.operand, ast.Constant) \
                and isinstance(e.slice.operand.value, int) and e.slice.operand.value >= 1:
            return e.slice.operand.value - 1
        return None

    def arg(self, e, kind, env, wrap):
        """argument of an interpreter call -> Gallina text; `wrap` collects enclosing matches"""
        if kind == 'ignored':
            return None
        k = self.stack_index(e)
        if k is not None:
            v = self.fresh('t')
            wrap.append(f'match stack_at {k} tr with Some {v} => ', ' | None => None end')
            return self.coerce(v, 'term', kind, wrap)
        if isinstance(e, ast.Subscript) and ast.unparse(e.value) == f'{self.I}.memory' and isinstance(e.slice, ast.Name) \
                and env.get(e.slice.id) == 'N':
            v = self.fresh('t')
            wrap.append(f'match mem_at {cname(e.slice.id)} tr with Some {v} => ', ' | None => None end')
            return self.coerce(v, 'term', kind, wrap)
        if isinstance(e, ast.Name):
            if e.id not in env:
                fail('unknown name', e)
            return self.coerce(cname(e.id), env[e.id], kind, wrap)
        if kind == 'name' and isinstance(e, ast.Call) and isinstance(e.func, ast.Name) and e.func.id == 'str' and len(e.args) == 1 \
                and isinstance(e.args[0], ast.Name) and env.get(e.args[0].id) == 'N':
            return cname(e.args[0].id)          # symbol(str(id)): the name of a deserialised symbol is its number
        if kind == 'var' and isinstance(e, ast.Call) and isinstance(e.func, ast.Name) and e.func.id in ('EVar', 'SVar') \
                and len(e.args) == 1 and isinstance(e.args[0], ast.Name) and env.get(e.args[0].id) == 'N':
            return f'(var_mk {cname(e.args[0].id)})'
        if kind == 'vars' and isinstance(e, ast.Tuple) and not e.elts:
            return '[]'
        # tuple(map(EVar, l)) == tuple(EVar(v) for v in l)
        if kind == 'vars' and isinstance(e, ast.Call) and isinstance(e.func, ast.Name) and e.func.id in ('tuple', 'list') \
                and len(e.args) == 1 and isinstance(e.args[0], ast.Call) and isinstance(e.args[0].func, ast.Name) \
                and e.args[0].func.id == 'map' and len(e.args[0].args) == 2 and isinstance(e.args[0].args[0], ast.Name) \
                and e.args[0].args[0].id in ('EVar', 'SVar') and isinstance(e.args[0].args[1], ast.Name) \
                and env.get(e.args[0].args[1].id) == 'listN':
            return f'(map var_mk {cname(e.args[0].args[1].id)})'
        if kind == 'vars' and isinstance(e, ast.Call) and isinstance(e.func, ast.Name) and e.func.id == 'tuple' and len(e.args) == 1 \
                and isinstance(e.args[0], (ast.GeneratorExp, ast.ListComp)) and len(e.args[0].generators) == 1:
            g = e.args[0]
            gen = g.generators[0]
            if isinstance(gen.target, ast.Name) and not gen.ifs and isinstance(gen.iter, ast.Name) and env.get(gen.iter.id) == 'listN' \
                    and isinstance(g.elt, ast.Call) and isinstance(g.elt.func, ast.Name) and g.elt.func.id in ('EVar', 'SVar') \
                    and len(g.elt.args) == 1 and isinstance(g.elt.args[0], ast.Name) and g.elt.args[0].id == gen.target.id:
                return f'(map var_mk {cname(gen.iter.id)})'
        fail(f'call argument outside the subset (expected {kind})', e)

    def coerce(self, v, have, want, wrap):
        if have == want or (have == 'N' and want in ('N', 'name')) or (have == 'delta' and want == 'delta'):
            return v
        if have == 'term' and want in ('pat', 'proved'):
            # the models are typed: a Proved where a Pattern is expected (and vice versa) is a reject
            p = self.fresh('p')
            ctor = 'TPat' if want == 'pat' else 'TProved'
            wrap.append(f'match {v} with {ctor} {p} => ', ' | _ => None end')
            return p
        if have in ('pat', 'proved') and want == 'term':
            return f'({"TPat" if have == "pat" else "TProved"} {v})'
        fail(f'argument of kind {have} where {want} is expected')

    def call(self, c, env):
        if not (isinstance(c, ast.Call) and isinstance(c.func, ast.Attribute) and ast.unparse(c.func.value) == self.I
                and not c.keywords):
            fail('not a call of an interpreter method', c)
        m = c.func.attr
        if m not in CALLS:
            fail(f'interpreter method {m} unknown to the model', c)
        ctor, kinds = CALLS[m]
        if len(c.args) != len(kinds):
            fail(f'{m} called with {len(c.args)} arguments', c)
        wrap = Wrap()
        args = [self.arg(a, k, env, wrap) for a, k in zip(c.args, kinds)]
        args = [a for a in args if a is not None]
        core = f'Some (Some ({" ".join([ctor] + args)}), bs)' if args else f'Some (Some {ctor}, bs)'
        return wrap.close(core)

    def isinstance_test(self, t):
        """isinstance(x, Pattern|Proved) -> (x, kind)"""
        if isinstance(t, ast.Call) and isinstance(t.func, ast.Name) and t.func.id == 'isinstance' and len(t.args) == 2 \
                and isinstance(t.args[0], ast.Name) and isinstance(t.args[1], ast.Name) and t.args[1].id in ('Pattern', 'Proved'):
            return t.args[0].id, 'pat' if t.args[1].id == 'Pattern' else 'proved'
        return None

    def stmts(self, body, env):
        if not body:
            return 'Some (None, bs)'          # the branch calls nothing
        st, rest = body[0], body[1:]
        if isinstance(st, ast.Raise):
            return 'None'                     # every exception is a reject; what follows is dead
        # interpreter call (must be the last statement)
        c = None
        if isinstance(st, ast.Expr) and isinstance(st.value, ast.Call):
            c = st.value
        elif isinstance(st, ast.Assign) and len(st.targets) == 1 and isinstance(st.targets[0], ast.Name) and st.targets[0].id == '_' \
                and isinstance(st.value, ast.Call):
            c = st.value
        if c is not None and ast.unparse(c.func).startswith(self.I + '.'):
            if rest:
                fail('statements after the interpreter call of a branch', rest[0])
            return self.call(c, env)
        if isinstance(st, ast.Assert):
            t = st.test
            if isinstance(t, ast.Compare) and len(t.ops) == 1 and isinstance(t.ops[0], ast.IsNot) and isinstance(t.left, ast.Name) \
                    and env.get(t.left.id) == 'N' and isinstance(t.comparators[0], ast.Constant) and t.comparators[0].value is None:
                return self.stmts(rest, env)
            it = self.isinstance_test(t)
            if it and env.get(it[0]) == 'term':
                return self.refine(it[0], it[1], rest, env)
            fail('assert outside the subset', st)
        if isinstance(st, ast.FunctionDef):
            if alpha(st) != alpha(ast.parse(REF_ASSERT_IS_PATTERN).body[0]):
                fail('nested function other than assert_is_pattern', st)
            env2 = dict(env)
            env2[st.name] = 'assert_is_pattern'
            return self.stmts(rest, env2)
        if isinstance(st, ast.Assign) and len(st.targets) == 1:
            tg, v = st.targets[0], st.value
            if isinstance(tg, ast.Name):
                x = tg.id
                if isinstance(v, ast.Name) and v.id in env and env[v.id] != 'assert_is_pattern':
                    env2 = dict(env)
                    env2[x] = env[v.id]                 # a second name for the same value
                    return f'(let {cname(x)} := {cname(v.id)} in {self.stmts(rest, env2)})'
                if isinstance(v, ast.Call) and isinstance(v.func, ast.Name) and v.func.id == 'next_byte' and len(v.args) == 1:
                    env2 = dict(env)
                    env2[x] = 'N'
                    return f'match bs with {cname(x)} :: bs => {self.stmts(rest, env2)} | [] => None end'
                k = self.stack_index(v)
                if k is not None:
                    env2 = dict(env)
                    env2[x] = 'term'
                    return f'match stack_at {k} tr with Some {cname(x)} => {self.stmts(rest, env2)} | None => None end'
                if ast.unparse(v) == f'len({self.I}.memory)':
                    env2 = dict(env)
                    env2[x] = 'N'
                    return f'(let {cname(x)} := py_len (t_memory tr) in {self.stmts(rest, env2)})'
                sl = self.raw_slice(v, env)
                if sl is not None:
                    env2 = dict(env)
                    env2[x] = ('slice', sl)
                    return self.stmts(rest, env2)
                # keys = [next_byte(..) for _ in range(n)]
                if isinstance(v, ast.ListComp) and len(v.generators) == 1 and isinstance(v.elt, ast.Call) \
                        and isinstance(v.elt.func, ast.Name) and v.elt.func.id == 'next_byte' \
                        and ast.unparse(v.generators[0].iter).startswith('range(') and not v.generators[0].ifs:
                    r = v.generators[0].iter
                    if not (len(r.args) == 1 and isinstance(r.args[0], ast.Name) and env.get(r.args[0].id) == 'N'):
                        fail('range() of something else than a byte read before', v)
                    env2 = dict(env)
                    env2[x] = 'listN'
                    return (f'match take_n (N.to_nat {cname(r.args[0].id)}) bs with Some ({cname(x)}, bs) => '
                            f'{self.stmts(rest, env2)} | None => None end')
                # values = map(assert_is_pattern, reversed(interpreter.stack[-(n + 1) : -1]))
                # [f(p) for p in E] with f a plain name == map(f, E) (every element is consumed by the strict zip)
                if isinstance(v, ast.ListComp) and len(v.generators) == 1 and not v.generators[0].ifs \
                        and isinstance(v.generators[0].target, ast.Name) and isinstance(v.elt, ast.Call) \
                        and isinstance(v.elt.func, ast.Name) and len(v.elt.args) == 1 and not v.elt.keywords \
                        and isinstance(v.elt.args[0], ast.Name) and v.elt.args[0].id == v.generators[0].target.id \
                        and self.is_expect_pattern(v.elt.func, env):
                    v = ast.Call(func=ast.Name(id='map', ctx=ast.Load()), args=[v.elt.func, v.generators[0].iter], keywords=[])
                if isinstance(v, ast.Call) and isinstance(v.func, ast.Name) and v.func.id == 'map' and len(v.args) == 2 \
                        and isinstance(v.args[0], ast.Name) and self.is_expect_pattern(v.args[0], env):
                    n = self.below_top(v.args[1], env)
                    env2 = dict(env)
                    env2[x] = 'pats'
                    return (f'match all_pats (stack_below_top {n} tr) with Some {cname(x)} => '
                            f'{self.stmts(rest, env2)} | None => None end')
                # delta = dict(reversed(list(zip(keys, values, strict=True))))
                if isinstance(v, ast.Call) and isinstance(v.func, ast.Name) and v.func.id == 'dict' and len(v.args) == 1:
                    z = self.zipexpr(v.args[0], env)
                    env2 = dict(env)
                    env2[x] = 'delta'
                    core = (f'match {z[0]} with Some z => let {cname(x)} := mk_dict ({z[1]} z) in '
                            f'{self.stmts(rest, env2)} | None => None end')
                    return z[2] + core + z[3]
                # claim = interpreter.claims[0]
                if ast.unparse(v) == f'{self.I}.claims[0]':
                    env2 = dict(env)
                    env2[x] = 'claim'
                    return f'match t_claims tr with {cname(x)} :: _ => {self.stmts(rest, env2)} | [] => None end'
            if isinstance(tg, ast.Tuple) and all(isinstance(e, ast.Name) for e in tg.elts) and isinstance(v, (ast.GeneratorExp, ast.ListComp)) \
                    and ast.unparse(v.elt) == 'read_list()' and len(v.generators) == 1 \
                    and ast.unparse(v.generators[0].iter) == f'range({len(tg.elts)})' and not v.generators[0].ifs:
                env2 = dict(env)
                code = self.stmts(rest, {**env2, **{e.id: 'listN' for e in tg.elts}})
                for e in reversed(tg.elts):
                    code = f'match read_vec bs with Some ({cname(e.id)}, bs) => {code} | None => None end'
                return code
            fail('assignment outside the subset', st)
        if isinstance(st, ast.If):
            t = st.test
            # guards that raise
            if self.is_raise(st.body) and not st.orelse:
                if isinstance(t, ast.UnaryOp) and isinstance(t.op, ast.Not):
                    it = self.isinstance_test(t.operand)
                    if it and env.get(it[0]) == 'term':
                        return self.refine(it[0], it[1], rest, env)
                    if ast.unparse(t.operand) == f'{self.I}.claims':
                        return f'match t_claims tr with [] => None | _ :: _ => {self.stmts(rest, env)} end'
                if isinstance(t, ast.Compare) and len(t.ops) == 1 and isinstance(t.ops[0], ast.GtE) and isinstance(t.left, ast.Name) \
                        and env.get(t.left.id) == 'N' and ast.unparse(t.comparators[0]) == f'len({self.I}.memory)':
                    return f'if N.leb (py_len (t_memory tr)) {cname(t.left.id)} then None else {self.stmts(rest, env)}'
                if isinstance(t, ast.Compare) and len(t.ops) == 1 and isinstance(t.ops[0], ast.NotEq):
                    a, b = self.patexpr(t.left, env), self.patexpr(t.comparators[0], env)
                    return f'if negb (pat_eqb {a} {b}) then None else {self.stmts(rest, env)}'
                fail('guard outside the subset', st)
            # dispatch on the execution phase
            if ast.unparse(t).startswith(f'{self.I}.phase == ExecutionPhase.'):
                if rest:
                    fail('statements after the phase dispatch', rest[0])
                return self.phase_chain(st, env)
            # dispatch on the kind of a stack entry
            it = self.isinstance_test(t)
            if it and env.get(it[0]) == 'term':
                if rest:
                    fail('statements after the isinstance dispatch', rest[0])
                return self.kind_chain(st, it, env)
            fail('if outside the subset', st)
        fail('statement outside the subset', st)

    def refine(self, x, kind, rest, env):
        env2 = dict(env)
        env2[x] = kind
        ctor = 'TPat' if kind == 'pat' else 'TProved'
        # the refined variable shadows the term variable
        return f'match {cname(x)} with {ctor} {cname(x)} => {self.stmts(rest, env2)} | _ => None end'

    def patexpr(self, e, env):
        if isinstance(e, ast.Attribute) and isinstance(e.value, ast.Name):
            k = env.get(e.value.id)
            if (e.attr == 'pattern' and k == 'claim') or (e.attr == 'conclusion' and k == 'proved'):
                return cname(e.value.id)
        fail('pattern expression outside the subset', e)

    def below_top(self, e, env):
        """reversed(interpreter.stack[-(n + 1) : -1]) -> n"""
        if isinstance(e, ast.Call) and isinstance(e.func, ast.Name) and e.func.id == 'reversed' and len(e.args) == 1:
            s = e.args[0]
            if isinstance(s, ast.Subscript) and ast.unparse(s.value) == f'{self.I}.stack' and isinstance(s.slice, ast.Slice) \
                    and s.slice.step is None and ast.unparse(s.slice.upper) == '-1':
                lo = s.slice.lower
                if isinstance(lo, ast.UnaryOp) and isinstance(lo.op, ast.USub) and isinstance(lo.operand, ast.BinOp) \
                        and isinstance(lo.operand.op, ast.Add) and isinstance(lo.operand.left, ast.Name) \
                        and env.get(lo.operand.left.id) == 'N' and isinstance(lo.operand.right, ast.Constant) \
                        and lo.operand.right.value == 1:
                    return cname(lo.operand.left.id)
        fail('stack slice outside the subset', e)

    def is_expect_pattern(self, f, env):
        """a nested or module-level function that is `assert isinstance(p, Pattern); return p`"""
        if env.get(f.id) == 'assert_is_pattern':
            return True
        h = self.helpers.get(f.id)
        return h is not None and alpha(h) == alpha(ast.parse(REF_ASSERT_IS_PATTERN).body[0])

    def raw_slice(self, e, env):
        """interpreter.stack[-(n + 1) : -1] (the entries below the top, bottom first) -> n"""
        if isinstance(e, ast.Subscript) and ast.unparse(e.value) == f'{self.I}.stack' and isinstance(e.slice, ast.Slice) \
                and e.slice.step is None and e.slice.upper is not None and ast.unparse(e.slice.upper) == '-1':
            lo = e.slice.lower
            if isinstance(lo, ast.UnaryOp) and isinstance(lo.op, ast.USub) and isinstance(lo.operand, ast.BinOp) \
                    and isinstance(lo.operand.op, ast.Add) and isinstance(lo.operand.left, ast.Name) \
                    and env.get(lo.operand.left.id) == 'N' and isinstance(lo.operand.right, ast.Constant) \
                    and lo.operand.right.value == 1:
                return cname(lo.operand.left.id)
        return None

    def strip_rev(self, e):
        """peel list(..) / reversed(..): -> (core, number of reversals mod 2)"""
        nrev = 0
        while isinstance(e, ast.Call) and isinstance(e.func, ast.Name) and e.func.id in ('reversed', 'list') \
                and len(e.args) == 1 and not e.keywords:
            nrev += e.func.id == 'reversed'
            e = e.args[0]
        return e, nrev % 2

    def zipexpr(self, e, env):
        """dict argument: any nesting of list(..)/reversed(..) around zip(K, V, strict=True), where K is the key list
        (possibly reversed) and V the plugs -- already checked (`values`, top first) or `map(expect_pattern, S)` /
        `[expect_pattern(p) for p in S]` over the stack slice S (bottom first) or its reversal (top first).
        zip(reversed K, reversed V) lists the pairs of zip(K, V) backwards (the strict zip raises in both or in none);
        keys and plugs running in OPPOSITE directions pair other things and are not accepted.
        -> (zip text, rev | id, prefix, suffix)"""
        e, nrev = self.strip_rev(e)
        pre, suf = '', ''
        if isinstance(e, ast.Call) and isinstance(e.func, ast.Name) and e.func.id == 'zip' and len(e.args) == 2 \
                and [(k.arg, ast.unparse(k.value)) for k in e.keywords] == [('strict', 'True')]:
            ke, krev = self.strip_rev(e.args[0])
            ve = e.args[1]
            if not (isinstance(ke, ast.Name) and env.get(ke.id) == 'listN'):
                fail('zip: first argument is not the key list', e)
            if isinstance(ve, ast.Name) and env.get(ve.id) == 'pats':
                vname, vrev = cname(ve.id), 0                   # top first, like the keys as read
            else:
                f = src = None
                if isinstance(ve, ast.Call) and isinstance(ve.func, ast.Name) and ve.func.id == 'map' and len(ve.args) == 2 \
                        and isinstance(ve.args[0], ast.Name):
                    f, src = ve.args[0], ve.args[1]
                elif isinstance(ve, (ast.ListComp, ast.GeneratorExp)) and len(ve.generators) == 1 and not ve.generators[0].ifs \
                        and isinstance(ve.elt, ast.Call) and isinstance(ve.elt.func, ast.Name) and len(ve.elt.args) == 1 \
                        and ast.unparse(ve.elt.args[0]) == ast.unparse(ve.generators[0].target):
                    f, src = ve.elt.func, ve.generators[0].iter
                if f is None or not self.is_expect_pattern(f, env):
                    fail('zip: second argument is not the checked plugs', e)
                src, srev = self.strip_rev(src)
                n = self.raw_slice(src, env)
                if n is None and isinstance(src, ast.Name) and isinstance(env.get(src.id), tuple) and env[src.id][0] == 'slice':
                    n = env[src.id][1]
                if n is None:
                    fail('zip: plugs are not the stack slice below the target', e)
                vrev = 1 - srev                                  # the raw slice is bottom first = reversed w.r.t. top first
                vname = self.fresh('vals')
                pre = f'match all_pats (stack_below_top {n} tr) with Some {vname} => '
                suf = ' | None => None end'
            if krev != vrev:
                fail('zip: keys and plugs run in opposite directions', e)
            post = 'rev' if (nrev + krev) % 2 else 'id'
            return f'zip_strict {cname(ke.id)} {vname}', post, pre, suf
        fail('dict(...) argument outside the subset', e)

    def phase_chain(self, st, env):
        t = ast.unparse(st.test)
        ph = t.split('ExecutionPhase.')[1]
        if t != f'{self.I}.phase == ExecutionPhase.{ph}' or ph not in PHASES:
            fail('phase test outside the subset', st)
        then = self.stmts(st.body, env)
        if not st.orelse:
            els = 'Some (None, bs)'
        elif len(st.orelse) == 1 and isinstance(st.orelse[0], ast.If) and ast.unparse(st.orelse[0].test).startswith(f'{self.I}.phase == '):
            els = self.phase_chain(st.orelse[0], env)
        else:
            els = self.stmts(st.orelse, env)
        return f'if phase_eqb (t_phase tr) {PHASES[ph]} then {then} else {els}'

    def kind_chain(self, st, it, env):
        x, kind = it
        branches = {kind: self.stmts(st.body, {**env, x: kind})}
        o = st.orelse
        if len(o) == 1 and isinstance(o[0], ast.If):
            it2 = self.isinstance_test(o[0].test)
            if not it2 or it2[0] != x or it2[1] == kind:
                fail('isinstance chain outside the subset', o[0])
            branches[it2[1]] = self.stmts(o[0].body, {**env, x: it2[1]})
            if o[0].orelse and not self.is_raise(o[0].orelse):
                fail('isinstance chain: the final else is not a raise', o[0])
        elif o and not self.is_raise(o):
            fail('isinstance chain: else is not a raise', st)
        pat = branches.get('pat', 'None')
        prv = branches.get('proved', 'None')
        return f'match {cname(x)} with TPat {cname(x)} => {pat} | TProved {cname(x)} => {prv} end'


class Wrap:
    def __init__(self):
        self.items = []

    def append(self, a, b):
        self.items.append((a, b))

    def close(self, core):
        for a, b in reversed(self.items):
            core = a + core + b
        return core


def inline_constants(tree, fn):
    """a module-level `NAME = <int>` (assigned once, never rebound in the function) = its value"""
    import copy
    consts = {}
    for n in tree.body:
        tgt = val = None
        if isinstance(n, ast.Assign) and len(n.targets) == 1 and isinstance(n.targets[0], ast.Name):
            tgt, val = n.targets[0].id, n.value
        elif isinstance(n, ast.AnnAssign) and isinstance(n.target, ast.Name) and n.value is not None:
            tgt, val = n.target.id, n.value
        if tgt and isinstance(val, ast.Constant) and isinstance(val.value, int) and not isinstance(val.value, bool):
            consts[tgt] = None if tgt in consts else val.value
    stores = {nd.id for nd in ast.walk(fn) if isinstance(nd, ast.Name) and isinstance(nd.ctx, ast.Store)} | \
             {a.arg for nd in ast.walk(fn) if isinstance(nd, ast.arguments) for a in nd.args}
    consts = {k: v for k, v in consts.items() if v is not None and k not in stores}
    if not consts:
        return fn

    class T(ast.NodeTransformer):
        def visit_Name(self, node):
            if isinstance(node.ctx, ast.Load) and node.id in consts:
                return ast.copy_location(ast.Constant(value=consts[node.id]), node)
            return node
    return ast.fix_missing_locations(T().visit(copy.deepcopy(fn)))


def join_split(tree, fn):
    """the loop body `execute(decode(byte), a, b, ..)` with module-level
         def decode(b): try: return E  except X: raise ..        def execute(instruction, p, q, ..): <dispatch>
       == `try: instruction = E[b:=byte] except X: raise ..` followed by the dispatch with p, q, .. bound to a, b, .."""
    import copy
    if not fn.body or not isinstance(fn.body[-1], (ast.While, ast.For)):
        return fn
    loop = fn.body[-1]
    funcs = {n.name: n for n in tree.body if isinstance(n, ast.FunctionDef) and n is not fn}
    if not (len(loop.body) == 1 and isinstance(loop.body[0], ast.Expr) and isinstance(loop.body[0].value, ast.Call)
            and isinstance(loop.body[0].value.func, ast.Name) and loop.body[0].value.func.id in funcs):
        return fn
    call = loop.body[0].value
    ex = funcs[call.func.id]
    params = [a.arg for a in ex.args.args]
    if call.keywords or len(call.args) != len(params) or ex.args.vararg or ex.args.kwarg or ex.args.kwonlyargs or ex.args.defaults:
        fail('executor call outside the subset', call)
    pre = []
    sub = {}
    for pname, a in zip(params, call.args):
        if isinstance(a, ast.Name):
            sub[pname] = a.id
        elif isinstance(a, ast.Call) and isinstance(a.func, ast.Name) and a.func.id in funcs and len(a.args) == 1 \
                and isinstance(a.args[0], ast.Name) and not a.keywords and not pre:
            dec = funcs[a.func.id]
            body = [b for b in dec.body if not (isinstance(b, ast.Expr) and isinstance(b.value, ast.Constant))]
            if not (len(dec.args.args) == 1 and len(body) == 1 and isinstance(body[0], ast.Try) and len(body[0].body) == 1
                    and isinstance(body[0].body[0], ast.Return) and not body[0].orelse and not body[0].finalbody):
                fail('decoder is not `try: return E except ..: raise ..`', dec)
            dparam, arg = dec.args.args[0].arg, a.args[0].id

            class D(ast.NodeTransformer):
                def visit_Name(self, node):
                    if node.id == dparam:
                        return ast.copy_location(ast.Name(id=arg, ctx=node.ctx), node)
                    return node
            tr = D().visit(copy.deepcopy(body[0]))
            tr.body = [ast.Assign(targets=[ast.Name(id=pname, ctx=ast.Store())], value=tr.body[0].value, lineno=dec.lineno)]
            pre.append(tr)
            sub[pname] = pname
        else:
            fail('executor argument outside the subset', call)
    def own_returns(node):
        for ch in ast.iter_child_nodes(node):
            if isinstance(ch, (ast.FunctionDef, ast.Lambda, ast.ClassDef)):
                continue
            if isinstance(ch, ast.Return):
                yield ch
            yield from own_returns(ch)
    if any(True for b in ex.body for _ in ([b] if isinstance(b, ast.Return) else own_returns(b))):
        fail('executor returns', ex)

    class E(ast.NodeTransformer):
        def visit_Name(self, node):
            if node.id in sub:
                return ast.copy_location(ast.Name(id=sub[node.id], ctx=node.ctx), node)
            return node
    exbody = [b for b in ex.body if not (isinstance(b, ast.Expr) and isinstance(b.value, ast.Constant) and isinstance(b.value.value, str))]
    fn2 = copy.deepcopy(fn)
    fn2.body[-1].body = pre + [E().visit(copy.deepcopy(b)) for b in exbody]
    return ast.fix_missing_locations(fn2)


def declass_readers(tree, fn):
    """closures sharing `nonlocal` state  ==  methods of a private class holding that state:
         class _R:  __init__(self, p): self._a = p; self._i = <const>      r = _R(data)
                    def m(self, ..): .. self._a .. self._i .. self.m2(..)   ... r.m(..) ...
       is rewritten into   i = <const>;  def m(..): nonlocal i; .. data .. i .. m2(..)   and   m(..)
       (one instance, created by the first statement of the function and never passed on)"""
    import copy
    if not (fn.body and isinstance(fn.body[0], ast.Assign) and len(fn.body[0].targets) == 1
            and isinstance(fn.body[0].targets[0], ast.Name) and isinstance(fn.body[0].value, ast.Call)
            and isinstance(fn.body[0].value.func, ast.Name)):
        return tree, fn
    inst, cname_ = fn.body[0].targets[0].id, fn.body[0].value.func.id
    cls = [n for n in tree.body if isinstance(n, ast.ClassDef) and n.name == cname_]
    if len(cls) != 1 or not cname_.startswith('_'):
        return tree, fn
    cls = cls[0]
    call = fn.body[0].value
    if cls.bases or cls.decorator_list or call.keywords or not all(isinstance(a, ast.Name) for a in call.args):
        fail('reader class outside the subset', cls)
    methods = [m for m in cls.body if isinstance(m, ast.FunctionDef)]
    if [m for m in cls.body if not isinstance(m, ast.FunctionDef)
            and not (isinstance(m, ast.Expr) and isinstance(m.value, ast.Constant))]:
        fail('reader class has class-level statements', cls)
    init = [m for m in methods if m.name == '__init__']
    if len(init) != 1 or len(init[0].args.args) != 1 + len(call.args):
        fail('reader class: __init__ does not take the constructor arguments', cls)
    attr = {}          # attribute -> ('param', outer name) | ('state', local name, constant)
    params = {a.arg: c.id for a, c in zip(init[0].args.args[1:], call.args)}
    for st in init[0].body:
        if isinstance(st, ast.Expr) and isinstance(st.value, ast.Constant):
            continue
        if isinstance(st, ast.Assign) and len(st.targets) == 1 and isinstance(st.targets[0], ast.Attribute) \
                and isinstance(st.targets[0].value, ast.Name) and st.targets[0].value.id == 'self':
            a = st.targets[0].attr
            if isinstance(st.value, ast.Name) and st.value.id in params:
                attr[a] = ('param', params[st.value.id])
                continue
            if isinstance(st.value, ast.Constant):
                attr[a] = ('state', a.lstrip('_') or a, st.value)
                continue
        fail('reader class: __init__ outside the subset', st)
    mnames = {m.name for m in methods if m.name != '__init__'}
    for nd in ast.walk(fn):
        if isinstance(nd, ast.Name) and nd.id == inst and isinstance(nd.ctx, ast.Load):
            pass
    # every use of the instance must be a call of one of its methods
    uses = [nd for nd in ast.walk(fn) if isinstance(nd, ast.Name) and nd.id == inst and isinstance(nd.ctx, ast.Load)]
    meth_uses = [nd for nd in ast.walk(fn) if isinstance(nd, ast.Attribute) and isinstance(nd.value, ast.Name)
                 and nd.value.id == inst and nd.attr in mnames]
    if len(uses) != len(meth_uses):
        fail('reader instance is used otherwise than through its methods', fn)

    class M(ast.NodeTransformer):
        def visit_Attribute(self, node):
            if isinstance(node.value, ast.Name) and node.value.id == 'self':
                if node.attr in attr:
                    a = attr[node.attr]
                    return ast.copy_location(ast.Name(id=a[1], ctx=node.ctx), node)
                if node.attr in mnames:
                    return ast.copy_location(ast.Name(id=node.attr, ctx=ast.Load()), node)
                fail('reader class: unknown attribute self.' + node.attr, node)
            return self.generic_visit(node)
    closures = []
    for a in attr.values():
        if a[0] == 'state':
            closures.append(ast.Assign(targets=[ast.Name(id=a[1], ctx=ast.Store())], value=a[2], lineno=cls.lineno))
    for m in methods:
        if m.name == '__init__':
            continue
        if m.decorator_list or not m.args.args or m.args.args[0].arg != 'self':
            fail('reader class: method outside the subset', m)
        f = copy.deepcopy(m)
        f.args.args = f.args.args[1:]
        body = [M().visit(b) for b in f.body]
        if body and isinstance(body[0], ast.Expr) and isinstance(body[0].value, ast.Constant) and isinstance(body[0].value.value, str):
            body = body[1:]
        stored = {nd.id for b in body for nd in ast.walk(b) if isinstance(nd, ast.Name) and isinstance(nd.ctx, ast.Store)}
        nl = [a[1] for a in attr.values() if a[0] == 'state' and a[1] in stored]
        if nl:
            body = [ast.Nonlocal(names=nl)] + body
        f.body = body
        closures.append(f)

    class U(ast.NodeTransformer):
        def visit_Attribute(self, node):
            if isinstance(node.value, ast.Name) and node.value.id == inst and node.attr in mnames:
                return ast.copy_location(ast.Name(id=node.attr, ctx=ast.Load()), node)
            return self.generic_visit(node)
    fn2 = copy.deepcopy(fn)
    fn2.body = closures + [U().visit(b) for b in fn2.body[1:]]
    return tree, ast.fix_missing_locations(fn2)


def deserializer(src, opnames):
    tree = ast.parse(src)
    fns = [n for n in tree.body if isinstance(n, ast.FunctionDef) and n.name == 'deserialize_instructions']
    if len(fns) != 1:
        fail('deserialize_instructions not found')
    fn = fns[0]
    fn = join_split(tree, fn)
    tree, fn = declass_readers(tree, fn)
    fn = inline_constants(tree, fn)
    # private module-level helper functions: inlined where the dispatch calls them
    helpers = {n.name: n for n in tree.body if isinstance(n, ast.FunctionDef) and n.name.startswith('_')}
    if len(fn.args.args) != 2:
        fail('deserialize_instructions: parameters changed', fn)
    data, interp = fn.args.args[0].arg, fn.args.args[1].arg
    body = [b for b in fn.body if not (isinstance(b, ast.Expr) and isinstance(b.value, ast.Constant) and isinstance(b.value.value, str))]
    ref = ast.parse(REF_HELPERS.replace('data', data)).body
    if len(body) != len(ref) + 1:
        fail('deserialize_instructions: statements besides the three readers and the loop', fn)
    for got, want in zip(body[:-1], ref):
        if isinstance(got, ast.FunctionDef) and isinstance(want, ast.FunctionDef):
            got, want = canon_fn(got), canon_fn(want)
        if alpha(got).replace(f"id='{data}'", "id='data'") != alpha(want).replace(f"id='{data}'", "id='data'"):
            fail('byte reader differs from the reference (maybe_next_byte / next_byte / read_list)', got)
    loop = body[-1]
    # `while True: x = E; if x is None: break; ...`  ==  `while (x := E) is not None: ...`
    if isinstance(loop, ast.While) and isinstance(loop.test, ast.Constant) and loop.test.value is True and len(loop.body) >= 2 \
            and isinstance(loop.body[0], ast.Assign) and len(loop.body[0].targets) == 1 and isinstance(loop.body[0].targets[0], ast.Name) \
            and isinstance(loop.body[1], ast.If) and not loop.body[1].orelse and len(loop.body[1].body) == 1 \
            and isinstance(loop.body[1].body[0], ast.Break) \
            and ast.unparse(loop.body[1].test) == f'{loop.body[0].targets[0].id} is None' \
            and not any(isinstance(nd, (ast.Break, ast.Continue)) for b in loop.body[2:] for nd in ast.walk(b)):
        x = loop.body[0].targets[0].id
        test = ast.Compare(left=ast.NamedExpr(target=ast.Name(id=x, ctx=ast.Store()), value=loop.body[0].value),
                           ops=[ast.IsNot()], comparators=[ast.Constant(value=None)])
        loop = ast.fix_missing_locations(ast.While(test=test, body=loop.body[2:], orelse=loop.orelse, lineno=loop.lineno))
    # `for x in iter(f, None): ...`  ==  `while (x := f()) is not None: ...`   (iter(callable, sentinel) stops at the
    # first value EQUAL to the sentinel; a byte is an int and never equals None)
    if isinstance(loop, ast.For) and isinstance(loop.target, ast.Name) and not loop.orelse and isinstance(loop.iter, ast.Call) \
            and isinstance(loop.iter.func, ast.Name) and loop.iter.func.id == 'iter' and len(loop.iter.args) == 2 \
            and isinstance(loop.iter.args[0], ast.Name) and isinstance(loop.iter.args[1], ast.Constant) \
            and loop.iter.args[1].value is None \
            and not any(isinstance(nd, (ast.Break, ast.Continue)) for b in loop.body for nd in ast.walk(b)):
        test = ast.Compare(left=ast.NamedExpr(target=ast.Name(id=loop.target.id, ctx=ast.Store()),
                                              value=ast.Call(func=loop.iter.args[0], args=[], keywords=[])),
                           ops=[ast.IsNot()], comparators=[ast.Constant(value=None)])
        loop = ast.fix_missing_locations(ast.While(test=test, body=loop.body, orelse=[], lineno=loop.lineno))
    refloop = ast.parse(REF_LOOPHEAD).body[0]
    if not isinstance(loop, ast.While) or loop.orelse or len(loop.body) != 2:
        fail('the loop is not `while byte: try Instruction(byte); dispatch`', loop)
    import copy
    head = copy.deepcopy(loop)
    head.body = head.body[:1]
    # the reader names must be the real ones here (they are called by name in the dispatch)
    if alpha(head) != alpha(refloop):
        fail('loop head differs from the reference', loop)
    instr = loop.body[0].body[0].targets[0].id
    D = Deser(opnames, interp, helpers)
    counter = [0]
    _stmts = D.stmts
    chain = loop.body[1]
    branches = []
    if isinstance(chain, ast.Match):
        # `match instruction: case Instruction.X: ... case _: raise` = the if/elif chain on `instruction == Instruction.X`
        if not (isinstance(chain.subject, ast.Name) and chain.subject.id == instr):
            fail('match subject is not the decoded instruction', chain)
        for i, case in enumerate(chain.cases):
            if case.guard is not None:
                fail('guarded case in the dispatch', chain)
            pt = case.pattern
            last = i == len(chain.cases) - 1
            if last:
                if not (isinstance(pt, ast.MatchAs) and pt.pattern is None and pt.name is None and D.is_raise(case.body)):
                    fail('the last case of the dispatch is not `case _: raise`', chain)
                break
            if not (isinstance(pt, ast.MatchValue) and isinstance(pt.value, ast.Attribute)
                    and ast.unparse(pt.value.value) == 'Instruction' and pt.value.attr in opnames):
                fail('case pattern is not `Instruction.X`', chain)
            branches.append((pt.value.attr, D.stmts(canon_branch(case.body, helpers, counter), {})))
        if len({b for b, _ in branches}) != len(branches):
            fail('an Instruction has two arms')
        return branches
    while True:
        if not isinstance(chain, ast.If):
            fail('dispatch is not an if/elif chain', chain)
        t = chain.test
        if not (isinstance(t, ast.Compare) and len(t.ops) == 1 and isinstance(t.ops[0], ast.Eq) and isinstance(t.left, ast.Name)
                and t.left.id == instr and isinstance(t.comparators[0], ast.Attribute)
                and ast.unparse(t.comparators[0].value) == 'Instruction' and t.comparators[0].attr in opnames):
            fail('dispatch test is not `instruction == Instruction.X`', chain)
        branches.append((t.comparators[0].attr, D.stmts(canon_branch(chain.body, helpers, counter), {})))
        if len(chain.orelse) == 1 and isinstance(chain.orelse[0], ast.If):
            chain = chain.orelse[0]
            continue
        if not D.is_raise(chain.orelse):
            fail('the final else of the dispatch does not raise', chain)
        break
    return branches


# ------------------------------------------------------------------------------------------------

def generate(repo):
    base = os.path.join(repo, PG)
    ops = opcode_table(open(os.path.join(base, 'instruction.py')).read())
    opnames = {n for _, n in ops}
    methods, sups = serializer(open(os.path.join(base, 'serializing_interpreter.py')).read(), opnames)
    branches = deserializer(open(os.path.join(base, 'deserialize.py')).read(), opnames)
    L = ['(** GENERATED by translators/py_serial.py from instruction.py, serializing_interpreter.py and deserialize.py',
         '    (statement by statement) -- do not edit.  Meaning of the primitives: coq/Interp/SerialLib.v *)',
         'From Coq Require Import NArith List Bool String.',
         'From Pi2 Require Import ML.Syntax ML.Subst ML.Machine Interp.Calls Interp.SerialLib.',
         'Import ListNotations.', 'Open Scope N_scope.', '',
         '(** class Instruction(IntEnum) *)',
         'Definition ps_opcodes : list (N * string) :=', '  [' + ';\n   '.join(f'({b}, "{n}"%string)' for b, n in ops) + '].',
         'Definition pyop (name:string) : N := op_lookup ps_opcodes name.', '',
         '(** SerializingInterpreter: the bytes each method writes *)']
    L += methods
    L += ['(** (method, the super() method it calls first, the arguments it passes on, its own parameters) *)',
          'Definition gen_super : list (string * string * list string * list string) :=',
          '  [' + ';\n   '.join('("%s"%%string, "%s"%%string, [%s], [%s])' % (s[0], s[1], '; '.join(f'"{a}"%string' for a in s[2]),
                                                               '; '.join(f'"{a}"%string' for a in p)) for s, p in sups) + '].', '',
          '(** deserialize_instructions: one branch of the dispatch = operand reads, stack peeks, the call *)',
          'Definition gen_decode (op:N) (bs:list N) (tr:tracker) : option (option call * list N) :=']
    for name, code in branches:
        L.append(f'  if N.eqb op (pyop "{name}"%string) then\n    {code}\n  else')
    L += ['  None.', '',
          '(** the loop: a byte that is no Instruction raises; the call of the branch is run on the interpreter *)',
          'Fixpoint gen_deser_fuel (fuel:nat) (bs:list N) (tr:tracker) : option tracker :=',
          '  match bs with', '  | [] => Some tr', '  | byte :: bs =>', '      match fuel with', '      | O => None',
          '      | S f =>', '          if negb (op_known ps_opcodes byte) then None else',
          '          match gen_decode byte bs tr with',
          '          | Some (oc, bs) =>',
          '              match (match oc with Some c => stateful_step tr c | None => Some tr end) with',
          '              | Some tr => gen_deser_fuel f bs tr', '              | None => None end',
          '          | None => None end', '      end', '  end.',
          'Definition gen_deser (bs:list N) (tr:tracker) : option tracker := gen_deser_fuel (Datatypes.length bs) bs tr.', '']
    return '\n'.join(L)


if __name__ == '__main__':
    import sys
    print(generate(sys.argv[1] if len(sys.argv) > 1 else '/repo'))

"""Fail-closed Python-ast translator (C16): the statements of
    metamath/translate.py   exec_proof (with nested get_delta / do_mp), convert_to_implication, and the
                            axiom / claim assembly of main
    metamath/converter/converter.py   _import_proof.split_proof: the loop numbering the mandatory floating hypotheses
-> coq/Gen/MMTranslate.v, in the vocabulary of coq/MM16/GenPrims.v.

Statement by statement, expression by expression: every Python statement becomes one monadic Gallina step
(`x <- prim args ;; ...`), locals become (shadowing) `let`s, `for` loops become `foldM` over the variables the body
re-assigns, `continue` / `return` end the enclosing block, `assert` / `raise` / failing subscripts become `None`.
So renaming a local or reflowing the text changes nothing that matters (binder names only), while a reordered call,
a dropped guard, a changed constant / comparison / index, a different iteration source, an extra branch DO change
the generated definitions - and `MM16/GenMMTranslateAgree.v` (generated = hand-written model) stops compiling.
Anything outside the recognised subset aborts with SystemExit naming the node (proof stage broken).
"""
import ast
import os

SRC_TRANSLATE = 'generation/src/proof_generation/metamath/translate.py'
SRC_CONVERTER = 'generation/src/proof_generation/metamath/converter/converter.py'

LABELS = {'app-is-pattern': 'LAppIsPattern', 'imp-is-pattern': 'LImpIsPattern', 'proof-rule-prop-1': 'LProp1',
          'proof-rule-prop-2': 'LProp2', 'proof-rule-mp': 'LMp'}


def fail(msg, node=None):
    where = ''
    if node is not None:
        try:
            where = f' (line {node.lineno}: {ast.unparse(node)[:100]})'
        except Exception:  # noqa: BLE001
            where = f' (line {getattr(node, "lineno", "?")})'
    raise SystemExit('mm_translate translator: ' + msg + where)


class ListCell:
    """type of a list created empty without annotation: the element type is fixed by the first append"""

    def __init__(self):
        self.elem = '?'


def lst(t):
    """element type if t is a list type, else None"""
    if isinstance(t, ListCell):
        return t.elem
    if isinstance(t, tuple) and t[0] == 'list':
        return t[1]
    return None


def coq_ty(t):
    if isinstance(t, ListCell):
        return f'(list {coq_ty(t.elem)})'
    if isinstance(t, tuple):
        if t[0] == 'list':
            return f'(list {coq_ty(t[1])})'
        if t[0] == 'pair':
            return f'({coq_ty(t[1])} * {coq_ty(t[2])})'
    table = {'Z': 'Z', 'label': 'label', 'var': 'N', 'N': 'N', 'term': 'term', 'pat': 'pat', 'ax': 'assertion', 'lemma': 'pylemma',
             'proof': 'pyproof', 'cv': 'conv', 'pexp': '(list pat)', 'bool': 'bool', 'unit': 'unit', 'str': 'unit', 'dict': 'dict',
             'zdict': 'zdict', 'item': 'item', 'varset': '(list N)'}
    if t not in table:
        fail(f'no Coq type for {t!r}')
    return table[t]


def tuple_pat(names):
    if not names:
        return '_'
    if len(names) == 1:
        return names[0]
    return "'(" + ', '.join(names) + ')'


def tuple_val(names):
    if not names:
        return 'tt'
    if len(names) == 1:
        return names[0]
    return '(' + ', '.join(names) + ')'


class Ctx:
    def __init__(self, on_continue=None, on_return=None):
        self.on_continue, self.on_return = on_continue, on_return


class Tr:
    def __init__(self):
        self.defs = []            # emitted Definitions, in dependency order
        self.tmp = 0
        self.cse = {}
        self.ssa = 0
        self.genexps = {}
        self.methods = {}
        self._assigned_guard = set()
        self.constants = {}
        self.tables = {}
        self.inl = 0
        self.nested = {}          # name -> (FunctionDef, outer env) not yet instantiated
        self.instantiated = {}    # name -> (coq name, extra param names, ret type)
        self.module_funcs = {}    # module-level python functions translated on demand

    def fresh(self):
        self.tmp += 1
        return f't{self.tmp}'

    # ------------------------------------------------------------------ expressions
    def E(self, n, env):
        """-> (binds [(pattern, monadic term)], pure value, type)"""
        if isinstance(n, ast.Name):
            if n.id == 'converter' or n.id == 'self':
                return [], 'cv', 'cv'
            if n.id not in env and n.id in self.constants:
                return self.E(self.constants[n.id], env)
            if n.id not in env:
                fail(f'unknown name {n.id}', n)
            if env[n.id][1] == 'ast':
                return self.E(env[n.id][0], env)
            return [], env[n.id][0], env[n.id][1]
        if isinstance(n, ast.Constant):
            if isinstance(n.value, bool) or n.value is None:
                fail('constant', n)
            if isinstance(n.value, int):
                return [], f'({n.value})%Z', 'Z'
            if isinstance(n.value, str):
                if n.value not in LABELS:
                    fail('string constant that is not one of the recognised labels', n)
                return [], LABELS[n.value], 'label'
            fail('constant', n)
        if isinstance(n, ast.UnaryOp) and isinstance(n.op, ast.USub):
            b, v, t = self.E(n.operand, env)
            self.need(t, 'Z', n)
            return b, f'(- {v})%Z', 'Z'
        if isinstance(n, ast.BinOp) and isinstance(n.op, (ast.Add, ast.Sub)):
            k = self.const_int(n, env)
            if k is not None:
                return [], (f'({k})%Z' if k >= 0 else f'(- ({-k})%Z)%Z'), 'Z'
            b1, v1, t1 = self.E(n.left, env)
            b2, v2, t2 = self.E(n.right, env)
            self.need(t1, 'Z', n)
            self.need(t2, 'Z', n)
            op = '+' if isinstance(n.op, ast.Add) else '-'
            return b1 + b2, f'({v1} {op} {v2})%Z', 'Z'
        if isinstance(n, ast.Compare):
            return self.compare(n, env)
        if isinstance(n, ast.BoolOp) and isinstance(n.op, ast.And):
            # short circuit: later operands are evaluated only when the earlier ones are true
            b, v, t = self.E(n.values[0], env)
            self.need(t, 'bool', n)
            for nxt in n.values[1:]:
                b2, v2, t2 = self.E(nxt, env)
                self.need(t2, 'bool', n)
                tmp = self.fresh()
                b = b + [(tmp, f'(if {v} then ({self.seq(b2, f"ret {v2}")}) else ret false)')]
                v = tmp
            return b, v, 'bool'
        if isinstance(n, ast.Call):
            return self.call(n, env)
        if isinstance(n, ast.Subscript):
            return self.subscript(n, env)
        if isinstance(n, ast.Attribute):
            return self.attribute(n, env)
        if isinstance(n, ast.Dict):
            binds, val = [], 'dict_empty'
            for k, v in zip(n.keys, n.values):
                bk, vk, tk = self.E(k, env)
                bv, vv, tv = self.E(v, env)
                self.need(tk, 'Z', n)
                self.need(tv, 'term', n)
                binds += bk + bv
                val = f'(dict_set (Z.to_N {vk}) {vv} {val})'
            return binds, val, 'dict'
        if isinstance(n, ast.Tuple) and len(n.elts) == 2:
            b1, v1, t1 = self.E(n.elts[0], env)
            b2, v2, t2 = self.E(n.elts[1], env)
            return b1 + b2, f'({v1}, {v2})', ('pair', t1, t2)
        if isinstance(n, ast.List):
            binds, vals, ty = [], [], '?'
            for e in n.elts:
                b, v, t = self.E(e, env)
                binds += b
                vals.append(v)
                ty = t
            return binds, '[' + '; '.join(vals) + ']', ('list', ty)
        fail('expression form not in the translated subset', n)

    def const_int(self, n, env):
        """value of an integer expression made of literals, +, -, unary - and locals bound to such expressions"""
        if isinstance(n, ast.Constant) and isinstance(n.value, int) and not isinstance(n.value, bool):
            return n.value
        if isinstance(n, ast.Name) and n.id in env and env[n.id][1] == 'ast':
            return self.const_int(env[n.id][0], env)
        if isinstance(n, ast.UnaryOp) and isinstance(n.op, ast.USub):
            k = self.const_int(n.operand, env)
            return None if k is None else -k
        if isinstance(n, ast.BinOp) and isinstance(n.op, (ast.Add, ast.Sub)):
            a, b = self.const_int(n.left, env), self.const_int(n.right, env)
            if a is None or b is None:
                return None
            return a + b if isinstance(n.op, ast.Add) else a - b
        return None

    def need(self, t, want, n):
        if t != want:
            fail(f'type {t!r} where {want!r} is required', n)

    def seq(self, binds, last):
        out = ''
        for p, m in binds:
            out += f'{m} ;;; ' if p == '_' else f'{p} <- {m} ;; '
        return out + last

    def compare(self, n, env):
        if len(n.ops) != 1:
            fail('chained comparison', n)
        op, rhs = n.ops[0], n.comparators[0]
        if isinstance(op, (ast.In, ast.NotIn)):
            bl, vl, tl = self.E(n.left, env)
            if isinstance(rhs, ast.Attribute) and isinstance(rhs.value, ast.Name) and rhs.value.id == 'converter':
                prim = {'pattern_constructors': 'cv_pattern_constructors_has', '_fp_label_to_pattern': 'cv_fp_has',
                        'exported_axioms': 'cv_exported_axioms_has', 'proof_rules': 'cv_proof_rules_has'}.get(rhs.attr)
                if prim is None:
                    fail('membership in an unknown converter collection', n)
                self.need(tl, 'label', n)
                val, binds = f'({prim} cv {vl})', bl
            else:
                br, vr, tr = self.E(rhs, env)
                binds = bl + br
                if tr == 'zdict':
                    self.need(tl, 'Z', n)
                    val = f'(zdict_has {vr} {vl})'
                elif tr == 'varset':
                    self.need(tl, 'var', n)
                    val = f'(memN {vl} {vr})'
                else:
                    fail('membership test on this type', n)
            if isinstance(op, ast.NotIn):
                val = f'(negb {val})'
            return binds, val, 'bool'
        # `len(x) > 0` is the truthiness of x
        if (isinstance(op, ast.Gt) and isinstance(rhs, ast.Constant) and rhs.value == 0 and not isinstance(rhs.value, bool)
                and isinstance(n.left, ast.Call) and isinstance(n.left.func, ast.Name) and n.left.func.id == 'len' and len(n.left.args) == 1):
            b, v, t = self.E(n.left.args[0], env)
            if lst(t) is None:
                fail('len(..) > 0 of a non-list', n)
            return b, f'(py_nonempty {v})', 'bool'
        bl, vl, tl = self.E(n.left, env)
        br, vr, tr = self.E(rhs, env)
        if tl != tr:
            fail(f'comparison between {tl!r} and {tr!r}', n)
        if isinstance(op, ast.Eq):
            fn = {'label': 'label_eqb', 'term': 'Instr.term_eqb', 'Z': 'Z.eqb'}.get(tl)
            if fn is None:
                fail(f'== on type {tl!r}', n)
            return bl + br, f'({fn} {vl} {vr})', 'bool'
        if isinstance(op, ast.Gt) and tl == 'Z':
            return bl + br, f'(Z.ltb {vr} {vl})', 'bool'
        fail('comparison operator not in the translated subset', n)

    def is_alias_call(self, n, name):
        return isinstance(n, ast.Call) and isinstance(n.func, ast.Name) and n.func.id == name and not n.args and not n.keywords

    def is_interp(self, n):
        """the interpreter the instructions are sent to: `interpreter()` (alias lambda) or the parameter `interp` itself"""
        return self.is_alias_call(n, 'interpreter') or (isinstance(n, ast.Name) and n.id == 'interp')

    def call(self, n, env):
        if n.keywords:
            fail('keyword arguments', n)
        f = n.func
        # proofexp.load_axiom(p)(interpreter())
        if isinstance(f, ast.Call) and isinstance(f.func, ast.Attribute) and f.func.attr == 'load_axiom':
            bo, vo, to = self.E(f.func.value, env)
            self.need(to, 'pexp', n)
            if len(f.args) != 1 or len(n.args) != 1 or not self.is_interp(n.args[0]):
                fail('load_axiom call shape', n)
            bp, vp, tp = self.E(f.args[0], env)
            self.need(tp, 'pat', n)
            tmp = self.fresh()
            return bo + bp + [(tmp, f'p_load_axiom {vo} {vp}')], tmp, 'unit'
        if isinstance(f, ast.Name) and f.id in env and env[f.id][1] == 'ast':
            return self.E(ast.copy_location(ast.Call(func=env[f.id][0], args=n.args, keywords=n.keywords), n), env)
        if isinstance(f, ast.Name):
            name = f.id
            if name == 'len' and len(n.args) == 1:
                b, v, t = self.E(n.args[0], env)
                if t in ('dict', 'zdict', 'varset') or lst(t) is not None:
                    return b, f'(py_len {v})', 'Z'
                fail(f'len of {t!r}', n)
            if name == 'isinstance' and len(n.args) == 2 and isinstance(n.args[1], ast.Name):
                b, v, t = self.E(n.args[0], env)
                cls = n.args[1].id
                table = {('Pattern', 'term'): 'is_pattern', ('Proved', 'term'): 'is_proved', ('MetaVar', 'pat'): 'is_metavar',
                         ('AxiomWithAntecedents', 'ax'): 'ax_has_antecedents', ('FloatingStatement', 'item'): 'is_floating'}
                if (cls, t) not in table:
                    fail(f'isinstance({t!r}, {cls})', n)
                return b, f'({table[(cls, t)]} {v})', 'bool'
            if name == 'str' and len(n.args) == 1:
                b, v, t = self.E(n.args[0], env)
                return b, 'tt', 'str'
            if name == 'reduce' and len(n.args) == 3 and isinstance(n.args[0], ast.Lambda) and len(n.args[0].args.args) == 2:
                # functools.reduce(lambda acc, x: E, xs, init)  =  fold_left (fun acc x => E) xs init   (E pure)
                lam = n.args[0]
                bx, vx, tx = self.E(n.args[1], env)
                bi, vi, ti = self.E(n.args[2], env)
                if lst(tx) is None:
                    fail('reduce over a non-list', n)
                lenv = dict(env)
                acc = self.bind_name(lenv, lam.args.args[0].arg, ti)
                x = self.bind_name(lenv, lam.args.args[1].arg, lst(tx))
                bb, vb, tb = self.E(lam.body, lenv)
                if bb or tb != ti:
                    fail('reduce with an effectful or ill-typed function', n)
                return bx + bi, f'(fold_left (fun {acc} {x} => {vb}) {vx} {vi})', ti
            if name == 'reversed' and len(n.args) == 1:
                b, v, t = self.E(n.args[0], env)
                if lst(t) is None:
                    fail('reversed of a non-list', n)
                return b, f'(rev {v})', t
            if name == 'tuple' and len(n.args) == 1:
                return self.E(n.args[0], env)
            if name == 'Proved' and len(n.args) == 1:
                b, v, t = self.E(n.args[0], env)
                self.need(t, 'pat', n)
                return b, f'(mk_proved {v})', 'term'
            if name == 'Implies' and len(n.args) == 2:
                b1, v1, t1 = self.E(n.args[0], env)
                b2, v2, t2 = self.E(n.args[1], env)
                self.need(t1, 'pat', n)
                self.need(t2, 'pat', n)
                return b1 + b2, f'(Imp {v1} {v2})', 'pat'
            if name in self.nested or name in self.instantiated or name in self.module_funcs:
                binds, vals, tys = [], [], []
                for a in n.args:
                    b, v, t = self.E(a, env)
                    binds += b
                    vals.append(v)
                    tys.append(t)
                cname, extra, rty = self.instantiate(name, tys, n)
                self.cse = {}
                tmp = self.fresh()
                args = ' '.join(extra + vals)
                return binds + [(tmp, f'{cname} {args}'.strip())], tmp, rty
            fail(f'call of {name}', n)
        if isinstance(f, ast.Attribute):
            recv, meth = f.value, f.attr
            if self.is_interp(recv):
                return self.interp_call(meth, n, env)
            if isinstance(recv, ast.Name) and recv.id == 'converter':
                table = {'resolve_metavar': ('var', 'cv_resolve_metavar', 'pat'),
                         'get_lemma_by_name': ('label', 'gen_get_lemma_by_name', 'lemma'),
                         'get_axiom_by_name': ('label', 'cv_get_axiom_by_name', 'ax'),
                         'get_metavars_in_order': ('label', 'cv_get_metavars_in_order', ('list', 'var')),
                         'get_floating_pattern_by_name': ('label', 'cv_get_floating_pattern_by_name', ('list', 'pat'))}
                if meth not in table or len(n.args) != 1:
                    fail(f'converter.{meth}', n)
                aty, prim, rty = table[meth]
                b, v, t = self.E(n.args[0], env)
                self.need(t, aty, n)
                tmp = self.fresh()
                return b + [(tmp, f'{prim} cv {v}')], tmp, rty
            if meth == 'get_metavariables' and not n.args:
                b, v, t = self.E(recv, env)
                self.need(t, 'ax', n)
                return b, f'(stmt_metavariables {v})', 'varset'
        fail('call form not in the translated subset', n)

    def interp_call(self, meth, n, env):
        r = self.interp_call1(meth, n, env)
        self.cse = {}
        return r

    def interp_call1(self, meth, n, env):
        args = []
        binds = []
        for a in n.args:
            b, v, t = self.E(a, env)
            binds += b
            args.append((v, t))
        tmp = self.fresh()

        def want(*tys):
            if [t for _, t in args] != list(tys):
                fail(f'interpreter().{meth} with argument types {[t for _, t in args]}', n)
        if meth in ('save', 'load'):
            want('str', 'term')
            return binds + [(tmp, f'i_{meth} {args[1][0]}')], tmp, 'unit'
        if meth in ('pop', 'publish_proof'):
            want('term')
            return binds + [(tmp, f'i_{meth} {args[0][0]}')], tmp, 'unit'
        if meth in ('app', 'implies', 'modus_ponens'):
            want('term', 'term')
            return binds + [(tmp, f'i_{meth} {args[0][0]} {args[1][0]}')], tmp, 'unit'
        if meth == 'pattern':
            want('pat')
            return binds + [(tmp, f'i_pattern {args[0][0]}')], tmp, 'unit'
        if meth == 'metavar':
            want('N')
            return binds + [(tmp, f'i_metavar {args[0][0]}')], tmp, 'unit'
        if meth in ('prop1', 'prop2'):
            want()
            return binds + [(tmp, f'i_{meth}')], tmp, 'term'
        if meth in ('instantiate', 'instantiate_pattern'):
            want('term', 'dict')
            return binds + [(tmp, f'i_instantiate {args[0][0]} {args[1][0]}')], tmp, 'unit'
        fail(f'interpreter().{meth} is not in the translated subset', n)

    def subscript(self, n, env):
        # a read repeated inside one statement (no instruction is sent in between) is the same value
        key = ast.dump(n)
        if key in self.cse:
            return [], self.cse[key][0], self.cse[key][1]
        b, v, t = self.subscript1(n, env)
        self.cse[key] = (v, t)
        return b, v, t

    def subscript1(self, n, env):
        idx = n.slice
        if self.is_alias_call(n.value, 'stack'):
            b, v, t = self.E(idx, env)
            self.need(t, 'Z', n)
            tmp = self.fresh()
            return b + [(tmp, f'p_stack_at {v}')], tmp, 'term'
        bv, vv, tv = self.E(n.value, env)
        bi, vi, ti = self.E(idx, env)
        tmp = self.fresh()
        if lst(tv) is not None:
            self.need(ti, 'Z', n)
            return bv + bi + [(tmp, f'p_index {vv} {vi}')], tmp, lst(tv)
        if tv == 'zdict':
            self.need(ti, 'Z', n)
            return bv + bi + [(tmp, f'lift (zdict_get {vv} {vi})')], tmp, 'label'
        fail(f'subscript of {tv!r}', n)

    def attribute(self, n, env):
        if isinstance(n.value, ast.Name) and n.value.id == 'args' and n.attr == 'target' and 'args.target' in env:
            return [], env['args.target'][0], env['args.target'][1]
        if (isinstance(n.value, ast.Attribute) and isinstance(n.value.value, ast.Name) and n.value.value.id == 'self'
                and n.value.attr == 'parsed' and n.attr == 'statements'):
            return [], '(cv_d cv)', ('list', 'item')
        b, v, t = self.E(n.value, env)
        table = {('cv', 'exported_axioms'): ('cv_exported_axioms {}', ('list', 'label')), ('pat', 'name'): ('mv_name {}', 'N'), ('lemma', 'proof'): ('lm_proof {}', 'proof'),
                 ('lemma', 'pattern'): ('lm_pattern cv {}', 'pat'), ('proof', 'labels'): ('pf_labels {}', 'zdict'),
                 ('proof', 'applied_lemmas'): ('pf_applied {}', ('list', 'Z')), ('ax', 'pattern'): ('ax_pattern cv {}', 'pat'),
                 ('ax', 'metavars'): ('ax_metavars cv {}', ('list', 'var')), ('ax', 'antecedents'): ('ax_antecedents cv {}', ('list', 'pat')),
                 ('item', 'label'): ('fl_label {}', 'label'), ('item', 'metavariable'): ('fl_metavariable {}', 'var')}
        if (t, n.attr) not in table:
            fail(f'attribute .{n.attr} of {t!r}', n)
        tpl, rty = table[(t, n.attr)]
        return b, '(' + tpl.format(v) + ')', rty


    # ------------------------------------------------------------------ canonical forms
    def is_symbolic(self, e):
        """expressions that are kept as syntax and substituted at their uses: an interpreter method not yet called, an int literal"""
        return ((isinstance(e, ast.Attribute) and self.is_interp(e.value))
                or (isinstance(e, ast.Constant) and isinstance(e.value, int) and not isinstance(e.value, bool)))

    def chain_info(self, s):
        """an if/elif chain `NAME == c1 / NAME == c2 / ...` without final else -> (NAME, [constants], [bodies])"""
        consts, bodies, name = [], [], None
        cur = s
        while True:
            h = None
            if (isinstance(cur, ast.If) and isinstance(cur.test, ast.Compare) and len(cur.test.ops) == 1 and isinstance(cur.test.ops[0], ast.Eq)
                    and isinstance(cur.test.left, ast.Name) and isinstance(cur.test.comparators[0], ast.Constant)):
                h = (cur.test.left.id, cur.test.comparators[0].value)
            if h is None or (name is not None and h[0] != name):
                return None
            name = h[0]
            consts.append(h[1])
            bodies.append(cur.body)
            if not cur.orelse:
                return name, consts, bodies, s
            if len(cur.orelse) == 1 and isinstance(cur.orelse[0], ast.If):
                cur = cur.orelse[0]
            else:
                return None

    def is_helper(self, name):
        return name in self.nested or name in self.module_funcs

    def helper_def(self, name):
        return self.nested[name][0] if name in self.nested else self.module_funcs[name]

    def bound_names(self, stmts):
        """names BOUND in a function body (assignment / loop targets); `x.append(..)` and `x[k] = ..` do not bind x"""
        out = []

        def add(x):
            if x not in out and x != '_':
                out.append(x)

        def tgt(t):
            if isinstance(t, ast.Name):
                add(t.id)
            elif isinstance(t, (ast.Tuple, ast.List)):
                for e in t.elts:
                    tgt(e)
            elif isinstance(t, ast.Starred):
                tgt(t.value)
        for st in stmts:
            for x in ast.walk(st):
                if isinstance(x, ast.Assign):
                    for t in x.targets:
                        tgt(t)
                elif isinstance(x, (ast.AnnAssign, ast.AugAssign)):
                    tgt(x.target)
                elif isinstance(x, ast.For):
                    tgt(x.target)
        return out

    def inline_call(self, call, targets, node, tail_loop=False):
        """statement-level call of a local / module helper or of a method of the same object (`self.m(..)`) = its body with
        the parameters substituted; `targets = f(args)` needs a body that ends in its only `return`.
        Returns a statement list or None."""
        if isinstance(call.func, ast.Attribute):
            name = call.func.attr
            fn = self.methods[name]
            formal = fn.args.args[1:]
            rec = any(isinstance(x, ast.Attribute) and x.attr == name for x in ast.walk(fn))
        else:
            name = call.func.id
            fn = self.helper_def(name)
            formal = fn.args.args
            rec = any(isinstance(x, ast.Call) and isinstance(x.func, ast.Name) and x.func.id == name for x in ast.walk(fn))
        if rec:
            return None                     # recursive: stays a function
        if call.keywords or len(call.args) != len(formal) or fn.args.vararg or fn.args.kwarg or fn.args.defaults:
            return None
        body = [b for b in fn.body if not (isinstance(b, ast.Expr) and isinstance(b.value, ast.Constant))]
        rets = [x for x in ast.walk(fn) if isinstance(x, ast.Return)]
        nested_defs = [x for x in ast.walk(fn) if isinstance(x, (ast.FunctionDef, ast.Lambda)) and x is not fn]
        if nested_defs:
            return None
        if targets is None:
            if rets:
                # bare `return`s are fine when nothing follows the call in a loop body: they mean `continue`
                if not tail_loop or any(r.value is not None for r in rets):
                    return None
                if any(isinstance(x, (ast.For, ast.While)) and any(isinstance(y, ast.Return) for y in ast.walk(x)) for b in body for x in ast.walk(b)):
                    return None
            ret_expr = None
        else:
            if len(rets) != 1 or not body or body[-1] is not rets[0] or rets[0].value is None:
                return None
            ret_expr = rets[0].value
            body = body[:-1]
        self.inl += 1
        params = [a.arg for a in formal]
        local = [x for x in self.bound_names(body) if x not in params]
        for x in ast.walk(fn):
            if isinstance(x, ast.For):
                for t in ast.walk(x.target):
                    if isinstance(t, ast.Name) and t.id not in local and t.id not in params and t.id != '_':
                        local.append(t.id)
        ren = {x: f'{x}__{name}{self.inl}' for x in local}
        pre = []
        for pname, arg in zip(params, call.args):
            if isinstance(arg, ast.Name):
                ren[pname] = arg.id
            else:
                ren[pname] = f'{pname}__{name}{self.inl}'
                pre.append(ast.Assign(targets=[ast.Name(id=ren[pname], ctx=ast.Store())], value=arg, lineno=node.lineno))

        class Ren(ast.NodeTransformer):
            def visit_Name(self, n):
                if n.id in ren:
                    return ast.copy_location(ast.Name(id=ren[n.id], ctx=n.ctx), n)
                return n

            def visit_Return(self, n):
                return ast.copy_location(ast.Continue(), n) if n.value is None else self.generic_visit(n)
        import copy
        out = pre + [Ren().visit(copy.deepcopy(b)) for b in body]
        if ret_expr is not None:
            out.append(ast.Assign(targets=targets, value=Ren().visit(copy.deepcopy(ret_expr)), lineno=node.lineno))
        for o in out:
            ast.fix_missing_locations(o)
        return out

    def eq_const_test(self, s):
        """`if NAME == <constant>:` without else -> (NAME, constant) """
        if (isinstance(s, ast.If) and not s.orelse and isinstance(s.test, ast.Compare) and len(s.test.ops) == 1
                and isinstance(s.test.ops[0], ast.Eq) and isinstance(s.test.left, ast.Name)
                and isinstance(s.test.comparators[0], ast.Constant)):
            return s.test.left.id, s.test.comparators[0].value
        return None

    def canon(self, stmts, env, ctx=None):
        """rewrite the head of a statement list into the canonical idiom; equivalent idioms get the same shape"""
        import copy
        changed = True
        while changed and stmts:
            changed = False
            s, rest = stmts[0], stmts[1:]
            ln = getattr(s, 'lineno', 0)

            def mk(node):
                ast.fix_missing_locations(ast.copy_location(node, s))
                return node
            # if A and P(w := E): BODY else: REST   ==   if A: w = E; if P(w): BODY else: REST   else: REST
            if (isinstance(s, ast.If) and isinstance(s.test, ast.BoolOp) and isinstance(s.test.op, ast.And) and len(s.test.values) == 2
                    and not any(isinstance(x, ast.NamedExpr) for x in ast.walk(s.test.values[0]))):
                walrus = [x for x in ast.walk(s.test.values[1]) if isinstance(x, ast.NamedExpr)]
                if len(walrus) == 1 and isinstance(walrus[0].target, ast.Name):
                    w = walrus[0]

                    class Unw(ast.NodeTransformer):
                        def visit_NamedExpr(self, nn):
                            return ast.copy_location(ast.Name(id=nn.target.id, ctx=ast.Load()), nn)
                    inner_test = Unw().visit(copy.deepcopy(s.test.values[1]))
                    bind = mk(ast.Assign(targets=[ast.Name(id=w.target.id, ctx=ast.Store())], value=copy.deepcopy(w.value)))
                    inner = mk(ast.If(test=inner_test, body=s.body, orelse=copy.deepcopy(s.orelse)))
                    stmts, changed = [mk(ast.If(test=s.test.values[0], body=[bind, inner], orelse=s.orelse))] + rest, True
                    continue
                if walrus:
                    fail('assignment expressions in this position', s)
            # x = D.get(k); if x is None: <leaves the block>   ==   if k not in D: <leaves the block>; x = D[k]
            if (isinstance(s, ast.Assign) and len(s.targets) == 1 and isinstance(s.targets[0], ast.Name) and isinstance(s.value, ast.Call)
                    and isinstance(s.value.func, ast.Attribute) and s.value.func.attr == 'get' and len(s.value.args) == 1 and not s.value.keywords
                    and isinstance(s.value.args[0], ast.Name)
                    and not (isinstance(s.value.func.value, ast.Name) and s.value.func.value.id in self.tables)
                    and rest and isinstance(rest[0], ast.If) and not rest[0].orelse and self.diverts(rest[0].body)):
                x, dexp, key, cond = s.targets[0].id, s.value.func.value, s.value.args[0], rest[0]
                t = cond.test
                if (isinstance(t, ast.Compare) and len(t.ops) == 1 and isinstance(t.ops[0], ast.Is) and isinstance(t.left, ast.Name) and t.left.id == x
                        and isinstance(t.comparators[0], ast.Constant) and t.comparators[0].value is None
                        and not any(isinstance(n2, ast.Name) and n2.id == x for st in cond.body for n2 in ast.walk(st))
                        and not any(isinstance(n2, (ast.Call, ast.NamedExpr)) for n2 in ast.walk(dexp))):
                    test = ast.Compare(left=copy.deepcopy(key), ops=[ast.NotIn()], comparators=[copy.deepcopy(dexp)])
                    look = mk(ast.Assign(targets=[ast.Name(id=x, ctx=ast.Store())],
                                         value=ast.Subscript(value=copy.deepcopy(dexp), slice=copy.deepcopy(key), ctx=ast.Load())))
                    stmts, changed = [mk(ast.If(test=test, body=cond.body, orelse=[])), look] + rest[1:], True
                    continue
            # match NAME: case 'a': .. case 'b': ..   ==   if NAME == 'a': .. elif NAME == 'b': ..
            if isinstance(s, ast.Match):
                if not isinstance(s.subject, ast.Name):
                    fail('match on a non-variable', s)
                chain = []
                for c in reversed(s.cases):
                    if c.guard is not None:
                        fail('guarded case', s)
                    if isinstance(c.pattern, ast.MatchValue) and isinstance(c.pattern.value, ast.Constant):
                        test = ast.Compare(left=copy.deepcopy(s.subject), ops=[ast.Eq()], comparators=[c.pattern.value])
                        chain = [mk(ast.If(test=test, body=c.body, orelse=chain))]
                    elif isinstance(c.pattern, ast.MatchAs) and c.pattern.pattern is None and c.pattern.name is None and not chain:
                        chain = c.body
                    else:
                        fail('case pattern', s)
                stmts, changed = chain + rest, True
                continue
            # consecutive `if NAME == c_i:` (distinct constants, NAME not re-assigned, no early exit) == an if/elif chain
            h = self.chain_info(s)
            if h is not None and rest and self.chain_info(rest[0]) is not None and self.chain_info(rest[0])[0] == h[0]:
                run = [h]
                for nx in rest:
                    hn = self.chain_info(nx)
                    if hn is None or hn[0] != h[0]:
                        break
                    run.append(hn)
                consts = [c for r in run for c in r[1]]
                bodies = [b for r in run for b in r[2]]
                ok = len(set(map(repr, consts))) == len(consts) and all(
                    h[0] not in self.assigned(b) and not self.diverts(b) for b in bodies)
                if ok and len(run) > 1:
                    chain = []
                    for c, b in reversed(list(zip(consts, bodies))):
                        test = ast.Compare(left=ast.Name(id=h[0], ctx=ast.Load()), ops=[ast.Eq()], comparators=[ast.Constant(value=c)])
                        chain = [mk(ast.If(test=test, body=b, orelse=chain))]
                    stmts, changed = chain + rest[len(run) - 1:], True
                    continue
            if isinstance(s, (ast.Assign, ast.AnnAssign)) and s.value is not None:
                target = s.targets[0] if isinstance(s, ast.Assign) and len(s.targets) == 1 else (s.target if isinstance(s, ast.AnnAssign) else None)
                v = s.value
                # T = {'lit': e, ...}  : a literal lookup table, kept as syntax
                if (isinstance(target, ast.Name) and isinstance(v, ast.Dict) and v.keys and all(isinstance(k, ast.Constant) and isinstance(k.value, str) for k in v.keys)
                        and all(self.is_symbolic(e) or (isinstance(e, ast.Tuple) and all(self.is_symbolic(x) for x in e.elts)) for e in v.values)):
                    self.tables[target.id] = v
                    stmts, changed = rest, True
                    continue
                # x = T.get(k); if x is not None: BODY [else: ELSE]   ==   if k == 'lit1': BODY[x := e1] elif ...: ... [else: ELSE]
                if (isinstance(target, ast.Name) and isinstance(v, ast.Call) and isinstance(v.func, ast.Attribute) and v.func.attr == 'get'
                        and isinstance(v.func.value, ast.Name) and v.func.value.id in self.tables and len(v.args) == 1 and not v.keywords
                        and isinstance(v.args[0], ast.Name) and rest and isinstance(rest[0], ast.If)):
                    x, key, tbl, cond = target.id, v.args[0], self.tables[v.func.value.id], rest[0]
                    t = cond.test
                    shape = None
                    if (isinstance(t, ast.Compare) and len(t.ops) == 1 and isinstance(t.left, ast.Name) and t.left.id == x
                            and isinstance(t.comparators[0], ast.Constant) and t.comparators[0].value is None):
                        shape = 'some' if isinstance(t.ops[0], ast.IsNot) else ('none' if isinstance(t.ops[0], ast.Is) else None)
                    used_later = any(isinstance(n2, ast.Name) and n2.id == x for st in rest[1:] for n2 in ast.walk(st))
                    if shape is None or used_later:
                        fail('table lookup that is not immediately tested against None', s)
                    hit, miss = (cond.body, cond.orelse) if shape == 'some' else (cond.orelse, cond.body)
                    if any(isinstance(n2, ast.Name) and n2.id == x for st in miss for n2 in ast.walk(st)):
                        fail('table lookup result used where it is None', s)

                    def subst(block, val):
                        class Sub(ast.NodeTransformer):
                            def visit_Name(self, nn):
                                return copy.deepcopy(val) if nn.id == x and isinstance(nn.ctx, ast.Load) else nn
                        return [ast.fix_missing_locations(Sub().visit(copy.deepcopy(st))) for st in block]
                    chain = miss
                    for k, val in reversed(list(zip(tbl.keys, tbl.values))):
                        test = ast.Compare(left=copy.deepcopy(key), ops=[ast.Eq()], comparators=[k])
                        chain = [mk(ast.If(test=test, body=subst(hit, val), orelse=chain))]
                    stmts, changed = chain + rest[1:], True
                    continue
                # x = (generator)  : remembered, consumed by the next statement
                if isinstance(target, ast.Name) and isinstance(v, ast.GeneratorExp):
                    self.genexps[target.id] = (v, len(rest))
                    stmts, changed = rest, True
                    continue
                # x = [E for v in it]   ==   x = []; for v in it: x.append(E)
                if isinstance(target, ast.Name) and isinstance(v, ast.ListComp) and len(v.generators) == 1 and not v.generators[0].is_async:
                    g = v.generators[0]
                    app = mk(ast.Expr(value=ast.Call(func=ast.Attribute(value=ast.Name(id=target.id, ctx=ast.Load()), attr='append', ctx=ast.Load()),
                                                     args=[v.elt], keywords=[])))
                    body = [app]
                    for cond in reversed(g.ifs):
                        body = [mk(ast.If(test=cond, body=body, orelse=[]))]
                    init = mk(ast.Assign(targets=[ast.Name(id=target.id, ctx=ast.Store())], value=ast.List(elts=[], ctx=ast.Load())))
                    loop = mk(ast.For(target=g.target, iter=g.iter, body=body, orelse=[]))
                    stmts, changed = [init, loop] + rest, True
                    continue
                # d = dict(enumerate(G, start=k))   ==   d = {}; n = k; for .. in ..: if ..: d[n] = elt; n += 1
                if (isinstance(target, ast.Name) and isinstance(v, ast.Call) and isinstance(v.func, ast.Name) and v.func.id == 'dict'
                        and len(v.args) == 1 and not v.keywords and isinstance(v.args[0], ast.Call) and isinstance(v.args[0].func, ast.Name)
                        and v.args[0].func.id == 'enumerate'):
                    en = v.args[0]
                    start = ast.Constant(value=0)
                    for kw in en.keywords:
                        if kw.arg != 'start':
                            fail('enumerate keyword', s)
                        start = kw.value
                    if len(en.args) == 2:
                        start = en.args[1]
                    src = en.args[0]
                    if isinstance(src, ast.Name) and src.id in self.genexps:
                        gen, at = self.genexps.pop(src.id)
                        if at != len(stmts):
                            fail('generator not consumed by the statement that follows its definition', s)
                        src = gen
                    if not (isinstance(src, ast.GeneratorExp) and len(src.generators) == 1) or not isinstance(s, ast.AnnAssign):
                        fail('dict(enumerate(..)) form', s)
                    g = src.generators[0]
                    ctr = target.id + '_next'
                    body = [mk(ast.Assign(targets=[ast.Subscript(value=ast.Name(id=target.id, ctx=ast.Load()), slice=ast.Name(id=ctr, ctx=ast.Load()), ctx=ast.Store())],
                                          value=src.elt)),
                            mk(ast.AugAssign(target=ast.Name(id=ctr, ctx=ast.Store()), op=ast.Add(), value=ast.Constant(value=1)))]
                    if g.ifs:
                        test = g.ifs[0] if len(g.ifs) == 1 else ast.BoolOp(op=ast.And(), values=list(g.ifs))
                        body = [mk(ast.If(test=test, body=body, orelse=[]))]
                    init = mk(ast.AnnAssign(target=ast.Name(id=target.id, ctx=ast.Store()), annotation=s.annotation, value=ast.Dict(keys=[], values=[]), simple=1))
                    cinit = mk(ast.Assign(targets=[ast.Name(id=ctr, ctx=ast.Store())], value=start))
                    loop = mk(ast.For(target=g.target, iter=g.iter, body=body, orelse=[]))
                    stmts, changed = [init, cinit, loop] + rest, True
                    continue
                # targets = helper(args)   /   targets = self.method(args)
                is_meth = (isinstance(v, ast.Call) and isinstance(v.func, ast.Attribute) and isinstance(v.func.value, ast.Name)
                           and v.func.value.id == 'self' and v.func.attr in self.methods)
                if isinstance(v, ast.Call) and (is_meth or (isinstance(v.func, ast.Name) and self.is_helper(v.func.id))) and isinstance(s, ast.Assign):
                    inl = self.inline_call(v, s.targets, s)
                    if inl is not None:
                        stmts, changed = inl + rest, True
                        continue
            if isinstance(s, ast.Expr) and isinstance(s.value, ast.Call):
                c = s.value
                # helper(args)
                if isinstance(c.func, ast.Name) and self.is_helper(c.func.id):
                    inl = self.inline_call(c, None, s, tail_loop=(not rest and ctx is not None and ctx.on_continue is not None))
                    if inl is not None:
                        stmts, changed = inl + rest, True
                        continue
                # x.append(A if c else B)   ==   if c: x.append(A) else: x.append(B)
                if (isinstance(c.func, ast.Attribute) and c.func.attr == 'append' and len(c.args) == 1 and isinstance(c.args[0], ast.IfExp)):
                    ie = c.args[0]

                    def app(e):
                        return mk(ast.Expr(value=ast.Call(func=copy.deepcopy(c.func), args=[e], keywords=[])))
                    stmts, changed = [mk(ast.If(test=ie.test, body=[app(ie.body)], orelse=[app(ie.orelse)]))] + rest, True
                    continue
            if (isinstance(s, ast.For) and isinstance(s.iter, ast.Call) and isinstance(s.iter.func, ast.Name) and s.iter.func.id == 'range'
                    and len(s.iter.args) == 1 and isinstance(s.target, ast.Name) and not s.orelse
                    and self.const_int(s.iter.args[0], env) is not None
                    and not any(isinstance(x, (ast.Continue, ast.Break)) for b in s.body for x in ast.walk(b))):
                n_iter = self.const_int(s.iter.args[0], env)
                if n_iter > 8:
                    fail('loop over a long constant range', s)
                out = []
                for i in range(n_iter):
                    class SubI(ast.NodeTransformer):
                        def visit_Name(self, nn):
                            return ast.copy_location(ast.Constant(value=i), nn) if nn.id == s.target.id and isinstance(nn.ctx, ast.Load) else nn
                    out += [ast.fix_missing_locations(SubI().visit(copy.deepcopy(b))) for b in s.body]
                stmts, changed = out + rest, True
                continue
            if isinstance(s, ast.For) and isinstance(s.iter, ast.Call) and isinstance(s.iter.func, ast.Name) and not s.orelse:
                it = s.iter
                # for v in map(f, xs)   ==   for x in xs: v = f(x)
                if it.func.id == 'map' and len(it.args) == 2 and not it.keywords:
                    tmp = 'item__map%d' % ln
                    bind = mk(ast.Assign(targets=[s.target], value=ast.Call(func=it.args[0], args=[ast.Name(id=tmp, ctx=ast.Load())], keywords=[])))
                    stmts, changed = [mk(ast.For(target=ast.Name(id=tmp, ctx=ast.Store()), iter=it.args[1], body=[bind] + s.body, orelse=[]))] + rest, True
                    continue
                # for i, v in enumerate(xs, start=k)   ==   i = k; for v in xs: ..; i += 1     (no `continue` in the body)
                if it.func.id == 'enumerate' and isinstance(s.target, ast.Tuple) and len(s.target.elts) == 2 and isinstance(s.target.elts[0], ast.Name):
                    start = ast.Constant(value=0)
                    for kw in it.keywords:
                        if kw.arg != 'start':
                            fail('enumerate keyword', s)
                        start = kw.value
                    if len(it.args) == 2:
                        start = it.args[1]
                    if any(isinstance(x, ast.Continue) for b in s.body for x in ast.walk(b)):
                        fail('continue inside an enumerate loop', s)
                    i = s.target.elts[0].id
                    init = mk(ast.Assign(targets=[ast.Name(id=i, ctx=ast.Store())], value=start))
                    inc = mk(ast.AugAssign(target=ast.Name(id=i, ctx=ast.Store()), op=ast.Add(), value=ast.Constant(value=1)))
                    stmts, changed = [init, mk(ast.For(target=s.target.elts[1], iter=it.args[0], body=s.body + [inc], orelse=[]))] + rest, True
                    continue
        return stmts

    # ------------------------------------------------------------------ statements
    def assigned(self, stmts):
        out = []

        def add(x):
            if x not in out:
                out.append(x)
        for s in stmts:
            # a call of a local helper changes whatever the helper changes in the enclosing scope (closure mutation)
            calls = [x for x in ast.walk(s) if isinstance(x, ast.Call) and isinstance(x.func, ast.Name) and self.is_helper(x.func.id)] \
                if isinstance(s, (ast.Expr, ast.Assign, ast.AnnAssign)) else []
            for c in calls:
                if c.func.id in self._assigned_guard:
                    continue
                self._assigned_guard.add(c.func.id)
                fn = self.helper_def(c.func.id)
                own = set(self.bound_names(fn.body)) | {a.arg for a in fn.args.args}
                for x in self.assigned(fn.body):
                    if x not in own:
                        add(x)
                self._assigned_guard.discard(c.func.id)
            if isinstance(s, (ast.Assign, ast.AnnAssign, ast.AugAssign)):
                tg = s.targets if isinstance(s, ast.Assign) else [s.target]
                for t in tg:
                    if isinstance(t, ast.Name):
                        add(t.id)
                    elif isinstance(t, ast.Tuple):
                        for e in t.elts:
                            if isinstance(e, ast.Name):
                                add(e.id)
                            elif isinstance(e, ast.Starred) and isinstance(e.value, ast.Name):
                                add(e.value.id)
                    elif isinstance(t, ast.Subscript) and isinstance(t.value, ast.Name):
                        add(t.value.id)
            elif isinstance(s, ast.Expr) and isinstance(s.value, ast.Call) and isinstance(s.value.func, ast.Attribute) \
                    and s.value.func.attr == 'append' and isinstance(s.value.func.value, ast.Name):
                add(s.value.func.value.id)
            elif isinstance(s, ast.If):
                for x in self.assigned(s.body) + self.assigned(s.orelse):
                    add(x)
            elif isinstance(s, ast.For):
                for x in self.assigned(s.body):
                    add(x)
        return out

    def diverts(self, stmts):
        for s in stmts:
            if isinstance(s, (ast.Continue, ast.Return)):
                return True
            if isinstance(s, ast.If) and (self.diverts(s.body) or self.diverts(s.orelse)):
                return True
        return False

    def bind_name(self, env, pyname, ty):
        """a fresh Coq binder for the Python variable (never shadowed, so values may be substituted freely)"""
        self.ssa += 1
        nm = f'v_{pyname}_{self.ssa}'
        env[pyname] = (nm, ty)
        return nm

    def ann_type(self, ann, node):
        s = ast.unparse(ann).replace(' ', '')
        table = {'dict[int,Pattern]': 'dict', 'dict[int,str]': 'zdict', 'list[Pattern|Proved]': ('list', 'term'), 'int': 'Z',
                 'tuple[Pattern,...]': ('list', 'pat'), 'Pattern': 'pat'}
        if s not in table:
            fail(f'annotation {s}', node)
        return table[s]

    def B(self, stmts, env, ctx, fin):
        """translate a statement list; `fin(env)` is the term for falling off its end"""
        if not stmts:
            return fin(env)
        stmts = self.canon(stmts, env, ctx)
        if not stmts:
            return fin(env)
        s, rest = stmts[0], stmts[1:]
        env = dict(env)
        self.cse = {}

        def go(env2):
            return self.B(rest, env2, ctx, fin)

        if isinstance(s, ast.Pass) or (isinstance(s, ast.Expr) and isinstance(s.value, ast.Constant)):
            return go(env)
        if isinstance(s, ast.Continue):
            if ctx.on_continue is None:
                fail('continue outside a translated loop', s)
            return ctx.on_continue(env)
        if isinstance(s, ast.Return):
            if ctx.on_return is None or s.value is None:
                fail('return', s)
            b, v, t = self.E(s.value, env)
            return self.seq(b, ctx.on_return(v, t))
        if isinstance(s, ast.Raise):
            return 'raise'
        if isinstance(s, ast.Assert):
            b, v, t = self.E(s.test, env)
            self.need(t, 'bool', s)
            return self.seq(b, f'py_assert {v} ;;; ') + go(env)
        if isinstance(s, ast.FunctionDef):
            self.nested[s.name] = (s, dict(env))
            return go(env)
        if isinstance(s, (ast.Assign, ast.AnnAssign)):
            target = s.targets[0] if isinstance(s, ast.Assign) else s.target
            if isinstance(s, ast.Assign) and len(s.targets) != 1:
                fail('multiple assignment targets', s)
            if s.value is None:
                fail('annotation without value', s)
            # empty containers take their type from the annotation / first use
            if isinstance(s.value, (ast.List, ast.Dict)) and not (s.value.elts if isinstance(s.value, ast.List) else s.value.keys) \
                    and isinstance(target, ast.Name):
                ty = None
                if isinstance(s, ast.AnnAssign):
                    try:
                        ty = self.ann_type(s.annotation, s)
                    except SystemExit:
                        ty = None          # an annotation is a comment: fall back to inference
                if ty is None:
                    ty = ListCell() if isinstance(s.value, ast.List) else None
                if ty is None:
                    fail('untyped empty dict', s)
                init = {'dict': 'dict_empty', 'zdict': '([] : zdict)'}.get(ty, '[]') if isinstance(ty, str) else '[]'
                env[target.id] = (init, ty)       # a pure value is substituted at its uses
                return go(env)
            if isinstance(target, ast.Subscript) and isinstance(target.value, ast.Name):
                d = target.value.id
                if d not in env:
                    fail('assignment into unknown container', s)
                bk, vk, tk = self.E(target.slice, env)
                bv, vv, tv = self.E(s.value, env)
                dn, dt = env[d]
                if dt == 'dict':
                    if tk == 'Z':
                        vk, tk = f'(Z.to_N {vk})', 'N'
                    self.need(tk, 'N', s)
                    self.need(tv, 'term', s)
                    new = f'dict_set {vk} {vv} {dn}'
                elif dt == 'zdict':
                    self.need(tk, 'Z', s)
                    self.need(tv, 'label', s)
                    new = f'zdict_set {vk} {vv} {dn}'
                else:
                    fail(f'item assignment on {dt!r}', s)
                env[d] = (f'({new})', dt)
                return self.seq(bk + bv, '') + go(env)
            # a local that only renames another local (or a tuple of them) is that local
            if isinstance(target, ast.Name) and isinstance(s.value, ast.Name) and s.value.id in env:
                env[target.id] = env[s.value.id]
                return go(env)
            if (isinstance(target, ast.Tuple) and isinstance(s.value, ast.Tuple) and len(target.elts) == len(s.value.elts)
                    and all(isinstance(e, ast.Name) for e in target.elts) and all(isinstance(e, ast.Name) and e.id in env for e in s.value.elts)):
                vals = [env[e.id] for e in s.value.elts]
                for e, val in zip(target.elts, vals):
                    env[e.id] = val
                return go(env)
            # targets = (e1, e2, ..): element-wise
            if isinstance(target, ast.Tuple) and isinstance(s.value, ast.Tuple) and len(target.elts) == len(s.value.elts) \
                    and all(isinstance(e, ast.Name) for e in target.elts):
                binds, vals = [], []
                for e in s.value.elts:
                    if self.is_symbolic(e):
                        vals.append((e, 'ast'))
                        continue
                    b1, v1, t1 = self.E(e, env)
                    binds += b1
                    vals.append((v1, t1))
                for e, val in zip(target.elts, vals):
                    env[e.id] = val
                return self.seq(binds, '') + go(env)
            b, v, t = self.E(s.value, env)
            if isinstance(target, ast.Name):
                env[target.id] = (v, t)           # the value (a temporary or a pure expression) is substituted at its uses
                return self.seq(b, '') + go(env)
            if isinstance(target, ast.Tuple):
                # (a, *rest) = xs   or   a, b = pair
                if len(target.elts) == 2 and isinstance(target.elts[0], ast.Starred) and isinstance(target.elts[1], ast.Name):
                    if lst(t) is None:
                        fail('starred unpacking of a non-list', s)
                    last = self.bind_name(env, target.elts[1].id, lst(t))
                    self.ssa += 1
                    rinit = f'v_rinit_{self.ssa}'
                    env[target.elts[0].value.id] = (f'(rev {rinit})', t)
                    return self.seq(b, f'match rev {v} with [] => raise | {last} :: {rinit} => ') + go(env) + ' end'
                if len(target.elts) == 2 and isinstance(target.elts[1], ast.Starred):
                    if lst(t) is None:
                        fail('starred unpacking of a non-list', s)
                    h = self.bind_name(env, target.elts[0].id, lst(t))
                    tl = self.bind_name(env, target.elts[1].value.id, t)
                    return self.seq(b, f'match {v} with [] => raise | {h} :: {tl} => ') + go(env) + ' end'
                if len(target.elts) == 2 and isinstance(t, tuple) and t[0] == 'pair' and all(isinstance(e, ast.Name) for e in target.elts):
                    a = self.bind_name(env, target.elts[0].id, t[1])
                    c = self.bind_name(env, target.elts[1].id, t[2])
                    return self.seq(b, f"let '({a}, {c}) := {v} in ") + go(env)
            fail('assignment form', s)
        if isinstance(s, ast.AugAssign):
            if not (isinstance(s.target, ast.Name) and isinstance(s.op, ast.Add) and s.target.id in env):
                fail('augmented assignment form', s)
            nm, ty = env[s.target.id]
            b, v, t = self.E(s.value, env)
            self.need(ty, 'Z', s)
            self.need(t, 'Z', s)
            env[s.target.id] = (f'({nm} + {v})%Z', 'Z')
            return self.seq(b, '') + go(env)
        if isinstance(s, ast.Expr) and isinstance(s.value, ast.Call):
            c = s.value
            if isinstance(c.func, ast.Attribute) and c.func.attr == 'append' and isinstance(c.func.value, ast.Name) and len(c.args) == 1:
                lname = c.func.value.id
                if lname not in env:
                    fail('append to unknown list', s)
                nm, ty = env[lname]
                b, v, t = self.E(c.args[0], env)
                if lst(ty) is None:
                    fail('append to a non-list', s)
                if isinstance(ty, ListCell) and ty.elem == '?':
                    ty.elem = t
                elif lst(ty) != t:
                    fail(f'append of {t!r} to list of {lst(ty)!r}', s)
                env[lname] = (f'({nm} ++ [{v}])', ty)
                return self.seq(b, '') + go(env)
            b, v, t = self.E(c, env)
            return self.seq(b, '') + go(env)
        if isinstance(s, ast.If):
            test, negated = s.test, False
            while True:
                if isinstance(test, ast.UnaryOp) and isinstance(test.op, ast.Not):
                    test, negated = test.operand, not negated
                elif isinstance(test, ast.Compare) and len(test.ops) == 1 and isinstance(test.ops[0], (ast.NotEq, ast.IsNot)) and not (
                        isinstance(test.ops[0], ast.IsNot) and not (isinstance(test.comparators[0], ast.Constant) and test.comparators[0].value is None)):
                    test = ast.copy_location(ast.Compare(left=test.left, ops=[ast.Eq() if isinstance(test.ops[0], ast.NotEq) else ast.Is()],
                                                         comparators=test.comparators), test)
                    negated = not negated
                else:
                    break
            if negated:
                # swap the branches; an early exit in the (old) body keeps its meaning because both branches continue with `rest`
                s = ast.copy_location(ast.If(test=test, body=(s.orelse if s.orelse else [ast.copy_location(ast.Pass(), s)]),
                                             orelse=s.body), s)
            bt, vt, tt = self.E(s.test, env)
            if tt != 'bool':
                # truthiness of a list
                if lst(tt) is not None:
                    vt = f'(py_nonempty {vt})'
                else:
                    fail('condition is not a boolean', s)
            # an `if` that ends its block, or that leaves it early (guard clause), continues in both branches
            if not rest or self.diverts(s.body) or self.diverts(s.orelse):
                thn = self.B(s.body + rest, env, ctx, fin)
                els = self.B(s.orelse + rest, env, ctx, fin)
                return self.seq(bt, f'if {vt} then ({thn}) else ({els})')
            W = [x for x in self.assigned([s]) if x in env]
            thn = self.B(s.body, env, ctx, lambda e: 'ret ' + tuple_val([e[x][0] for x in W]))
            els = self.B(s.orelse, env, ctx, lambda e: 'ret ' + tuple_val([e[x][0] for x in W]))
            wn = [self.bind_name(env, x, env[x][1]) for x in W]
            return self.seq(bt + [(tuple_pat(wn), f'(if {vt} then ({thn}) else ({els}))')], '') + go(env)
        if isinstance(s, ast.For):
            if s.orelse:
                fail('for/else', s)
            bi, vi, ti = self.E(s.iter, env)
            if lst(ti) is None:
                fail('iteration over a non-list', s)
            el = lst(ti)
            W = [x for x in self.assigned(s.body) if x in env]
            init = tuple_val([env[x][0] for x in W])
            benv = dict(env)
            wn_in = [self.bind_name(benv, x, env[x][1]) for x in W]
            if isinstance(s.target, ast.Name):
                xpat = self.bind_name(benv, s.target.id, el) if s.target.id != '_' else '_'
            elif isinstance(s.target, ast.Tuple) and len(s.target.elts) == 2 and isinstance(el, tuple) and el[0] == 'pair':
                a = self.bind_name(benv, s.target.elts[0].id, el[1])
                c = self.bind_name(benv, s.target.elts[1].id, el[2])
                xpat = f"'({a}, {c})"
            else:
                fail('loop target', s)
            inner = Ctx(on_continue=lambda e: 'ret ' + tuple_val([e[x][0] for x in W]), on_return=None)
            body = self.B(s.body, benv, inner, lambda e: 'ret ' + tuple_val([e[x][0] for x in W]))
            fun = f'(fun {tuple_pat(wn_in)} {xpat} => {body})'
            # list element types fixed inside the body (append to an empty list) are shared through the ListCell
            wn = [self.bind_name(env, x, env[x][1]) for x in W]
            return self.seq(bi + [(tuple_pat(wn), f'foldM {fun} {vi} {init}')], '') + go(env)
        fail('statement form not in the translated subset', s)

    # ------------------------------------------------------------------ functions
    def instantiate(self, name, arg_tys, node):
        if name in self.instantiated:
            cname, extra, rty, tys = self.instantiated[name]
            if tys != arg_tys:
                fail(f'{name} called at two different argument types', node)
            return cname, extra, rty
        if name in self.nested:
            fn, outer = self.nested[name]
        elif name in self.module_funcs:
            fn, outer = self.module_funcs[name], {}
        else:
            fail(f'unknown function {name}', node)
        params = [a.arg for a in fn.args.args]
        if len(params) != len(arg_tys):
            fail(f'arity of {name}', node)
        env = dict(outer)
        sig = []
        for p, t in zip(params, arg_tys):
            sig.append(f'({self.bind_name(env, p, t)} : {coq_ty(t)})')
        recursive = any(isinstance(x, ast.Call) and isinstance(x.func, ast.Name) and x.func.id == name for x in ast.walk(fn))
        rty = self.ann_type(fn.returns, fn) if fn.returns is not None and ast.unparse(fn.returns) != 'None' else 'unit'
        cname = 'gen_' + name
        # closure variables: outer locals the body mentions
        used = {x.id for x in ast.walk(fn) if isinstance(x, ast.Name)}
        extra = [(k, v) for k, v in outer.items() if k in used and k not in params]
        extra_sig = [f'({self.bind_name(env, k, v[1])} : {coq_ty(v[1])})' for k, v in extra]
        self.instantiated[name] = (cname, ['cv'] + [v[0] for _, v in extra], rty, arg_tys)
        ctx = Ctx(on_continue=None, on_return=lambda v, t: self.ret_checked(v, t, rty, fn))
        body = self.B(fn.body, env, ctx, lambda e: 'ret tt' if rty == 'unit' else fail(f'{name} can fall off its end', fn))
        kw = 'Fixpoint' if recursive else 'Definition'
        struct = f' {{struct {env[params[0]][0]}}}' if recursive else ''
        self.defs.append(f'{kw} {cname} (cv : conv) {" ".join(extra_sig + sig)}{struct} : M {coq_ty(rty)} :=\n  ({body})%gen.')
        return cname, ['cv'] + [v[0] for _, v in extra], rty

    def ret_checked(self, v, t, rty, node):
        if t != rty:
            fail(f'return of {t!r} where {rty!r} is declared', node)
        return f'ret {v}'


def find_func(tree, name):
    for n in ast.walk(tree):
        if isinstance(n, ast.FunctionDef) and n.name == name:
            return n
    fail(f'function {name} not found')


def check_prologue(stmts):
    """exec_proof first fixes which object's `.stack` it reads: the stateful interpreter under `interp`.  Any arrangement of
    assignments / asserts / a `stack` lambda or def is accepted as long as every `.stack` read is of a variable that is
    asserted to be a StatefulInterpreter and is bound to `interp` or `interp.sub_interpreter`; `interpreter`, if present,
    must be `lambda: interp`."""
    def src_ok(e):
        if isinstance(e, ast.Name):
            return e.id == 'interp'
        if isinstance(e, ast.Attribute):
            return e.attr == 'sub_interpreter' and isinstance(e.value, ast.Name) and e.value.id == 'interp'
        if isinstance(e, ast.IfExp):
            return src_ok(e.body) and src_ok(e.orelse)
        return False
    bound, asserted, readers = {'interp'}, set(), []
    saw_stack = False

    def walk(block):
        nonlocal saw_stack
        for st in block:
            if isinstance(st, ast.If):
                walk(st.body)
                walk(st.orelse)
            elif isinstance(st, ast.Assert):
                t = st.test
                if (isinstance(t, ast.Call) and isinstance(t.func, ast.Name) and t.func.id == 'isinstance' and len(t.args) == 2
                        and isinstance(t.args[0], ast.Name) and isinstance(t.args[1], ast.Name) and t.args[1].id == 'StatefulInterpreter'):
                    asserted.add(t.args[0].id)
                else:
                    fail('exec_proof prologue: unexpected assert', st)
            elif isinstance(st, ast.Assign) and len(st.targets) == 1 and isinstance(st.targets[0], ast.Name):
                nm, v = st.targets[0].id, st.value
                if nm == 'stack':
                    if not (isinstance(v, ast.Lambda) and not v.args.args and isinstance(v.body, ast.Attribute) and v.body.attr == 'stack'
                            and isinstance(v.body.value, ast.Name)):
                        fail('exec_proof prologue: `stack` must read `<stateful interpreter>.stack`', st)
                    readers.append(v.body.value.id)
                    saw_stack = True
                elif nm == 'interpreter':
                    if ast.unparse(v).replace(' ', '') != 'lambda:interp':
                        fail('exec_proof prologue: `interpreter` must be `lambda: interp`', st)
                elif src_ok(v):
                    bound.add(nm)
                else:
                    fail('exec_proof prologue: unexpected assignment', st)
            elif isinstance(st, ast.FunctionDef) and st.name == 'stack':
                body = [x for x in st.body if not (isinstance(x, ast.Expr) and isinstance(x.value, ast.Constant))]
                if not (not st.args.args and len(body) == 1 and isinstance(body[0], ast.Return) and isinstance(body[0].value, ast.Attribute)
                        and body[0].value.attr == 'stack' and isinstance(body[0].value.value, ast.Name)):
                    fail('exec_proof prologue: `stack()` must return `<stateful interpreter>.stack`', st)
                readers.append(body[0].value.value.id)
                saw_stack = True
            else:
                fail('exec_proof prologue changed', st)
    walk(stmts)
    if not saw_stack:
        fail('exec_proof prologue: no definition of `stack`', stmts[0] if stmts else None)
    for r in readers:
        if r not in bound or r not in asserted:
            fail(f'exec_proof prologue: `.stack` is read from {r}, which is not a checked stateful interpreter')


def generate(repo):
    tsrc = open(os.path.join(repo, SRC_TRANSLATE)).read()
    csrc = open(os.path.join(repo, SRC_CONVERTER)).read()
    ttree, ctree = ast.parse(tsrc), ast.parse(csrc)
    T = Tr()
    rsrc_path = os.path.join(repo, os.path.dirname(SRC_CONVERTER), 'representation.py')
    trees = [ttree, ctree] + ([ast.parse(open(rsrc_path).read())] if os.path.exists(rsrc_path) else [])
    for tr in trees:
        for st in tr.body:
            tgt, val = None, None
            if isinstance(st, ast.Assign) and len(st.targets) == 1 and isinstance(st.targets[0], ast.Name):
                tgt, val = st.targets[0].id, st.value
            elif isinstance(st, ast.AnnAssign) and isinstance(st.target, ast.Name) and st.value is not None:
                tgt, val = st.target.id, st.value
            if tgt and tgt.isupper() and isinstance(val, ast.Constant) and isinstance(val.value, (int, str)) and not isinstance(val.value, bool):
                T.constants.setdefault(tgt, val)

    # ---- converter.py: split_proof, the statements before the call of parse_lemmas
    sp = find_func(ctree, 'split_proof')
    body = [s for s in sp.body if not (isinstance(s, ast.Assert) and ast.unparse(s.test) == 'proof')]
    # the translated part ends where the proof TEXT is first handed to a parser (parse_lemmas, under whatever name),
    # together with the label table built so far
    if not sp.args.args:
        fail('split_proof: no parameter', sp)
    proof_param = sp.args.args[0].arg
    for cls in ast.walk(ctree):
        if isinstance(cls, ast.ClassDef) and cls.name == 'MetamathConverter':
            for m in cls.body:
                if isinstance(m, ast.FunctionDef) and not any(ast.unparse(dd) in ('staticmethod', 'classmethod', 'property') for dd in m.decorator_list):
                    T.methods[m.name] = m
    cut, call = None, None
    for i, s in enumerate(body):
        for x in ast.walk(s):
            if isinstance(x, ast.Call) and any(isinstance(a, ast.Name) and a.id == proof_param for a in x.args):
                cut, call = i, x
                break
        if cut is not None:
            break
    if cut is None:
        fail('split_proof: the call that parses the label block of the proof text was not found', sp)
    tables = [a.id for a in call.args if isinstance(a, ast.Name) and a.id != proof_param]
    if len(tables) != 1:
        fail('split_proof: <parser>(proof, <label table>) expected', call)
    table_var = tables[0]
    env = {'statement': ('v_statement', 'ax')}
    term = T.B(body[:cut], env, Ctx(), lambda e: 'ret ' + (e[table_var][0] if table_var in e and e[table_var][1] == 'zdict'
                                                           else fail('split_proof: label table is not a dict[int, str]', sp)))
    T.defs.append(f'(* converter.py _import_proof.split_proof, up to the call of parse_lemmas *)\n'
                  f'Definition gen_split_proof_labels (cv : conv) (v_statement : assertion) : M zdict :=\n  ({term})%gen.')
    T.defs.append('(* glue: representation.Proof of the target = translated numbering of the mandatory hypotheses, continued by the\n'
                  '   parenthesised labels (parse_lemmas, C15), and the decoded step numbers *)\n'
                  'Definition gen_get_lemma_by_name (cv : conv) (target : label) : M pylemma :=\n'
                  '  match find_proof (cv_d cv) target with\n'
                  '  | Some (a, pl, steps) =>\n'
                  '      bind (gen_split_proof_labels cv a) (fun dl => ret (mkLm a (mkPf (zdict_extend dl pl) (map Z.of_N steps))))\n'
                  '  | None => raise\n  end.')

    # ---- translate.py: convert_to_implication (on demand), main's assembly, exec_proof
    for fn in ttree.body:
        if isinstance(fn, ast.FunctionDef) and fn.name not in ('main', 'exec_proof'):
            T.module_funcs[fn.name] = fn
    main = find_func(ttree, 'main')
    idx = {}
    for i, s in enumerate(main.body):
        if isinstance(s, ast.Assign) and len(s.targets) == 1 and isinstance(s.targets[0], ast.Name):
            idx.setdefault(s.targets[0].id, i)
        elif isinstance(s, ast.AnnAssign) and isinstance(s.target, ast.Name) and s.value is not None:
            idx.setdefault(s.target.id, i)
    if 'extracted_axioms' not in idx or 'extracted_claims' not in idx or idx['extracted_axioms'] > idx['extracted_claims']:
        fail('main: extracted_axioms / extracted_claims assembly not found', main)
    env = {'args.target': ('target', 'label')}
    term = T.B(main.body[idx['extracted_axioms']:idx['extracted_claims'] + 1], env, Ctx(),
               lambda e: f'ret ({e["extracted_axioms"][0]}, {e["extracted_claims"][0]})')
    T.defs.append('(* translate.py main: the axioms and claims handed to the proof skeleton *)\n'
                  f'Definition gen_extracted (cv : conv) (target : label) : M (list pat * list pat) :=\n  ({term})%gen.')

    ep = find_func(ttree, 'exec_proof')
    params = [a.arg for a in ep.args.args]
    if params != ['converter', 'target', 'proofexp', 'interp']:
        fail('exec_proof signature changed', ep)
    first_def = next((i for i, s in enumerate(ep.body) if isinstance(s, ast.FunctionDef) and s.name != 'stack'), None)
    if first_def is None:
        fail('exec_proof: nested helpers not found', ep)
    check_prologue([x for x in ep.body[:first_def] if not (isinstance(x, ast.Expr) and isinstance(x.value, ast.Constant))])
    env = {'target': ('target', 'label'), 'proofexp': ('proofexp', 'pexp')}
    stmts = ep.body[first_def:]
    loops = [i for i, s in enumerate(stmts) if isinstance(s, ast.For)]
    if len(loops) != 1:
        fail('exec_proof: exactly one top-level loop expected', ep)
    li = loops[0]
    loop = stmts[li]

    def after_prefix(env1):
        # the loop body becomes its own definition, parameterised by the live variables
        W = [x for x in T.assigned(loop.body) if x in env1]
        if isinstance(loop.target, ast.Name) is False:
            fail('exec_proof loop target', loop)
        bi, vi, ti = T.E(loop.iter, env1)
        if lst(ti) is None:
            fail('exec_proof: iteration over a non-list', loop)
        used = {x.id for x in ast.walk(loop) if isinstance(x, ast.Name)}
        grew = True
        while grew:          # names used inside the helpers the loop calls count as used by the loop
            grew = False
            for h in [u for u in used if T.is_helper(u)]:
                more = {x.id for x in ast.walk(T.helper_def(h)) if isinstance(x, ast.Name)} - used
                if more:
                    used |= more
                    grew = True
        live = [(k, v) for k, v in env1.items() if k in used and k not in W and k != loop.target.id]
        benv = dict(env1)
        import re as _re
        sig = ' '.join(f'({v[0] if _re.fullmatch(r"[A-Za-z_][A-Za-z_0-9]*", v[0]) else T.bind_name(benv, k, v[1])} : {coq_ty(v[1])})' for k, v in live)
        wsig = ' '.join(f'({T.bind_name(benv, x, env1[x][1])} : {coq_ty(env1[x][1])})' for x in W)
        xn = T.bind_name(benv, loop.target.id, lst(ti))
        inner = Ctx(on_continue=lambda e: 'ret ' + tuple_val([e[x][0] for x in W]), on_return=None)
        body = T.B(loop.body, benv, inner, lambda e: 'ret ' + tuple_val([e[x][0] for x in W]))
        wty = ' * '.join(coq_ty(env1[x][1]) for x in W) if W else 'unit'
        T.defs.append('(* translate.py exec_proof: one iteration of `for lemma in exported_proof.applied_lemmas` *)\n'
                      f'Definition gen_exec_proof_step (cv : conv) {sig} {wsig} ({xn} : {coq_ty(lst(ti))}) : M ({wty}) :=\n  ({body})%gen.')
        init = tuple_val([env1[x][0] for x in W])
        call = 'gen_exec_proof_step cv ' + ' '.join(v[0] for _, v in live)
        wn = [T.bind_name(env1, x, env1[x][1]) for x in W]
        fold = f'(fun {tuple_pat(wn)} x => {call} {" ".join(wn)} x)' if len(wn) != 1 else f'({call})'
        rest = T.B(stmts[li + 1:], env1, Ctx(), lambda e: 'ret tt')
        return T.seq(bi, f'{tuple_pat(wn)} <- foldM {fold} {vi} {init} ;; ') + rest

    term = T.B(stmts[:li], env, Ctx(), after_prefix)
    T.defs.append('(* translate.py exec_proof *)\n'
                  f'Definition gen_exec_proof (cv : conv) (target : label) (proofexp : list pat) : M unit :=\n  ({term})%gen.')

    head = ('(** GENERATED by translators/mm_translate.py from\n'
            f'      {SRC_TRANSLATE}  (exec_proof, convert_to_implication, main)\n'
            f'      {SRC_CONVERTER}  (_import_proof.split_proof)\n'
            '    Do not edit: rewritten by every run of ./check C16.  Vocabulary: MM16/GenPrims.v. *)\n'
            'From Coq Require Import ZArith NArith List Bool.\n'
            'From Pi2 Require Import ML.Syntax ML.Subst ML.Machine MM16.Verify MM16.Convert MM16.Instr MM16.Translate MM16.GenPrims.\n'
            'Import ListNotations.\nOpen Scope N_scope.\n\n')
    return head + '\n\n'.join(T.defs) + '\n'


if __name__ == '__main__':
    import sys
    print(generate(sys.argv[1] if len(sys.argv) > 1 else '/repo'))

"""Fail-closed translator: `apply_esubst` and `apply_ssubst` of rust/src/lib.rs -> coq/Gen/SubstFns.v.

Accepted shape (anything else aborts):
  fn NAME(pattern: &Rc<Pattern>, VAR: Id, plug: &Rc<Pattern>) -> Rc<Pattern> {
      let wrap_subst = || CTOR(Rc::clone(pattern), VAR, Rc::clone(plug));
      match pattern.as_ref() { ARM* }
  }
  ARM  := PAT [if *V == VAR] => BODY ,
  BODY := EXPR | { [assert!(COND, ...);] EXPR } | { if *V == VAR { EXPR } else { EXPR } }
  EXPR := Rc::clone(plug|pattern) | wrap_subst() | ctor(args) | NAME(x, VAR, plug) | *V
Output: Gallina functions returning option pat (assert failure = None).
"""
import os
import re
import sys

sys.path.insert(0, os.path.dirname(os.path.abspath(__file__)))
from rust_judge import CTOR, tokenize, fail as _fail  # noqa: E402


def fail(msg):
    raise SystemExit('rust_subst translator: ' + msg)


BUILD = {'implies': 'Imp', 'app': 'App', 'exists': 'Ex', 'mu': 'Mu', 'esubst': 'ESub', 'ssubst': 'SSub'}


def find_free_fn(src, name):
    m = re.search(r'\nfn ' + name + r'\(', src)
    if not m:
        fail(f'fn {name} not found')
    start = m.start() + 1
    i = src.index('{', start)
    depth, j = 0, i
    while True:
        if src[j] == '{':
            depth += 1
        elif src[j] == '}':
            depth -= 1
            if depth == 0:
                break
        j += 1
    return src[start:j + 1]


class P:
    def __init__(self, toks, fname):
        self.t, self.i, self.fname = toks, 0, fname

    def peek(self, k=0):
        return self.t[self.i + k] if self.i + k < len(self.t) else None

    def eat(self, x=None):
        tok = self.peek()
        if x is not None and tok != x:
            fail(f'in fn {self.fname}: expected {x!r}, got {tok!r} (context {" ".join(self.t[max(0, self.i - 8):self.i + 4])})')
        self.i += 1
        return tok

    def seq(self, *xs):
        for x in xs:
            self.eat(x)

    def function(self):
        self.eat('fn')
        name = self.eat()
        self.seq('(', 'pattern', ':', '&', 'Rc', '<', 'Pattern', '>', ',')
        var = self.eat()
        self.seq(':', 'Id', ',', 'plug', ':', '&', 'Rc', '<', 'Pattern', '>', ')', '->', 'Rc', '<', 'Pattern', '>', '{')
        self.eat('let')
        self.wrapname = self.eat()
        self.seq('=', '||')
        wrap = self.eat()
        self.seq('(', 'Rc', '::', 'clone', '(', 'pattern', ')', ',')
        self.eat(var)
        self.seq(',', 'Rc', '::', 'clone', '(', 'plug', ')', ')', ';')
        if wrap not in ('esubst', 'ssubst'):
            fail(f'wrap_subst builds {wrap}')
        self.seq('match', 'pattern', '.', 'as_ref', '(', ')', '{')
        arms = []
        while self.peek() != '}':
            arms.append(self.arm(name, var))
        self.seq('}', '}')
        return name, var, wrap, arms

    def arm(self, fn, var):
        if self.peek() == '_':
            self.eat()
            pat = ('_',)
        else:
            self.seq('Pattern', '::')
            c = self.eat()
            fields = {}
            if self.peek() == '(':
                self.eat('(')
                fields['0'] = self.eat()
                self.eat(')')
            else:
                self.eat('{')
                while self.peek() != '}':
                    tok = self.eat()
                    if tok != '..':
                        if tok not in CTOR[c][1]:
                            fail(f'unknown field {tok} of {c}')
                        fields[tok] = tok
                    if self.peek() == ',':
                        self.eat(',')
                self.eat('}')
            pat = (c, fields)
        guard = None
        if self.peek() == 'if':
            self.eat('if')
            self.eat('*')
            g = self.eat()
            self.eat('==')
            self.eat(var)
            guard = g
        self.eat('=>')
        body = self.body(fn, var)
        if self.peek() == ',':
            self.eat(',')
        return pat, guard, body

    def body(self, fn, var):
        if self.peek() != '{':
            return self.expr(fn, var)
        self.eat('{')
        if self.peek() == 'if':
            self.eat('if')
            self.eat('*')
            v = self.eat()
            self.eat('==')
            self.eat(var)
            self.eat('{')
            a = self.expr(fn, var)
            self.seq('}', 'else', '{')
            b = self.expr(fn, var)
            self.seq('}', '}')
            return ('ifeq', v, a, b)
        cond = None
        if self.peek() == 'assert':
            self.seq('assert', '!', '(', 'plug', '.')
            m = self.eat()
            if m not in ('e_fresh', 's_fresh'):
                fail(f'assert on unknown method {m}')
            self.seq('(', '*')
            v = self.eat()
            self.eat(')')
            depth = 1
            while depth:                # message and its arguments
                t = self.eat()
                depth += (t == '(') - (t == ')')
            self.eat(';')
            cond = (m, v)
        e = self.expr(fn, var)
        self.eat('}')
        return ('assert', cond, e) if cond else e

    def expr(self, fn, var):
        tok = self.eat()
        if tok == 'Rc':
            self.seq('::', 'clone', '(')
            x = self.eat()
            self.eat(')')
            if x not in ('plug', 'pattern'):
                fail(f'Rc::clone({x})')
            return ('clone', x)
        if tok == getattr(self, 'wrapname', 'wrap_subst'):
            self.seq('(', ')')
            return ('wrap',)
        if tok == fn:
            self.eat('(')
            x = self.eat()
            self.eat(',')
            self.eat(var)
            self.seq(',', 'plug', ')')
            return ('rec', x)
        if tok in BUILD:
            self.eat('(')
            args = []
            while self.peek() != ')':
                if self.peek() == '*':
                    self.eat('*')
                    args.append(('id', self.eat()))
                else:
                    args.append(self.expr(fn, var))
                if self.peek() == ',':
                    self.eat(',')
            self.eat(')')
            return ('build', BUILD[tok], args)
        fail(f'in fn {fn}: unexpected expression token {tok!r}')


def V(n):
    return 'f_' + n


def emit_expr(e, fn, var, wrap):
    """returns Gallina of type option pat"""
    k = e[0]
    if k == 'clone':
        return 'Some ' + ('plug' if e[1] == 'plug' else 'p')
    if k == 'wrap':
        return f'Some ({BUILD[wrap]} p {V(var)} plug)'
    if k == 'rec':
        return f'gen_{fn} {V(e[1])} {V(var)} plug'
    if k == 'build':
        ctor, args = e[1], e[2]
        binds, names = [], []
        for i, a in enumerate(args):
            if a[0] == 'id':
                names.append(V(a[1]))
            else:
                nm = f'r{i}'
                binds.append((nm, emit_expr(a, fn, var, wrap)))
                names.append(nm)
        out = f'Some ({ctor} {" ".join(names)})'
        for nm, ex in reversed(binds):
            out = f'match {ex} with Some {nm} => {out} | None => None end'
        return out
    if k == 'ifeq':
        return f'if N.eqb {V(e[1])} {V(var)} then {emit_expr(e[2], fn, var, wrap)} else {emit_expr(e[3], fn, var, wrap)}'
    if k == 'assert':
        m, v = e[1]
        return f'if {m} plug {V(v)} then {emit_expr(e[2], fn, var, wrap)} else None'
    fail(f'cannot emit {k}')


def gen(fn, var, wrap, arms):
    """guarded arms are merged with the following unguarded arm of the same constructor"""
    lines = [f'Fixpoint gen_{fn} (p:pat) ({V(var)}:N) (plug:pat) {{struct p}} : option pat :=', '  match p with']
    i = 0
    seen = set()
    default = None
    while i < len(arms):
        pat, guard, body = arms[i]
        if pat == ('_',):
            if guard:
                fail('guard on wildcard arm')
            default = emit_expr(body, fn, var, wrap)
            i += 1
            continue
        c, fields = pat
        coq, order = CTOR[c]
        if c in seen:
            fail(f'constructor {c} matched twice without guard structure')
        if guard:
            if i + 1 >= len(arms) or arms[i + 1][0] == ('_',) or arms[i + 1][0][0] != c or arms[i + 1][1]:
                fail(f'guarded arm for {c} not followed by an unguarded arm of the same constructor')
            pat2, _, body2 = arms[i + 1]
            allf = dict(pat2[1])
            allf.update(fields)
            lhs = coq + ''.join(' ' + (V(allf[f]) if f in allf else '_') for f in order)
            rhs = f'if N.eqb {V(guard)} {V(var)} then {emit_expr(body, fn, var, wrap)} else {emit_expr(body2, fn, var, wrap)}'
            i += 2
        else:
            lhs = coq + ''.join(' ' + (V(fields[f]) if f in fields else '_') for f in order)
            rhs = emit_expr(body, fn, var, wrap)
            i += 1
        seen.add(c)
        lines.append(f'  | {lhs} => {rhs}')
    if default is not None:
        lines.append(f'  | _ => {default}')
    lines.append('  end.')
    return '\n'.join(lines)


def generate(repo):
    src = open(os.path.join(repo, 'rust/src/lib.rs')).read()
    out = ['(** GENERATED by translators/rust_subst.py from rust/src/lib.rs (apply_esubst, apply_ssubst) — do not edit *)',
           'From Coq Require Import NArith List Bool.', 'From Pi2 Require Import ML.Syntax.', 'Import ListNotations.', 'Open Scope N_scope.', '']
    for fn in ('apply_esubst', 'apply_ssubst'):
        p = P(tokenize(find_free_fn(src, fn)), fn)
        name, var, wrap, arms = p.function()
        if p.peek() is not None:
            fail(f'in fn {fn}: trailing tokens')
        out.append(gen(fn, var, wrap, arms) + '\n')
    return '\n'.join(out)


if __name__ == '__main__':
    sys.stdout.write(generate(sys.argv[1] if len(sys.argv) > 1 else '/repo'))

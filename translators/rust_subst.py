"""Fail-closed translator: `apply_esubst` / `apply_ssubst` of rust/src/lib.rs -> coq/Gen/SubstFns.v  (expression level).

The function is `[let CLOSURE = || EXPR;]* match pattern.as_ref() { ARMS }`. Arms may be guarded (`PAT if COND`), alternatives (`A | B | C`) or the
wildcard; they are compiled, per constructor of [pat], into the first-match semantics of Rust (`if guard then body else <next applicable arm>`).
Bodies are expressions or blocks of `let x = EXPR;` / `assert!(COND, ..)` / `if !COND { panic!(..) }` followed by a tail expression or an
`if C { E } else { E }`; expressions are built from `Rc::clone(plug|pattern)`, the pattern constructors, recursive calls, closure calls and bound
names. A panic (failed assert) is `None`, and so is a panic of a recursive call. Renaming, reordering independent arms, introducing locals or
inlining the closure do not change the generated function beyond bound names; a dropped assert, a changed guard or a different constructor does.
"""
import os
import re
import sys

sys.path.insert(0, os.path.dirname(os.path.abspath(__file__)))
from rust_exec import norm, find_fn, split_stmts, split_arms, split_top, match_close  # noqa: E402


def fail(msg):
    raise SystemExit('rust_subst translator: ' + msg)


CTORS = [('EVar', 'EVar', ['0']), ('SVar', 'SVar', ['0']), ('Symbol', 'Sym', ['0']), ('Implies', 'Imp', ['left', 'right']),
         ('App', 'App', ['left', 'right']), ('Exists', 'Ex', ['var', 'subpattern']), ('Mu', 'Mu', ['var', 'subpattern']),
         ('MetaVar', 'MVar', ['id', 'e_fresh', 's_fresh', 'positive', 'negative', 'app_ctx_holes']),
         ('ESubst', 'ESub', ['pattern', 'evar_id', 'plug']), ('SSubst', 'SSub', ['pattern', 'svar_id', 'plug'])]
CONS = {'implies': ('Imp', 2), 'app': ('App', 2), 'exists': ('Ex', 2), 'mu': ('Mu', 2), 'evar': ('EVar', 1), 'svar': ('SVar', 1),
        'symbol': ('Sym', 1), 'esubst': ('ESub', 3), 'ssubst': ('SSub', 3)}


def parse_alt(alt):
    """one alternative of an arm pattern -> (rust ctor name or '_', {local name: field})"""
    alt = alt.strip()
    if alt == '_':
        return '_', {}
    m = re.fullmatch(r'Pattern::(\w+)\((\w+)\)', alt)
    if m:
        return m.group(1), ({} if m.group(2) == '_' else {m.group(2): '0'})
    m = re.fullmatch(r'Pattern::(\w+) \{ ?(.*?) ?\}', alt)
    if m:
        bind = {}
        for g in [x.strip() for x in m.group(2).split(',')]:
            if g == '..' or not g:
                continue
            if ':' in g:
                k, val = [x.strip() for x in g.split(':', 1)]
            else:
                k = val = g
            if val != '_':
                bind[val] = k
        return m.group(1), bind
    fail('unrecognised arm pattern: ' + alt)


class Fn:
    def __init__(self, name, var, closures):
        self.name, self.var, self.closures = name, var, closures
        self.n = 0

    def tmp(self):
        self.n += 1
        return f'r{self.n}'

    def expr(self, e, env, pre):
        e = e.strip()
        m = re.fullmatch(r'Rc::clone\(&?(\w+)\)', e) or re.fullmatch(r'(\w+)\.clone\(\)', e) or re.fullmatch(r'&(\w+)', e) or re.fullmatch(r'\*(\w+)', e)
        if m:
            return self.name_of(m.group(1), env)
        if re.fullmatch(r'[a-z_]\w*', e):
            return self.name_of(e, env)
        if e.startswith('Rc::clone(') and match_close(e, len('Rc::clone')) == len(e) - 1:
            return self.expr(e[len('Rc::clone('):-1].lstrip('&'), env, pre)
        if e.startswith('if ') and e.endswith('}'):
            i = e.index('{')
            j = match_close(e, i)
            tail = e[j + 1:].strip()
            if tail.startswith('else') and tail.rstrip().endswith('}'):
                k = tail.index('{')
                p1, p2 = [], []
                a = self.expr(e[i + 1:j], env, p1)
                b = self.expr(tail[k + 1:-1], env, p2)
                if p1 or p2:
                    fail('conditional expression with partial branches: ' + e[:100])
                return f'(if {self.cond(e[3:i], env)} then {a} else {b})'
        m = re.fullmatch(r'(\w+)\((.*)\)', e)
        if m and match_close(e, len(m.group(1))) == len(e) - 1:
            f, args = m.group(1), split_top(m.group(2))
            if f in self.closures and args == []:
                return self.expr(self.closures[f], env, pre)
            if f in CONS:
                c, ar = CONS[f]
                if len(args) != ar:
                    fail(f'{f} applied to {len(args)} arguments')
                return '(' + c + ' ' + ' '.join(self.expr(a, env, pre) for a in args) + ')'
            if f == self.name and len(args) == 3:
                a = [self.expr(x, env, pre) for x in args]
                if a[1] != 'f_' + self.var or a[2] != 'plug':
                    fail(f'recursive call with other arguments: {e}')
                t = self.tmp()
                pre.append((t, f'gen_{self.name} {a[0]} {a[1]} {a[2]}'))
                return t
            fail('unknown function in expression: ' + e[:80])
        fail('unrecognised expression: ' + e[:100])

    def name_of(self, x, env):
        if x == 'plug':
            return 'plug'
        if x == 'pattern':
            return 'p'
        if x == self.var:
            return 'f_' + self.var
        if x in env:
            return env[x]
        fail('unbound name ' + x)

    def wrap(self, pre, body):
        for t, call in reversed(pre):
            body = f'match {call} with Some {t} => {body} | None => None end'
        return body

    def cond(self, c, env):
        c = c.strip()
        parts = split_top(c.replace('&&', '\x00'), '\x00')
        if len(parts) > 1:
            return '(' + ' && '.join(self.cond(x, env) for x in parts) + ')'
        parts = split_top(c.replace('||', '\x00'), '\x00')
        if len(parts) > 1:
            return '(' + ' || '.join(self.cond(x, env) for x in parts) + ')'
        if c.startswith('!'):
            return f'(negb {self.cond(c[1:], env)})'
        if c.startswith('(') and match_close(c, 0) == len(c) - 1:
            return self.cond(c[1:-1], env)
        m = re.fullmatch(r'\*?(\w+) (==|!=) \*?(\w+)', c)
        if m:
            a, b = self.name_of(m.group(1), env), self.name_of(m.group(3), env)
            r = f'(N.eqb {a} {b})'
            return r if m.group(2) == '==' else f'(negb {r})'
        m = re.fullmatch(r'(\w+)\.(e_fresh|s_fresh)\(\*?(\w+)\)', c)
        if m:
            return f'({m.group(2)} {self.name_of(m.group(1), env)} {self.name_of(m.group(3), env)})'
        fail('unrecognised condition: ' + c[:100])

    def body(self, text, is_block, env):
        """-> Coq term of type option pat"""
        stmts = split_stmts(text) if is_block else [text]
        return self.block(stmts, dict(env))

    def block(self, stmts, env):
        if not stmts:
            fail('block without a value')
        s = stmts[0].strip().rstrip(';').strip()
        more = stmts[1:]
        m = re.fullmatch(r'assert!\((.*)\)', s)
        if m:
            c = split_top(m.group(1))[0]
            return f'if {self.cond(c, env)} then {self.block(more, env)} else None'
        m = re.fullmatch(r'if (.*?) \{ return (.*?);? \}', s)
        if m and more and match_close(s, s.index('{')) == len(s) - 1:
            return f'if {self.cond(m.group(1), env)} then {self.block([m.group(2)], env)} else {self.block(more, env)}'
        m = re.fullmatch(r'if (.*?) \{ (?:panic|unreachable)!\(.*\);? \}', s)
        if m and more:
            c = m.group(1).strip()
            if c.startswith('!'):      # `if !C { panic }` is `assert!(C)`
                return f'if {self.cond(c[1:], env)} then {self.block(more, env)} else None'
            return f'if {self.cond(c, env)} then None else {self.block(more, env)}'
        m = re.fullmatch(r'let (\w+) = (.*)', s)
        if m:
            pre = []
            e = self.expr(m.group(2), env, pre)
            env2 = dict(env)
            env2[m.group(1)] = 'l_' + m.group(1)
            return self.wrap(pre, f'let l_{m.group(1)} := {e} in {self.block(more, env2)}')
        if more:
            fail('statement before the tail expression not recognised: ' + s[:120])
        # tail
        if s.startswith('return '):
            s = s[len('return '):]
        if s.startswith('if '):
            i = s.index('{')
            j = match_close(s, i)
            tail = s[j + 1:].strip()
            if not tail.startswith('else'):
                fail('if without else as a value: ' + s[:100])
            k = tail.index('{')
            if match_close(tail, k) != len(tail) - 1:
                fail('else block: ' + tail[:80])
            return (f'if {self.cond(s[3:i], env)} then {self.block(split_stmts(s[i + 1:j]), env)} '
                    f'else {self.block(split_stmts(tail[k + 1:-1]), env)}')
        if re.fullmatch(r'(panic|unreachable|unimplemented)!\(.*\)', s):
            return 'None'
        pre = []
        e = self.expr(s, env, pre)
        return self.wrap(pre, f'Some {e}')


def translate(src, name):
    fn = norm(find_fn(src, name))
    m = re.fullmatch(r'fn ' + name + r'\(pattern: &Rc<Pattern>, (\w+): Id, plug: &Rc<Pattern>\) -> Rc<Pattern> \{ (.*) \}', fn)
    if not m:
        fail(f'unexpected signature of {name}: ' + fn[:160])
    var, body = m.groups()
    closures = {}
    while True:
        cm = re.match(r'let (\w+) = \|\| (.*?); (?=let |match )', body)
        if not cm:
            break
        closures[cm.group(1)] = cm.group(2)
        body = body[cm.end():]
    mm = re.fullmatch(r'(?:return )?match pattern\.as_ref\(\) \{ (.*) \};?', body)
    if not mm:
        fail(f'{name}: body is not closures + one match on pattern.as_ref(): ' + body[:160])
    arms = []
    for pat, text, is_block in split_arms(mm.group(1)):
        guard = None
        if ' if ' in pat:
            pat, guard = pat.split(' if ', 1)
        alts = [parse_alt(a) for a in split_top(pat, '|')]
        arms.append((alts, guard, text, is_block))
    f = Fn(name, var, closures)
    out = []
    for rust, coq, fields in CTORS:
        cvars = ['c_' + x for x in fields]
        code = None
        chain = []
        for alts, guard, text, is_block in arms:
            hit = [b for (c, b) in alts if c == rust or c == '_']
            if not hit:
                continue
            if len(alts) > 1 and any(b for (_, b) in alts):
                fail(f'{name}: alternatives that bind names')
            env = {loc: 'c_' + fld for loc, fld in hit[0].items()}
            for fld in env.values():
                if fld not in cvars:
                    fail(f'{name}: field {fld} of {rust}')
            b = f.body(text, is_block, env)
            if guard is None:
                chain.append((None, b))
                break
            chain.append((f.cond(guard, env), b))
        if not chain or chain[-1][0] is not None:
            fail(f'{name}: no unguarded arm covers {rust}')
        code = chain[-1][1]
        for g, b in reversed(chain[:-1]):
            code = f'if {g} then {b} else {code}'
        out.append(f'  | {coq} {" ".join(cvars)} => {code}')
    return (f'Fixpoint gen_{name} (p:pat) (f_{var}:N) (plug:pat) {{struct p}} : option pat :=\n  match p with\n' + '\n'.join(out) + '\n  end.\n')


def generate(repo):
    src = open(os.path.join(repo, 'rust/src/lib.rs')).read()
    src = src.split('\n#[cfg(test)]\nmod tests')[0]
    lines = ['(** GENERATED by translators/rust_subst.py from rust/src/lib.rs (apply_esubst, apply_ssubst) — do not edit *)',
             'From Coq Require Import NArith List Bool.', 'From Pi2 Require Import ML.Syntax.', 'Import ListNotations.', 'Open Scope N_scope.', '',
             translate(src, 'apply_esubst'), translate(src, 'apply_ssubst')]
    return '\n'.join(lines)


if __name__ == '__main__':
    sys.stdout.write(generate(sys.argv[1] if len(sys.argv) > 1 else '/repo'))

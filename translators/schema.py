"""Docstring schemas of the propositional / tautology library (C10).

A schema is either one formula (`p -> ~~p`) or an inference figure

      premise    premise
    ---------------------
          conclusion

Grammar (what the library's docstrings use):
    equiv := imp ('<->' imp)?            imp := or ('->' imp)?        (right associative)
    or    := and ('\\/' or)?             and := un ('/\\' and)?       (right associative)
    un    := '~' un | '(' equiv ')' | IDENT
    IDENT : `bot`, `top`, `T` are constants, anything else is a schema variable.

Formula AST: ('var', name) | ('bot',) | ('top',) | ('imp', a, b) | ('and', a, b) | ('or', a, b)
             | ('equiv', a, b) | ('neg', a)
"""
from __future__ import annotations

import re


class SchemaSyntax(Exception):
    """the docstring is not a schema in the grammar above (prose, ellipses, ...)"""


class SchemaMismatch(Exception):
    """the docstring is a schema but cannot be related to the method's parameters"""


TOKEN = re.compile(r'\s*(<->|->|/\\|\\/|~|\(|\)|[A-Za-z_][A-Za-z0-9_]*)')
CONSTS = {'bot': ('bot',), 'top': ('top',), 'T': ('top',)}


def tokenize(s):
    out, i = [], 0
    s = s.rstrip()
    while i < len(s):
        m = TOKEN.match(s, i)
        if not m:
            raise SchemaSyntax(f'unexpected text {s[i:i + 12]!r}')
        out.append(m.group(1))
        i = m.end()
    return out


def parse_formula(s):
    toks = tokenize(s)
    pos = [0]

    def peek():
        return toks[pos[0]] if pos[0] < len(toks) else None

    def eat(t=None):
        x = peek()
        if x is None or (t is not None and x != t):
            raise SchemaSyntax(f'expected {t or "token"} got {x!r}')
        pos[0] += 1
        return x

    def p_equiv():
        a = p_imp()
        if peek() == '<->':
            eat()
            b = p_imp()
            return ('equiv', a, b)
        return a

    def p_imp():
        a = p_or()
        if peek() == '->':
            eat()
            return ('imp', a, p_imp())
        return a

    def p_or():
        a = p_and()
        if peek() == '\\/':
            eat()
            return ('or', a, p_or())
        return a

    def p_and():
        a = p_un()
        if peek() == '/\\':
            eat()
            return ('and', a, p_and())
        return a

    def p_un():
        t = peek()
        if t == '~':
            eat()
            return ('neg', p_un())
        if t == '(':
            eat()
            a = p_equiv()
            eat(')')
            return a
        if t is not None and re.fullmatch(r'[A-Za-z_][A-Za-z0-9_]*', t):
            eat()
            return CONSTS.get(t, ('var', t))
        raise SchemaSyntax(f'unexpected token {t!r}')

    if not toks:
        raise SchemaSyntax('empty formula')
    f = p_equiv()
    if peek() is not None:
        raise SchemaSyntax(f'trailing token {peek()!r}')
    return f


def fvars(f, acc=None):
    """schema variables in order of first occurrence"""
    acc = [] if acc is None else acc
    if f[0] == 'var':
        if f[1] not in acc:
            acc.append(f[1])
    else:
        for x in f[1:]:
            fvars(x, acc)
    return acc


def parse_docstring(doc):
    """-> dict(premises=[formula], conclusions=[formula])  (more than one conclusion only for the
    `A   or, alternatively   B` form: all of them are advertised).  Raises SchemaSyntax."""
    if doc is None:
        raise SchemaSyntax('no docstring')
    lines = [ln.strip() for ln in doc.strip().split('\n')]
    lines = [ln for ln in lines if ln]
    if not lines:
        raise SchemaSyntax('empty docstring')
    bars = [i for i, ln in enumerate(lines) if re.fullmatch(r'-{3,}', ln)]
    if not bars:
        if len(lines) != 1:
            raise SchemaSyntax('several lines without an inference bar')
        parts = re.split(r'\s+or, alternatively\s+', lines[0])
        return dict(premises=[], conclusions=[parse_formula(p) for p in parts])
    if len(bars) != 1:
        raise SchemaSyntax('several inference bars')
    b = bars[0]
    prem_lines, conc_lines = lines[:b], lines[b + 1:]
    if len(conc_lines) != 1 or not prem_lines:
        raise SchemaSyntax('inference figure needs premises and exactly one conclusion line')
    premises = []
    for ln in prem_lines:
        for part in re.split(r'\s{2,}', ln):
            premises.append(parse_formula(part))
    return dict(premises=premises, conclusions=[parse_formula(conc_lines[0])])


def bind_schema(sch, pat_params, n_thunks, name='?'):
    """Relate schema variables to the method's Pattern parameters.
    A variable that has the NAME of a Pattern parameter is that parameter (also when a premise mentions it:
    `_prop2_mp(p, q, r, qr_pf)` documents `q -> r |- (p -> q) -> (p -> r)`, the premise must then be about the
    patterns passed).  The other variables occurring in a premise are determined by the premise thunks.  What is
    left is related positionally (alphabetical order of the variables vs. order of the remaining parameters:
    `or_distr_r_rev(pat1, pat2, pat3)` documents `(a \\/ c) /\\ (b \\/ c) -> (a /\\ b) \\/ c`).
    -> (dict var -> param name, premise-determined variables)."""
    if len(sch['premises']) != n_thunks:
        raise SchemaMismatch(f'{name}: {len(sch["premises"])} premises in the docstring, '
                             f'{n_thunks} ProofThunk parameters')
    prem_all = []
    for p in sch['premises']:
        fvars(p, prem_all)
    allv = list(prem_all)
    for c in sch['conclusions']:
        fvars(c, allv)
    binding = {v: v for v in allv if v in pat_params}
    prem_vars = [v for v in prem_all if v not in binding]
    rest_params = [p for p in pat_params if p not in binding.values()]
    rest_vars = sorted(v for v in allv if v not in binding and v not in prem_vars)
    if len(rest_vars) != len(rest_params):
        raise SchemaMismatch(f'{name}: schema variables {rest_vars} cannot be related to Pattern '
                             f'parameters {rest_params}')
    for v, p in zip(rest_vars, rest_params):
        binding[v] = p
    return binding, prem_vars


def to_coq(f, var):
    """Gallina text of the EXPANDED pattern; var: name -> Gallina identifier"""
    k = f[0]
    if k == 'var':
        return var(f[1])
    if k == 'bot':
        return 'p_bot'
    if k == 'top':
        return 'p_top'
    if k == 'neg':
        return f'(p_neg {to_coq(f[1], var)})'
    head = {'imp': 'Imp', 'and': 'p_and', 'or': 'p_or', 'equiv': 'p_equiv'}[k]
    return f'({head} {to_coq(f[1], var)} {to_coq(f[2], var)})'


# ---- expanded-pattern view used by the harness oracle (patterns as nested tuples, see c10.py) ----
BOT = ('mu', 0, ('sv', 0))


def expand_formula(f, env):
    """instantiate a schema formula at env: var -> expanded pattern tuple"""
    k = f[0]
    if k == 'var':
        return env[f[1]]
    if k == 'bot':
        return BOT
    if k == 'top':
        return ('imp', BOT, BOT)
    if k == 'neg':
        return ('imp', expand_formula(f[1], env), BOT)
    a, b = expand_formula(f[1], env), expand_formula(f[2], env)
    if k == 'imp':
        return ('imp', a, b)
    if k == 'and':
        return ('imp', ('imp', a, ('imp', b, BOT)), BOT)
    if k == 'or':
        return ('imp', ('imp', a, BOT), b)
    if k == 'equiv':
        x, y = ('imp', a, b), ('imp', b, a)
        return ('imp', ('imp', x, ('imp', y, BOT)), BOT)
    raise ValueError(k)


def match_formula(f, p, env):
    """match a schema formula against an expanded pattern; extends env; False on mismatch"""
    k = f[0]
    if k == 'var':
        if f[1] in env:
            return env[f[1]] == p
        env[f[1]] = p
        return True
    if k == 'bot':
        return p == BOT
    if k == 'top':
        return p == ('imp', BOT, BOT)
    if k == 'neg':
        return p[0] == 'imp' and p[2] == BOT and match_formula(f[1], p[1], env)
    if k == 'imp':
        return p[0] == 'imp' and match_formula(f[1], p[1], env) and match_formula(f[2], p[2], env)
    if k == 'and':
        return match_formula(('neg', ('imp', f[1], ('neg', f[2]))), p, env)
    if k == 'or':
        return match_formula(('imp', ('neg', f[1]), f[2]), p, env)
    if k == 'equiv':
        return match_formula(('and', ('imp', f[1], f[2]), ('imp', f[2], f[1])), p, env)
    raise ValueError(k)

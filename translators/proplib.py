"""Fail-closed translator: straight-line derived rules of `Propositional` / `Tautology`
(generation/src/proof_generation/proofs/propositional.py, tautology.py) -> coq/Gen/PropLib.v.

For every method (except the ones listed in ALGORITHMIC: the decision procedure and its recursive
helpers, hand-modelled for C09) it emits

  * one Gallina function  (a builder of `thunk` = proof term + stored conclusion, Lib/Term.v),
  * `Lemma <m>_spec`  whose STATEMENT comes from the method's docstring schema (translators/schema.py)
    or, when the docstring is not a schema, from `Definition <m>_stmt` in coq/Lib/Extra.v,
  * `Lemma <m>_wf`    (replaying the returned term gives the stored conclusion),

all proved by the generic tactics of Lib/Tactics.v so that regenerated text re-proves by itself.

Accepted Python subset (anything else raises Unsupported naming the node):
  parameters      `x: Pattern [= phi0|phi1|phi2]`, `x: ProofThunk`; return annotation ProofThunk
  statements      docstring;  `a, b = Implies.extract(E)`;  `a, b = N.assert_matches(E)`;
                  `a = N.assert_matches(E)[0]`;  `x = E`;  `x: T = y`;  `assert A == B`;
                  `s = match_single(A, B, {})` followed by `assert s is not None`;
                  expression statements `E.conc` / `Implies.extract(E)`;  `return E`
  pattern exprs   names, phi0/1/2, MetaVar(k), Implies/neg/bot/top/_and/_or/equiv(...), `T.conc`
  thunk exprs     names, self.<method>(...), self.prop1/2/3(), self.modus_ponens(a, b),
                  self.dynamic_inst(T, _build_subst([...]) | <subst name>), self.load_axiom_by_index(k)
"""
from __future__ import annotations

import ast
import hashlib
import json
import os
import re
import sys

sys.path.insert(0, os.path.dirname(os.path.abspath(__file__)))
import schema as S  # noqa: E402

# the decision procedure (C09's hand-written model Taut/), its recursive / looping helpers, and the two
# wrappers that only forward to the algorithmic `ac_move_to_front`
ALGORITHMIC = {
    '__init__', 'is_propositional', 'to_conj_form', 'propag_neg', 'to_cnf', 'to_clauses',
    'conjunction_implies_nth', 'ac_move_to_front', 'or_move_to_front', 'and_move_to_front',
    'reduce_n_or_duplicates_at_front', 'simplify_clause', 'resolvable', 'merge_clauses',
    'resolution_algorithm', 'is_trivial_clause', 'prove_trivial_clause', 'build_proof_from_hint',
    'start_resolution_algorithm', 'prove_tautology',
}
SOURCES = [('Propositional', 'proofs/propositional.py', None),
           ('Tautology', 'tautology.py', 'Propositional'),
           ('Substitution', 'proofs/substitution.py', None),
           ('SmallTheory', 'proofs/small_theory.py', None)]
# rule-library files without any lemma method (reported in the index; nothing to translate)
NO_METHOD_FILES = [('KoreLemmas', 'proofs/kore.py'), ('Definedness', 'proofs/definedness.py')]
MODULE_OF = {'proofs/propositional.py': 'proof_generation.proofs.propositional', 'tautology.py': 'proof_generation.tautology',
             'proofs/substitution.py': 'proof_generation.proofs.substitution',
             'proofs/small_theory.py': 'proof_generation.proofs.small_theory'}

NOTATION_CTORS = {'Implies': ('Imp', 2), 'neg': ('p_neg', 1), 'bot': ('p_bot', 0), 'top': ('p_top', 0),
                  '_and': ('p_and', 2), '_or': ('p_or', 2), 'equiv': ('p_equiv', 2)}
EXTRACTORS = {'Implies.extract': ('extract_imp', 2), 'neg.assert_matches': ('match_neg', 1),
              '_and.assert_matches': ('match_and', 2), '_or.assert_matches': ('match_or', 2),
              'equiv.assert_matches': ('match_equiv', 2)}
PHI = {'phi0': 0, 'phi1': 1, 'phi2': 2}
COQ_RESERVED = {'pat', 'thunk', 'conc', 'mp', 'fun', 'forall', 'exists', 'match', 'with', 'end', 'let', 'in',
                'if', 'then', 'else', 'as', 'at', 'fix', 'cofix', 'return', 'Type', 'Prop', 'Set', 'using', 'where'}


CTY = {'pat': 'pat', 'thunk': 'thunk', 'evar': 'N'}
# (python name, parameter types, Gallina function, documented rule)
PRIMITIVES = [('modus_ponens', ['thunk', 'thunk'], 'mp', 'p -> q    p\n----------\nq'),
              # dynamic_inst(pf, delta): conclusion = pf.conc instantiated by delta (oracle: sequential instantiation)
              ('dynamic_inst', ['thunk', 'subst'], 'dynamic_inst', None)]


class Unsupported(Exception):
    def __init__(self, where, node, why):
        self.where, self.node, self.why = where, node, why
        src = ast.unparse(node) if isinstance(node, ast.AST) else str(node)
        line = getattr(node, 'lineno', '?')
        super().__init__(f'{where}: line {line}: {why}: `{src[:160]}`')


def v(name):
    return 'v_' + name


class Method:
    def __init__(self, cls, node, src_text):
        self.cls, self.node, self.name = cls, node, node.name
        self.src = ast.get_source_segment(src_text, node) or ''
        self.sha = hashlib.sha256(self.src.encode()).hexdigest()[:16]
        self.params = []       # (name, 'pat'|'thunk', default phi index or None)
        self.doc = ast.get_docstring(node)
        self.calls = []
        self.body_coq = None
        self.schema = None
        self.binding = None
        self.prem_vars = None
        self.spec_kind = None  # 'docstring' | 'extra' | None
        self.uses_gen = False
        self.inst_params = set()   # ProofThunk parameters the method re-instantiates (dynamic_inst(h, <map>))
        self.where = f'{cls}.{self.name}'

    def parse_signature(self):
        a = self.node.args
        if a.vararg or a.kwarg or a.kwonlyargs or a.posonlyargs:
            raise Unsupported(self.where, self.node.args, 'unsupported parameter kind')
        args = a.args
        if not args or args[0].arg != 'self':
            raise Unsupported(self.where, self.node, 'first parameter is not self')
        defaults = [None] * (len(args) - 1 - len(a.defaults)) + list(a.defaults)
        for arg, d in zip(args[1:], defaults):
            ann = ast.unparse(arg.annotation) if arg.annotation is not None else None
            if ann == 'Pattern':
                ty = 'pat'
            elif ann == 'ProofThunk':
                ty = 'thunk'
            elif ann == 'EVar':
                ty = 'evar'
            else:
                raise Unsupported(self.where, arg, f'parameter type {ann!r} is outside the subset')
            dv = None
            if d is not None:
                if isinstance(d, ast.Name) and d.id in PHI and ty == 'pat':
                    dv = PHI[d.id]
                else:
                    raise Unsupported(self.where, d, 'default value is not phi0/phi1/phi2')
            self.params.append((arg.arg, ty, dv))
        ret = ast.unparse(self.node.returns) if self.node.returns is not None else None
        if ret != 'ProofThunk':
            raise Unsupported(self.where, self.node.returns or self.node, f'return type {ret!r} is not ProofThunk')


class Translator:
    def __init__(self, methods, class_parent, class_axioms):
        self.methods = methods           # name -> Method (all classes; names are unique)
        self.class_parent = class_parent
        self.class_axioms = class_axioms  # cls -> coq name of its axiom list
        self.submodules = {}              # cls -> {attribute: class of the imported module}
        self.cls_file = {}                # cls -> source file (relative)
        self.module_names = {}            # cls -> set of module-level assigned names
        self.symbols = {}                 # Symbol name -> id used in the Coq model
        self.repo_src = None
        self._modules = {}

    # ---- symbols and module-level pattern constants (by reflection: data, not code) ---------------
    def sym_id(self, name):
        if name not in self.symbols:
            mo = re.fullmatch(r's(\d+)', name)
            if mo and int(mo.group(1)) < 100:
                self.symbols[name] = int(mo.group(1))
            else:
                self.symbols[name] = 100 + len([k for k in self.symbols if not re.fullmatch(r's(\d+)', k)])
                if self.symbols[name] > 255:
                    raise Unsupported('symbols', name, 'more than 156 named symbols')
        return self.symbols[name]

    def int_value(self, m, e):
        """an int literal, or a module-level name that is bound once to an int literal and never rebound"""
        if isinstance(e, ast.Constant) and isinstance(e.value, int) and not isinstance(e.value, bool):
            return e.value
        if isinstance(e, ast.Name) and e.id in getattr(self, 'module_ints', {}).get(m.cls, {}):
            return self.module_ints[m.cls][e.id]
        return None

    def reflect(self, m, e):
        """value of the module-level name `e.id` in the module of m's class, as a Gallina pattern literal"""
        import importlib
        modname = MODULE_OF[self.cls_file[m.cls]]
        try:
            if self.repo_src not in sys.path:
                sys.path.insert(0, self.repo_src)
            if modname not in self._modules:
                self._modules[modname] = importlib.import_module(modname)
            obj = getattr(self._modules[modname], e.id)
            from proof_generation import pattern as P
        except Exception as ex:  # noqa: BLE001
            raise Unsupported(m.where, e, f'module-level name cannot be evaluated ({type(ex).__name__}: {ex})')
        if not isinstance(obj, P.Pattern):
            raise Unsupported(m.where, e, 'module-level name is not a Pattern')

        def go(p):
            while isinstance(p, P.Instantiate):
                p = p.simplify()
            if isinstance(p, P.EVar):
                return f'(EVar {p.name})'
            if isinstance(p, P.SVar):
                return f'(SVar {p.name})'
            if isinstance(p, P.Symbol):
                return f'(Sym {self.sym_id(p.name)})'
            if isinstance(p, P.Implies):
                return f'(Imp {go(p.left)} {go(p.right)})'
            if isinstance(p, P.App):
                return f'(App {go(p.left)} {go(p.right)})'
            if isinstance(p, P.Exists):
                return f'(Ex {p.var} {go(p.subpattern)})'
            if isinstance(p, P.Mu):
                return f'(Mu {p.var} {go(p.subpattern)})'
            if isinstance(p, P.MetaVar):
                ls = ' '.join('[' + '; '.join(str(x.name) for x in l) + ']'
                              for l in (p.e_fresh, p.s_fresh, p.positive, p.negative, p.app_ctx_holes))
                return f'(MVar {p.name} {ls})'
            if isinstance(p, P.ESubst):
                return f'(ESub {go(p.pattern)} {p.var.name} {go(p.plug)})'
            if isinstance(p, P.SSubst):
                return f'(SSub {go(p.pattern)} {p.var.name} {go(p.plug)})'
            raise Unsupported(m.where, e, f'pattern node {type(p).__name__}')
        return go(obj)

    # ---- expressions ---------------------------------------------------------------------------
    def pat_expr(self, m, e, env, hoist):
        """-> Gallina text of a pattern expression; `.conc` of thunks is hoisted into `hoist`"""
        if isinstance(e, ast.Name):
            if e.id in env:
                if env[e.id] != 'pat':
                    raise Unsupported(m.where, e, f'`{e.id}` is a {env[e.id]}, a Pattern is needed')
                return v(e.id)
            if e.id in PHI:
                return f'(phi {PHI[e.id]})'
            if e.id in self.module_names.get(m.cls, ()):
                return self.reflect(m, e)
            raise Unsupported(m.where, e, 'unknown name in pattern position')
        if isinstance(e, ast.Attribute) and e.attr == 'conc':
            t = self.thunk_expr(m, e.value, env, hoist)
            name = f'c{len(hoist)}_' + re.sub(r'\W', '', ast.unparse(e.value))[:20]
            hoist.append((name, t))
            return v(name)
        if isinstance(e, ast.Call) and isinstance(e.func, ast.Name):
            f = e.func.id
            if e.keywords:
                raise Unsupported(m.where, e, 'keyword arguments')
            if f in NOTATION_CTORS:
                cname, ar = NOTATION_CTORS[f]
                if len(e.args) != ar:
                    raise Unsupported(m.where, e, f'{f} takes {ar} arguments')
                if ar == 0:
                    return cname
                return '(' + cname + ' ' + ' '.join(self.pat_expr(m, a, env, hoist) for a in e.args) + ')'
            if f == 'MetaVar' and len(e.args) == 1 and self.int_value(m, e.args[0]) is not None \
                    and 0 <= self.int_value(m, e.args[0]) < 256:
                return f'(phi {self.int_value(m, e.args[0])})'

            def lit(a, what):
                iv = self.int_value(m, a)
                if iv is not None and 0 <= iv < 256:
                    return iv
                raise Unsupported(m.where, e, f'{what} is not a literal id')
            if f in ('EVar', 'SVar') and len(e.args) == 1:
                return f'({f} {lit(e.args[0], f)})'
            if f == 'Symbol' and len(e.args) == 1 and isinstance(e.args[0], ast.Constant) and isinstance(e.args[0].value, str):
                return f'(Sym {self.sym_id(e.args[0].value)})'
            if f == 'App' and len(e.args) == 2:
                return '(App ' + ' '.join(self.pat_expr(m, a, env, hoist) for a in e.args) + ')'
            if f in ('Exists', 'Mu') and len(e.args) == 2:
                return f"({'Ex' if f == 'Exists' else 'Mu'} {lit(e.args[0], f)} {self.pat_expr(m, e.args[1], env, hoist)})"
        raise Unsupported(m.where, e, 'pattern expression outside the subset')

    def subst_expr(self, m, e, env, hoist):
        if isinstance(e, ast.Name) and env.get(e.id) == 'subst':
            return v(e.id)
        if isinstance(e, ast.Call) and isinstance(e.func, ast.Name) and e.func.id == '_build_subst' \
                and len(e.args) == 1 and isinstance(e.args[0], ast.List) and not e.keywords:
            items = [self.pat_expr(m, a, env, hoist) for a in e.args[0].elts]
            return '(build_subst [' + '; '.join(items) + '])'
        raise Unsupported(m.where, e, 'instantiation map outside the subset')

    def evar_expr(self, m, e, env):
        """an `EVar`-typed argument -> Gallina N (the variable's id)"""
        if isinstance(e, ast.Name) and env.get(e.id) == 'evar':
            return v(e.id)
        if isinstance(e, ast.Call) and isinstance(e.func, ast.Name) and e.func.id == 'EVar' and len(e.args) == 1 \
                and not e.keywords and self.int_value(m, e.args[0]) is not None and 0 <= self.int_value(m, e.args[0]) < 256:
            return str(self.int_value(m, e.args[0]))
        raise Unsupported(m.where, e, 'element-variable argument outside the subset')

    def owner_class(self, m, recv):
        """class whose method is called through receiver `self` / `self.<imported module>`"""
        if isinstance(recv, ast.Name) and recv.id == 'self':
            return m.cls
        if isinstance(recv, ast.Attribute) and isinstance(recv.value, ast.Name) and recv.value.id == 'self' \
                and recv.attr in self.submodules.get(m.cls, {}):
            return self.submodules[m.cls][recv.attr]
        return None

    def class_has(self, cls, f):
        while cls is not None:
            if f in self.methods and self.methods[f].cls == cls:
                return True
            cls = self.class_parent.get(cls)
        return False

    def thunk_expr(self, m, e, env, hoist):
        if isinstance(e, ast.Name):
            if env.get(e.id) == 'thunk':
                return v(e.id)
            raise Unsupported(m.where, e, f'`{e.id}` is not a ProofThunk here')
        if isinstance(e, ast.Call) and isinstance(e.func, ast.Attribute):
            owner = self.owner_class(m, e.func.value)
            if owner is None:
                raise Unsupported(m.where, e, 'call receiver is neither self nor an imported module of self')
            via_self = owner == m.cls and isinstance(e.func.value, ast.Name)
            f = e.func.attr
            if e.keywords and not (f in self.methods and self.methods[f].body_coq is not None):
                raise Unsupported(m.where, e, 'keyword arguments')
            if f in ('prop1', 'prop2', 'prop3'):
                if e.args:
                    raise Unsupported(m.where, e, f'{f} takes no arguments')
                return f
            if f == 'modus_ponens':
                if len(e.args) != 2:
                    raise Unsupported(m.where, e, 'modus_ponens takes 2 arguments')
                return '(mp ' + ' '.join(self.thunk_expr(m, a, env, hoist) for a in e.args) + ')'
            if f == 'exists_generalization':
                if len(e.args) != 2:
                    raise Unsupported(m.where, e, 'exists_generalization takes 2 arguments')
                m.uses_gen = True
                return f'(gen {self.thunk_expr(m, e.args[0], env, hoist)} {self.evar_expr(m, e.args[1], env)})'
            if f == 'dynamic_inst':
                if len(e.args) != 2:
                    raise Unsupported(m.where, e, 'dynamic_inst takes 2 arguments')
                if isinstance(e.args[0], ast.Name) and env.get(e.args[0].id) == 'thunk' \
                        and any(pn == e.args[0].id and pt == 'thunk' for pn, pt, _ in m.params):
                    m.inst_params.add(e.args[0].id)
                elif not (isinstance(e.args[1], ast.Call) and isinstance(e.args[1].func, ast.Name)
                          and e.args[1].func.id == '_build_subst'):
                    raise Unsupported(m.where, e, 'dynamic_inst of a computed proof with a computed map')
                return f'(dynamic_inst {self.thunk_expr(m, e.args[0], env, hoist)} {self.subst_expr(m, e.args[1], env, hoist)})'
            if f == 'load_axiom_by_index':
                if not via_self:
                    raise Unsupported(m.where, e, 'axiom of an imported module loaded')
                iv = self.int_value(m, e.args[0]) if len(e.args) == 1 else None
                if iv is None or not 0 <= iv < 1000:
                    raise Unsupported(m.where, e, 'load_axiom_by_index needs a literal index (or a module constant bound once to one)')
                return f'(load_ax_by_index {self.class_axioms[m.cls]} {iv})'
            if f == 'load_axiom':
                if not via_self or len(e.args) != 1:
                    raise Unsupported(m.where, e, 'load_axiom outside the subset')
                h2 = []
                a = self.pat_expr(m, e.args[0], env, h2)
                if h2:
                    raise Unsupported(m.where, e, 'load_axiom of a conclusion')
                return f'(load_ax {self.class_axioms[m.cls]} {a})'
            if f in self.methods:
                if not self.class_has(owner, f):
                    raise Unsupported(m.where, e, f'{f} is not a method of {owner}')
                callee = self.methods[f]
                if callee.body_coq is None and f in ALGORITHMIC:
                    raise Unsupported(m.where, e, f'call of the algorithmic method {f}')
                if callee.body_coq is None and f in getattr(self, 'skipped_private', {}):
                    raise Unsupported(m.where, e, f'call of the private helper {f}, which is outside the subset ({self.skipped_private[f]})')
                if f not in m.calls:
                    m.calls.append(f)
                if len(e.args) > len(callee.params):
                    raise Unsupported(m.where, e, 'too many arguments')
                # keyword arguments = the positional binding by parameter name
                by_pos = list(e.args) + [None] * (len(callee.params) - len(e.args))
                names_ = [pn for pn, _, _ in callee.params]
                for kw in e.keywords:
                    if kw.arg is None or kw.arg not in names_:
                        raise Unsupported(m.where, e, f'keyword argument {kw.arg!r} is not a parameter of {f}')
                    k_ = names_.index(kw.arg)
                    if by_pos[k_] is not None:
                        raise Unsupported(m.where, e, f'argument {kw.arg} given twice')
                    by_pos[k_] = kw.value
                out = []
                for i, (pn, pt, pd) in enumerate(callee.params):
                    if by_pos[i] is not None:
                        a = by_pos[i]
                        out.append(self.pat_expr(m, a, env, hoist) if pt == 'pat' else
                                   self.evar_expr(m, a, env) if pt == 'evar' else self.thunk_expr(m, a, env, hoist))
                    elif pd is not None:
                        out.append(f'(phi {pd})')
                    else:
                        raise Unsupported(m.where, e, f'missing argument {pn} without default')
                return '(' + ' '.join([f] + out) + ')' if out else f
            if f in getattr(self, 'skipped_private', {}):
                raise Unsupported(m.where, e, f'call of the private helper {f}, which is outside the subset ({self.skipped_private[f]})')
            raise Unsupported(m.where, e, f'unknown method {ast.unparse(e.func)}')
        raise Unsupported(m.where, e, 'proof expression outside the subset')

    # ---- statements ----------------------------------------------------------------------------
    def extractor_call(self, m, e, env, hoist):
        """`Implies.extract(E)` / `N.assert_matches(E)` -> (coq extractor, arity, coq argument)"""
        if isinstance(e, ast.Call) and isinstance(e.func, ast.Attribute) and isinstance(e.func.value, ast.Name) \
                and not e.keywords and len(e.args) == 1:
            key = f'{e.func.value.id}.{e.func.attr}'
            if key in EXTRACTORS:
                ex, ar = EXTRACTORS[key]
                a = e.args[0]
                if isinstance(a, ast.Attribute) and a.attr == 'conc':
                    arg = f'(conc {self.thunk_expr(m, a.value, env, hoist)})'
                else:
                    arg = f'(Some {self.pat_expr(m, a, env, hoist)})'
                return ex, ar, arg
        return None

    @staticmethod
    def target_names(m, t, n):
        if n == 1 and isinstance(t, ast.Name):
            return [t.id]
        if isinstance(t, ast.Tuple) and len(t.elts) == n and all(isinstance(x, ast.Name) for x in t.elts):
            return [x.id for x in t.elts]
        raise Unsupported(m.where, t, f'assignment target does not unpack {n} names')

    def translate_body(self, m):
        env = {pn: pt for pn, pt, _ in m.params}
        stmts = list(m.node.body)
        if stmts and isinstance(stmts[0], ast.Expr) and isinstance(stmts[0].value, ast.Constant) \
                and isinstance(stmts[0].value.value, str):
            stmts = stmts[1:]
        lines = []     # each: text with a hole at the end (continuation nests)
        closers = 0
        fresh = [0]

        def emit_hoists(hoist):
            nonlocal closers
            for name, t in hoist:
                lines.append(f'bindc (conc {t}) (fun {v(name)} =>')
                closers += 1

        def pname(n):
            if n == '_':
                fresh[0] += 1
                return f'v_u{fresh[0]}'
            return v(n)

        returned = False
        i = 0
        while i < len(stmts):
            s = stmts[i]
            i += 1
            if returned:
                raise Unsupported(m.where, s, 'statement after return')
            hoist = []
            if isinstance(s, ast.Return):
                if s.value is None:
                    raise Unsupported(m.where, s, 'bare return')
                t = self.thunk_expr(m, s.value, env, hoist)
                emit_hoists(hoist)
                lines.append(t)
                returned = True
            elif isinstance(s, ast.Assert):
                if s.msg is not None:
                    raise Unsupported(m.where, s, 'assert with message')
                t = s.test
                if isinstance(t, ast.Compare) and len(t.ops) == 1 and isinstance(t.ops[0], ast.Eq):
                    a = self.pat_expr(m, t.left, env, hoist)
                    b = self.pat_expr(m, t.comparators[0], env, hoist)
                    emit_hoists(hoist)
                    lines.append(f'guard (pat_eqb {a} {b}) (')
                    closers += 1
                elif isinstance(t, ast.Compare) and len(t.ops) == 1 and isinstance(t.ops[0], ast.IsNot) \
                        and isinstance(t.left, ast.Name) and env.get(t.left.id) == 'optsubst' \
                        and isinstance(t.comparators[0], ast.Constant) and t.comparators[0].value is None:
                    n = t.left.id
                    lines.append(f'bindc {v(n)} (fun {v(n)} =>')
                    closers += 1
                    env[n] = 'subst'
                else:
                    raise Unsupported(m.where, s, 'assert outside the subset')
            elif isinstance(s, ast.Expr):
                e = s.value
                ex = self.extractor_call(m, e, env, hoist)
                if ex is not None:
                    emit_hoists(hoist)
                    fresh[0] += 1
                    lines.append(f'bindc ({ex[0]} {ex[2]}) (fun v_u{fresh[0]} =>')
                    closers += 1
                elif isinstance(e, ast.Attribute) and e.attr == 'conc':
                    self.pat_expr(m, e, env, hoist)
                    emit_hoists(hoist)
                else:
                    raise Unsupported(m.where, s, 'expression statement outside the subset')
            elif isinstance(s, (ast.Assign, ast.AnnAssign)):
                if isinstance(s, ast.Assign):
                    if len(s.targets) != 1:
                        raise Unsupported(m.where, s, 'chained assignment')
                    target, value = s.targets[0], s.value
                else:
                    target, value = s.target, s.value
                    if value is None:
                        raise Unsupported(m.where, s, 'annotation without value')
                # a, b = extractor(E)
                ex = self.extractor_call(m, value, env, hoist)
                if ex is not None:
                    names = self.target_names(m, target, ex[1])
                    emit_hoists(hoist)
                    if ex[1] == 2:
                        lines.append(f"bindc ({ex[0]} {ex[2]}) (fun '({pname(names[0])}, {pname(names[1])}) =>")
                    elif ex[1] == 1 and isinstance(target, ast.Tuple):
                        # `(p,) = N.assert_matches(x)` is `p = N.assert_matches(x)[0]` (the notation has arity 1)
                        lines.append(f'bindc ({ex[0]} {ex[2]}) (fun {pname(names[0])} =>')
                    else:
                        # `(a,) = N.assert_matches(..)` is not in the library; a 1-tuple result bound to a name
                        raise Unsupported(m.where, s, 'whole 1-tuple of assert_matches bound to a name')
                    closers += 1
                    for n in names:
                        if n != '_':
                            env[n] = 'pat'
                    continue
                # a = N.assert_matches(E)[0]
                if isinstance(value, ast.Subscript) and isinstance(value.slice, ast.Constant) and value.slice.value == 0:
                    ex = self.extractor_call(m, value.value, env, hoist)
                    if ex is not None and ex[1] == 1:
                        names = self.target_names(m, target, 1)
                        emit_hoists(hoist)
                        lines.append(f'bindc ({ex[0]} {ex[2]}) (fun {pname(names[0])} =>')
                        closers += 1
                        env[names[0]] = 'pat'
                        continue
                    raise Unsupported(m.where, s, 'subscript outside the subset')
                names = self.target_names(m, target, 1)
                n = names[0]
                # s = match_single(A, B, {})
                if isinstance(value, ast.Call) and isinstance(value.func, ast.Name) and value.func.id == 'match_single':
                    if len(value.args) != 3 or value.keywords or not isinstance(value.args[2], ast.Dict) or value.args[2].keys:
                        raise Unsupported(m.where, s, 'match_single call outside the subset')
                    a = self.pat_expr(m, value.args[0], env, hoist)
                    b = self.pat_expr(m, value.args[1], env, hoist)
                    emit_hoists(hoist)
                    lines.append(f'let {v(n)} := match_single {a} {b} [] in')
                    env[n] = 'optsubst'
                    continue
                # x = <name of a subst>   (the `actual_subst: dict[int, Pattern] = subst` idiom)
                if isinstance(value, ast.Name) and env.get(value.id) in ('subst', 'thunk', 'pat'):
                    lines.append(f'let {v(n)} := {v(value.id)} in')
                    env[n] = env[value.id]
                    continue
                if isinstance(value, ast.Name) and env.get(value.id) == 'optsubst':
                    raise Unsupported(m.where, s, 'possibly-None match result used without `assert ... is not None`')
                # x = pattern or thunk expression
                try:
                    h2 = []
                    t = self.pat_expr(m, value, env, h2)
                    ty = 'pat'
                except Unsupported as e1:
                    try:
                        h2 = []
                        t = self.thunk_expr(m, value, env, h2)
                        ty = 'thunk'
                    except Unsupported as e2:
                        raise e2 if 'pattern expression outside' in e1.why or 'unknown name' in e1.why else e1
                emit_hoists(h2)
                lines.append(f'let {v(n)} := {t} in')
                env[n] = ty
            else:
                raise Unsupported(m.where, s, f'statement {type(s).__name__} is outside the subset')
        if not returned:
            raise Unsupported(m.where, m.node, 'method does not end in a return')
        body = '\n    '.join(lines) + ')' * closers
        return body


# ------------------------------------------------------------------------------------------------

def read_extra(extra_path):
    """names with a hand-written statement `<m>_stmt` / proof tactic `<m>_proof` in Lib/Extra.v"""
    try:
        src = open(extra_path).read()
    except FileNotFoundError:
        return set(), set(), set()
    stmts = set(re.findall(r'^\s*Definition\s+(\w+)_stmt\b', src, re.M))
    tacs = set(re.findall(r'^\s*Ltac\s+(\w+)_proof\b', src, re.M))
    wf_tacs = {t[:-3] for t in tacs if t.endswith('_wf')}
    return stmts, tacs - {t for t in tacs if t.endswith('_wf')}, wf_tacs


def class_axioms(cls, node, tr_dummy, where):
    """axiom list a class declares in __init__: `super().__init__(axioms=[...])` and
    `self._axioms.extend([...])` -> list of ast pattern expressions"""
    out, inherits = [], False
    init = next((n for n in node.body if isinstance(n, ast.FunctionDef) and n.name == '__init__'), None)
    if init is None:
        return out, True
    local = {}
    for s in init.body:
        if isinstance(s, ast.Assign) and len(s.targets) == 1 and isinstance(s.targets[0], ast.Name):
            local[s.targets[0].id] = s.value
    for s in ast.walk(init):
        if isinstance(s, ast.Assign) and len(s.targets) == 1 and ast.unparse(s.targets[0]) == 'self._axioms':
            if not isinstance(s.value, ast.List) or out:
                raise Unsupported(where, s, '`self._axioms = ...` is not a single list literal')
            out += [local.get(e.id, e) if isinstance(e, ast.Name) else e for e in s.value.elts]
        if isinstance(s, ast.Call) and isinstance(s.func, ast.Attribute) and s.func.attr == '__init__':
            for kw in s.keywords:
                if kw.arg == 'axioms':
                    if not isinstance(kw.value, ast.List):
                        raise Unsupported(where, kw.value, 'axioms= is not a list literal')
                    out += kw.value.elts
            if not s.keywords:
                inherits = True
        if isinstance(s, ast.Call) and isinstance(s.func, ast.Attribute) and s.func.attr in ('extend', 'append') \
                and ast.unparse(s.func.value) == 'self._axioms':
            if s.func.attr == 'extend':
                if len(s.args) != 1 or not isinstance(s.args[0], ast.List):
                    raise Unsupported(where, s, '_axioms.extend argument is not a list literal')
                out += s.args[0].elts
            else:
                out += s.args
        if isinstance(s, ast.Call) and isinstance(s.func, ast.Attribute) and s.func.attr in ('add_axiom', 'add_axioms', 'add_assumption', 'add_assumptions'):
            raise Unsupported(where, s, 'axioms added outside the recognised forms')
    return out, inherits


def translate(repo_src, extra_path):
    """-> ((definitions text, specs text), index dict).  Raises Unsupported (fail closed)."""
    methods, order = {}, []
    class_parent, cls_nodes, cls_src = {}, {}, {}
    cls_file, module_names, submodules = {}, {}, {}
    decorated_private = {}
    module_ints = {}
    for cls, rel, parent in SOURCES:
        path = os.path.join(repo_src, 'proof_generation', rel)
        text = open(path).read()
        tree = ast.parse(text)
        node = next((n for n in tree.body if isinstance(n, ast.ClassDef) and n.name == cls), None)
        if node is None:
            raise Unsupported(rel, tree, f'class {cls} not found')
        bases = [ast.unparse(b) for b in node.bases]
        exp = 'ProofExp' if parent is None else parent
        if bases != [exp]:
            raise Unsupported(cls, node, f'bases {bases} (expected [{exp}])')
        class_parent[cls] = parent
        cls_nodes[cls], cls_src[cls] = node, text
        cls_file[cls] = rel
        module_names[cls] = {t.id for st in tree.body if isinstance(st, ast.Assign) for t in st.targets if isinstance(t, ast.Name)}
        module_ints[cls] = module_int_constants(tree)
        submodules[cls] = {}
        init = next((n for n in node.body if isinstance(n, ast.FunctionDef) and n.name == '__init__'), None)
        for st in (ast.walk(init) if init is not None else []):
            # self.<attr> = self.import_module(<Class>())
            if isinstance(st, ast.Assign) and len(st.targets) == 1 and isinstance(st.targets[0], ast.Attribute) \
                    and isinstance(st.targets[0].value, ast.Name) and st.targets[0].value.id == 'self' \
                    and isinstance(st.value, ast.Call) and ast.unparse(st.value.func) == 'self.import_module':
                a = st.value.args[0] if len(st.value.args) == 1 else None
                if not (isinstance(a, ast.Call) and isinstance(a.func, ast.Name) and not a.args and not a.keywords):
                    raise Unsupported(f'{cls}.__init__', st, 'import_module argument is not `Class()`')
                submodules[cls][st.targets[0].attr] = a.func.id
        for n in node.body:
            if isinstance(n, ast.FunctionDef):
                if n.name == '__init__':
                    continue
                if n.decorator_list and n.name in ALGORITHMIC:
                    mt = Method(cls, n, text)          # outside the translated set anyway: decorators are irrelevant
                    methods[n.name] = mt
                    order.append(n.name)
                    continue
                if n.decorator_list:
                    if n.name.startswith('_'):
                        decorated_private[n.name] = f'{cls}.{n.name}: decorated ({ast.unparse(n.decorator_list[0])})'
                        continue
                    raise Unsupported(f'{cls}.{n.name}', n, 'decorated method')
                if n.name in methods:
                    raise Unsupported(f'{cls}.{n.name}', n, 'method defined twice / overridden')
                mt = Method(cls, n, text)
                methods[n.name] = mt
                order.append(n.name)
            elif isinstance(n, (ast.Expr, ast.Pass)):
                continue
            else:
                raise Unsupported(cls, n, 'class-level statement outside the subset')
        # module level: _build_subst must be the known function
    ptext = cls_src['Propositional']
    ptree = ast.parse(ptext)
    bs = next((n for n in ptree.body if isinstance(n, ast.FunctionDef) and n.name == '_build_subst'), None)
    BUILD_SUBST_REF = ("def _build_subst(pats):\n    ret = {}\n    for i, p in enumerate(pats):\n"
                       "        if p != MetaVar(i):\n            ret[i] = p\n    return ret")
    if bs is None:
        raise Unsupported('propositional.py', ptree, '_build_subst not found')
    BUILD_SUBST_REF2 = ("def _build_subst(pats):\n    return {i: p for i, p in enumerate(pats) if p != MetaVar(i)}")
    if ast.unparse(strip_annotations(bs)) not in (BUILD_SUBST_REF, BUILD_SUBST_REF2):
        raise Unsupported('propositional._build_subst', bs, 'helper differs from the modelled text (Lib/Term.v build_subst)')

    # Private methods (leading underscore) advertise nothing: they are helpers.  A private method that is outside
    # the subset is skipped (it can only matter if a translated method calls it: that call then aborts).
    skipped_private = dict(decorated_private)
    translated = []
    for n in order:
        if n in ALGORITHMIC:
            continue
        try:
            methods[n].parse_signature()
            translated.append(n)
        except Unsupported as e:
            if not n.startswith('_'):
                raise
            skipped_private[n] = str(e)

    # class axioms
    class_ax_name = {}
    tr = Translator(methods, class_parent, class_ax_name)
    tr.submodules, tr.cls_file, tr.module_names, tr.repo_src = submodules, cls_file, module_names, repo_src
    tr.module_ints = module_ints
    for cls in submodules:
        for attr, target in submodules[cls].items():
            if target not in class_parent:
                raise Unsupported(f'{cls}.__init__', cls_nodes[cls], f'imported module {target} is not a translated class')
    ax_defs = []
    for cls, _, parent in SOURCES:
        elts, _inh = class_axioms(cls, cls_nodes[cls], tr, cls)
        nm = cls.lower() + '_axioms'
        class_ax_name[cls] = nm
        dummy = Method(cls, cls_nodes[cls].body[0] if isinstance(cls_nodes[cls].body[0], ast.FunctionDef)
                       else next(n for n in cls_nodes[cls].body if isinstance(n, ast.FunctionDef)), cls_src[cls])
        dummy.where = f'{cls}.__init__'
        items = []
        for e in elts:
            h = []
            items.append(tr.pat_expr(dummy, e, {}, h))
            if h:
                raise Unsupported(dummy.where, e, 'axiom mentions a thunk')
        base = (class_ax_name[parent] + ' ++ ') if parent else ''
        ax_defs.append((cls, nm, base + '[' + ';\n   '.join(items) + ']', len(items)))

    # bodies (a first pass in source order to learn the call graph)
    for n in translated:
        m = methods[n]
        m.body_coq = ''   # mark as translatable for callers
    tr.skipped_private = skipped_private
    changed = True
    while changed:          # a private helper that fails takes the private helpers that call it with it
        changed = False
        for n in list(translated):
            m = methods[n]
            m.calls = []
            m.uses_gen = False
            m.inst_params = set()
            try:
                m.body_coq = tr.translate_body(m)
            except Unsupported as e:
                if not n.startswith('_'):
                    raise
                skipped_private[n] = str(e)
                m.body_coq = None
                translated.remove(n)
                changed = True

    # dependency order (stable topological sort; recursion is outside the subset)
    done, out_order, visiting = set(), [], set()

    def visit(n, stack):
        if n in done:
            return
        if n in visiting:
            raise Unsupported(methods[n].where, methods[n].node, 'recursive call chain ' + ' -> '.join(stack + [n]))
        visiting.add(n)
        for c in methods[n].calls:
            visit(c, stack + [n])
        visiting.discard(n)
        done.add(n)
        out_order.append(n)

    for n in translated:
        visit(n, [])
    for n in out_order:
        methods[n].uses_gen = methods[n].uses_gen or any(methods[c].uses_gen for c in methods[n].calls)

    extra_stmts, extra_tacs, extra_wf_tacs = read_extra(extra_path)

    # schemas
    for n in out_order:
        m = methods[n]
        pat_params = [p for p, t, _ in m.params if t == 'pat']
        n_thunks = sum(1 for _, t, _ in m.params if t == 'thunk')
        try:
            sch = S.parse_docstring(m.doc)
            m.schema = sch
            m.binding, m.prem_vars = S.bind_schema(sch, pat_params, n_thunks, m.where)
            m.spec_kind = 'docstring'
        except S.SchemaSyntax:
            m.schema = None
            m.spec_kind = 'extra' if n in extra_stmts else None
        except S.SchemaMismatch as e:
            if not n.startswith('_'):
                raise Unsupported(m.where, m.node.body[0], str(e))
            m.schema = None          # a private helper advertises nothing
            m.spec_kind = 'extra' if n in extra_stmts else None

    # ---- emit ----------------------------------------------------------------------------------
    HEAD = ('(** GENERATED by translators/proplib.py from the current source of\n'
            '    generation/src/proof_generation/proofs/propositional.py and tautology.py.\n'
            '    DO NOT EDIT: rewritten by every `./check C10` run.\n    %s *)')
    d = []      # Gen/PropLib.v: definitions only (extracted for the correspondence check)
    o = []      # Gen/PropLibSpec.v: statements and proofs
    d.append(HEAD % 'Definitions: one Gallina function per library method + dispatcher.')
    d.append('From Coq Require Import NArith List Bool.')
    d.append('From Pi2 Require Import ML.Syntax ML.Subst Lib.Term.')
    d.append('Import ListNotations.\nOpen Scope N_scope.\n')
    o.append(HEAD % 'Statements (from the docstring schemas / Lib/Extra.v) and their proofs.')
    o.append('From Coq Require Import NArith List Bool.')
    o.append('From Pi2 Require Import ML.Syntax ML.Subst Lib.Term Lib.TermFacts Lib.Tactics Lib.Extra Lib.Embed Lib.ReplayTactics Gen.PropLib.')
    o.append('Import ListNotations.\nOpen Scope N_scope.\n')
    for cls, nm, body, k in ax_defs:
        d.append(f'(** {cls}._axioms as built by {cls}.__init__ *)')
        d.append(f'Definition {nm} : list pat :=\n  {body}.\n')
        par = class_parent[cls]
        if par:
            o.append(f'Lemma {nm}_parent : forall axs, ax_incl {nm} axs -> ax_incl {class_ax_name[par]} axs.\n'
                     f'Proof. intros axs H. eapply ax_incl_app_l. exact H. Qed.\n'
                     f'#[global] Hint Resolve {nm}_parent : plwf.\n#[global] Hint Resolve {nm}_parent : plgok.\n')
        if k == 0 and not par:
            o.append(f'Lemma {nm}_any : forall axs, ax_incl {nm} axs.\nProof. intros axs x H. discriminate. Qed.\n'
                     f'#[global] Hint Resolve {nm}_any : plwf.\n#[global] Hint Resolve {nm}_any : plgok.\n')
    spec_names, wf_names, unspecified = [], [], []
    gok_names, replay_names = [], []
    for n in out_order:
        m = methods[n]
        params = ' '.join(f'({v(pn)} : {CTY[pt]})' for pn, pt, _ in m.params)
        d.append(f'(** {m.where}  (source sha256/16 {m.sha}) *)')
        d.append(f'Definition {n} {params} : thunk :=\n    {m.body_coq}.\n'.replace(f'{n}  :', f'{n} :'))
        o.append(f'(** {m.where} *)')
        args = ' '.join(v(pn) for pn, _, _ in m.params)
        call = f'({n} {args})' if args else n
        thunks = [pn for pn, pt, _ in m.params if pt == 'thunk']
        # spec
        if m.spec_kind == 'docstring':
            sch = m.schema

            def var(x, m=m):
                return v(m.binding[x]) if x in m.binding else 's_' + x
            qs = ' '.join(f'({v(pn)} : {CTY[pt]})' for pn, pt, _ in m.params)
            svars = ' '.join('s_' + x for x in m.prem_vars)
            binder = 'forall ' + qs + (f' ({svars} : pat)' if svars else '') + ', ' if (qs or svars) else ''
            hyps = ''.join(f'conc {v(t)} = Some {S.to_coq(p, var)} ->\n    ' for t, p in zip(thunks, sch['premises']))
            for k, c in enumerate(sch['conclusions']):
                lname = f'{n}_spec' if k == 0 else f'{n}_spec_alt{k}'
                o.append(f'Lemma {lname} :\n  {binder}{hyps}conc {call} = Some {S.to_coq(c, var)}.')
                o.append(f'Proof. lib_spec {n}. Qed.')
                if k == 0:
                    o.append(f'#[global] Hint Resolve {lname} : pl.')
                spec_names.append(lname)
        elif m.spec_kind == 'extra':
            o.append(f'Lemma {n}_spec : {n}_stmt {n}.')
            if n in extra_tacs:
                o.append(f'Proof. unfold {n}_stmt. {n}_proof {n}. Qed.')
            else:
                o.append(f'Proof. unfold {n}_stmt. lib_spec {n}. Qed.')
            o.append(f'Definition {n}_spec_u := ltac:(let t := eval unfold {n}_stmt in ({n}_stmt {n}) in exact ({n}_spec : t)).')
            o.append(f'#[global] Hint Resolve {n}_spec_u : pl.')
            spec_names.append(f'{n}_spec')
        else:
            if not n.startswith('_'):
                raise Unsupported(m.where, m.node, 'public rule without an advertised schema: its docstring is not a schema '
                                  f'and Lib/Extra.v has no {n}_stmt')
            unspecified.append(n)
            o.append(f'(* private helper without a schema of its own: inlined ([Hint Unfold]) in the proofs of its callers *)')
            o.append(f'#[global] Hint Unfold {n} : plunf.')
        # wf (g: is Generalization allowed when the stored conclusion is re-checked)
        qs = ' '.join(f'({v(pn)} : {CTY[pt]})' for pn, pt, _ in m.params)
        gflag = 'true' if m.uses_gen else 'g'
        gbind = '' if m.uses_gen else '(g : bool) '
        hy = ''.join(f'owf {gflag} axs {v(t)} -> ' for t in thunks)
        o.append(f'Lemma {n}_wf :\n  forall {gbind}(axs : list pat) {qs}, ax_incl {class_ax_name[m.cls]} axs -> '
                 f'{hy}owf {gflag} axs {call}.')
        o.append(f'Proof. {n}_wf_proof {n}. Qed.' if n in extra_wf_tacs else f'Proof. lib_wf {n}. Qed.')
        o.append(f'#[global] Hint Resolve {n}_wf : plwf.')
        wf_names.append(f'{n}_wf')
        # gok: the returned thunk meets C02's checker-side conditions; replays: compiled bytes execute
        incl = f'ax_incl {class_ax_name[m.cls]} axs -> '
        pats_ok = ''.join(f'pwf {v(pn)} = true -> ' for pn, pt, _ in m.params if pt == 'pat')

        def gokh(t, m=m):
            return f'gok axs {v(t)} -> ' + (f'csimple {v(t)} -> ' if t in m.inst_params else '')
        hy_gok = ''.join(gokh(t) for t in thunks)
        o.append(f'Lemma {n}_gok :\n  forall (axs : list pat) {qs}, {incl}{pats_ok}{hy_gok}gok axs {call}.')
        o.append(f'Proof. lib_gok {n}. Qed.')
        o.append(f'#[global] Hint Resolve {n}_gok : plgok.')
        gok_names.append(f'{n}_gok')
        if m.spec_kind == 'docstring':
            def var2(x, m=m):
                return v(m.binding[x]) if x in m.binding else 's_' + x
            svars = ' '.join('s_' + x for x in m.prem_vars)
            hyps = ''.join(f'conc {v(t)} = Some {S.to_coq(p_, var2)} -> {gokh(t)}\n    '
                           for t, p_ in zip(thunks, m.schema['premises']))
            o.append(f'Lemma {n}_replays :\n  forall (axs : list pat) {qs}' + (f' ({svars} : pat)' if svars else '') +
                     f', {incl}{pats_ok}\n    {hyps}compiles_to axs {call} {S.to_coq(m.schema["conclusions"][0], var2)}.')
            o.append(f'Proof. lib_replays {n}_spec {n}_gok. Qed.')
            replay_names.append(f'{n}_replays')
        elif m.spec_kind == 'extra':
            o.append(f'Lemma {n}_replays :\n  forall (axs : list pat) {qs} (s : pat), {incl}{pats_ok}{hy_gok}\n    '
                     f'conc {call} = Some s -> compiles_to axs {call} s.')
            o.append(f'Proof. lib_replays {n}_spec {n}_gok. Qed.')
            replay_names.append(f'{n}_replays')
        if m.spec_kind is not None:
            o.append(f'Global Opaque {n}.')
        o.append('')

    # aggregated statements
    def conj(names, kind):
        lines = [f'Definition {kind} : Prop :=']
        body = []
        for nm in names:
            body.append(f'  (ltac:(let t := type of {nm} in exact t))')
        lines.append(' /\\\n'.join(body) + '.')
        return '\n'.join(lines)
    o.append('(** every advertised schema / every replay lemma, as one statement each *)')
    o.append(conj(spec_names, 'all_specs'))
    o.append('Lemma all_specs_hold : all_specs.\nProof. unfold all_specs. repeat apply conj; '
             'first [' + ' | '.join(f'exact {nm}' for nm in spec_names) + ']. Qed.\n')
    o.append(conj(wf_names, 'all_wf'))
    o.append('Lemma all_wf_hold : all_wf.\nProof. unfold all_wf. repeat apply conj; '
             'first [' + ' | '.join(f'exact {nm}' for nm in wf_names) + ']. Qed.\n')

    o.append(conj(replay_names, 'all_replays'))
    o.append('Lemma all_replays_hold : all_replays.\nProof. unfold all_replays. repeat apply conj; '
             'first [' + ' | '.join(f'exact {nm}' for nm in replay_names) + ']. Qed.\n')

    # dispatcher for the extracted model (harness requests entry points by index)
    d.append('(** dispatcher for the extracted model: entry point by index *)')
    d.append('Inductive arg := APat (p : pat) | AThunk (t : thunk) | ASubst (d : list (N * pat)) | AVar (x : N).')
    d.append('Definition dispatch (i : N) (args : list arg) : option thunk :=\n  match i, args with')
    index = []
    for k, n in enumerate(out_order):
        m = methods[n]
        pats = '; '.join(({'pat': 'APat', 'thunk': 'AThunk', 'evar': 'AVar'}[pt] + ' ' + v(pn)) for pn, pt, _ in m.params)
        args = ' '.join(v(pn) for pn, _, _ in m.params)
        d.append(f'  | {k}, [{pats}] => Some ({n} {args})'.replace(f'({n} )', n))
        sch = None
        if m.schema is not None:
            sch = dict(premises=m.schema['premises'], conclusions=m.schema['conclusions'], binding=m.binding,
                       prem_vars=m.prem_vars)
        index.append(dict(name=n, cls=m.cls, idx=k, params=[dict(name=pn, type=pt, default=pd) for pn, pt, pd in m.params],
                          schema=sch, spec=m.spec_kind, sha=m.sha, calls=m.calls, doc=m.doc, uses_gen=m.uses_gen,
                          inst_params=sorted(m.inst_params)))
    # DSL primitives of proof.py (hand-modelled in Lib/Term.v, lemmas in Lib/TermFacts.v): part of the
    # correspondence check only
    for k2, (pn, ptypes, coqf, doc) in enumerate(PRIMITIVES):
        k = len(out_order) + k2
        names = [f'a{j}' for j in range(len(ptypes))]
        ctor = {'pat': 'APat', 'thunk': 'AThunk', 'subst': 'ASubst'}
        pats = '; '.join(f'{ctor[t]} {v(a)}' for a, t in zip(names, ptypes))
        d.append(f'  | {k}, [{pats}] => Some ({coqf} ' + ' '.join(v(a) for a in names) + ')')
        schd = None
        if doc is not None:
            sch = S.parse_docstring(doc)
            binding, prem_vars = S.bind_schema(sch, [a for a, t in zip(names, ptypes) if t == 'pat'],
                                               sum(1 for t in ptypes if t == 'thunk'), pn)
            schd = dict(premises=sch['premises'], conclusions=sch['conclusions'], binding=binding, prem_vars=prem_vars)
        index.append(dict(name=pn, cls='ProofExp', idx=k, params=[dict(name=a, type=t, default=None) for a, t in zip(names, ptypes)],
                          schema=schd, spec='primitive', sha=None, calls=[], doc=doc))
    d.append('  | _, _ => None\n  end.')
    d.append(f'Definition n_entry_points : N := {len(out_order)}.')
    d.append('(** all assumptions the translated classes declare (memory of the replay in the correspondence check) *)')
    d.append('Definition all_class_axioms : list pat := ' + ' ++ '.join(nm for cls, nm, _, _ in ax_defs if class_parent[cls] is None or True) + '.')
    # per-file coverage
    per_file = {}
    for cls, rel, _ in SOURCES:
        names = [n for n in order if methods[n].cls == cls]
        per_file[rel] = dict(cls=cls, methods=len(names), translated=len([n for n in names if n in out_order]),
                             proved=len([n for n in names if n in out_order and methods[n].spec_kind is not None]),
                             algorithmic=[n for n in names if n in ALGORITHMIC],
                             private_helpers_skipped=[n for n in names if n in skipped_private])
    for cls, rel in NO_METHOD_FILES:
        try:
            t2 = ast.parse(open(os.path.join(repo_src, 'proof_generation', rel)).read())
            node2 = next((n_ for n_ in t2.body if isinstance(n_, ast.ClassDef) and n_.name == cls), None)
            ms = [n_.name for n_ in (node2.body if node2 else []) if isinstance(n_, ast.FunctionDef) and n_.name != '__init__']
        except OSError:
            ms = None
        if ms:
            raise Unsupported(rel, node2, f'class {cls} now has lemma methods {ms}: add it to SOURCES')
        per_file[rel] = dict(cls=cls, methods=0, translated=0, proved=0, algorithmic=[])
    text = ('\n'.join(d) + '\n', '\n'.join(o) + '\n')
    idx = dict(methods=index, excluded=sorted(n for n in order if n in ALGORITHMIC),
               excluded_sha={n: methods[n].sha for n in order if n in ALGORITHMIC},
               unspecified=unspecified,
               axioms={cls: dict(name=nm, count=k) for cls, nm, _, k in ax_defs},
               n_methods_total=len(order), per_file=per_file, skipped_private=skipped_private, symbols=tr.symbols)
    return text, idx


def module_int_constants(tree):
    """module-level names bound exactly once (plain or annotated assignment, e.g. `X: Final = 3`) to an int literal and
    never rebound anywhere in the module (assignment, augmented assignment, loop / with / walrus target, global, del,
    import, def / class of that name) -> {name: value}.  Such a name IS its value."""
    cand, bad = {}, set()
    for st in tree.body:
        tgt, val = None, None
        if isinstance(st, ast.Assign) and len(st.targets) == 1 and isinstance(st.targets[0], ast.Name):
            tgt, val = st.targets[0].id, st.value
        elif isinstance(st, ast.AnnAssign) and isinstance(st.target, ast.Name) and st.value is not None:
            tgt, val = st.target.id, st.value
        if tgt is not None and isinstance(val, ast.Constant) and isinstance(val.value, int) and not isinstance(val.value, bool):
            if tgt in cand:
                bad.add(tgt)
            cand[tgt] = val.value
    stores = {}
    for n in ast.walk(tree):
        if isinstance(n, ast.Name) and isinstance(n.ctx, (ast.Store, ast.Del)):
            stores[n.id] = stores.get(n.id, 0) + 1
        elif isinstance(n, (ast.Global, ast.Nonlocal)):
            bad.update(n.names)
        elif isinstance(n, (ast.FunctionDef, ast.AsyncFunctionDef, ast.ClassDef)):
            stores[n.name] = stores.get(n.name, 0) + 1
            if not isinstance(n, ast.ClassDef):
                for a in n.args.args + n.args.kwonlyargs + n.args.posonlyargs + [x for x in (n.args.vararg, n.args.kwarg) if x]:
                    stores[a.arg] = stores.get(a.arg, 0) + 1     # a parameter of that name shadows it somewhere
        elif isinstance(n, ast.alias):
            nm = (n.asname or n.name).split('.')[0]
            stores[nm] = stores.get(nm, 0) + 1
    return {k: v for k, v in cand.items() if k not in bad and stores.get(k, 0) == 1}


def strip_annotations(fn):
    fn = ast.parse(ast.unparse(fn)).body[0]
    fn.returns = None
    for a in fn.args.args:
        a.annotation = None
    if fn.body and isinstance(fn.body[0], ast.Expr) and isinstance(fn.body[0].value, ast.Constant) \
            and isinstance(fn.body[0].value.value, str) and len(fn.body) > 1:
        fn.body = fn.body[1:]          # docstring
    return fn


def main(argv):
    repo = os.environ.get('PI2_REPO', '/repo')
    verif = os.path.dirname(os.path.dirname(os.path.abspath(__file__)))
    try:
        text, idx = translate(os.path.join(repo, 'generation', 'src'), os.path.join(verif, 'coq', 'Lib', 'Extra.v'))
    except Unsupported as e:
        print('TRANSLATION ABORTED:', e)
        return 1
    out = argv[0] if argv else os.path.join(verif, 'coq', 'Gen')
    for name, t in (('PropLib.v', text[0]), ('PropLibSpec.v', text[1])):
        with open(os.path.join(out, name), 'w') as f:
            f.write(t)
    with open(os.path.join(out, 'PropLib.index.json'), 'w') as f:
        json.dump(idx, f, indent=1)
    print(f'{len(idx["methods"])} methods translated, {len(idx["unspecified"])} without schema: {idx["unspecified"]}')
    return 0


if __name__ == '__main__':
    sys.exit(main(sys.argv[1:]))

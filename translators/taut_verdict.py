"""Fail-closed Python-ast translator: the VERDICT LAYER of generation/src/proof_generation/tautology.py
-> coq/Gen/TautVerdict.v.

Translated methods of class Tautology (statement by statement, expression by expression):
    resolvable, is_trivial_clause, to_conj_form, propag_neg, to_cnf, to_clauses,
    resolution_algorithm (the double loop), start_resolution_algorithm, prove_tautology

PROJECTION (stated in the generated header and in the trusted base): proof objects are dropped.  Every value whose type
annotation is ProofThunk, every call of a method returning ProofThunk, every statement (assignment, assert, `if`, `for`)
that only computes such values or variables used only by such statements, and the proof reconstruction
(`build_proof_from_hint`, `prove_trivial_clause`) are omitted; a `(value, proof, proof)` tuple is projected to `value`.
Everything else — every branch condition, every recursive call, every list/set/dict operation, the order of the loop
iterations, `break` / `continue` / `return` inside loops, which variables a loop body assigns (so a loop variable that
is reassigned inside an inner loop becomes threaded state of the generated loop function) — is translated.  Raising is
`Err`; every recursive method and every loop is a Fixpoint on explicit `fuel` (`Fuel` when exhausted).

Anything outside the recognised subset aborts with SystemExit naming the node.  The reading of the Python data model
(patterns after notation expansion, ConjForm objects, frozensets, dicts, list iteration) is fixed by coq/Taut/GenPrelude.v.
"""
from __future__ import annotations

import ast
import os

SRC = 'generation/src/proof_generation/tautology.py'
TRANSLATED = ['resolvable', 'is_trivial_clause', 'to_conj_form', 'propag_neg', 'to_cnf', 'to_clauses',
              'resolution_algorithm', 'start_resolution_algorithm', 'prove_tautology']
# methods whose results belong entirely to the proof layer (clause part tied differentially, see Taut/BuildTerm.v)
PROOF_RECONSTRUCTION = {'build_proof_from_hint', 'prove_trivial_clause'}


class Fail(SystemExit):
    pass


def fail(node, msg):
    where = f'line {getattr(node, "lineno", "?")}' if node is not None else ''
    src = ''
    try:
        src = ast.unparse(node)[:120] if node is not None else ''
    except Exception:  # noqa: BLE001
        pass
    raise Fail(f'taut_verdict translator: {msg} [{where}] {src}')


# ------------------------------------------------------------------------------------------------------------------
# types
# ------------------------------------------------------------------------------------------------------------------
def ann_type(a):
    """type of an annotation node"""
    if a is None:
        return None
    s = ast.unparse(a).replace(' ', '')
    table = {'Pattern': 'pat', 'ConjForm': 'cf', 'ProofThunk': 'proof', 'ProofThunk|None': 'proof', 'int': 'int',
             'bool': 'bool', 'Clause': 'clause', 'ClauseConjunction': 'clauses', 'frozenset[int]': 'fset',
             'list[frozenset[int]]': 'fsetlist', 'ResolutionHint': 'hint', 'None': 'none', 'ResolutionHintSource': 'hsrc'}
    if s in table:
        return table[s]
    if s.endswith('|None'):
        return ('opt', ann_type(ast.parse(s[:-5], mode='eval').body))
    if s.startswith('tuple[') and s.endswith(']'):
        inner = ast.parse(s, mode='eval').body.slice
        elts = inner.elts if isinstance(inner, ast.Tuple) else [inner]
        return ('tuple', [ann_type(e) for e in elts])
    fail(a, 'unsupported type annotation')


def project(t):
    """drop the proof components"""
    if isinstance(t, tuple) and t[0] == 'tuple':
        keep = [project(x) for x in t[1] if x != 'proof']
        if not keep:
            return 'proof'
        return keep[0] if len(keep) == 1 else ('tuple', keep)
    if isinstance(t, tuple) and t[0] == 'opt':
        p = project(t[1])
        return 'proof' if p == 'proof' else ('opt', p)
    return t


def coq_type(t):
    base = {'pat': 'core', 'cf': 'cf', 'int': 'Z', 'id': 'N', 'bool': 'bool', 'clause': 'list Z',
            'clauses': 'list (list Z)', 'fset': 'list Z', 'fsetlist': 'list (list Z)', 'hint': 'hint', 'hsrc': 'hsrc'}
    if isinstance(t, str) and t in base:
        return base[t]
    if isinstance(t, tuple) and t[0] == 'opt':
        return f'option ({coq_type(t[1])})'
    if isinstance(t, tuple) and t[0] == 'tuple':
        return '(' + ' * '.join(coq_type(x) for x in t[1]) + ')'
    fail(None, f'no Coq type for {t}')


RESERVED = {'fun', 'forall', 'exists', 'match', 'with', 'end', 'let', 'in', 'if', 'then', 'else', 'as', 'at', 'fix',
            'return', 'Type', 'Prop', 'Set', 'id', 'fuel', 'do', 'pn', 'tt', 'res', 'hint', 'Ok', 'Err', 'Fuel', 'cf', 'core'}


def cname(n):
    return 'v_' + n


class V:
    """a compiled pure expression"""

    def __init__(self, ty, code, parts=None):
        self.ty, self.code, self.parts = ty, code, parts
        self.mapf = None
        self.ctor = None        # (constructor, [argument values]) for constructor applications


# ------------------------------------------------------------------------------------------------------------------
# the translator
# ------------------------------------------------------------------------------------------------------------------
class Translator:
    def __init__(self, tree, parents=()):
        self.cls = None
        for n in tree.body:
            if isinstance(n, ast.ClassDef) and n.name == 'Tautology':
                self.cls = n
        if self.cls is None:
            fail(None, 'class Tautology not found')
        self.methods = {f.name: f for f in self.cls.body if isinstance(f, ast.FunctionDef)}
        # a module-level name bound exactly once, to an integer literal (also `X: Final = 3`), is its value
        self.consts = {}
        bound = {}
        for n in ast.walk(tree):
            if isinstance(n, ast.Name) and isinstance(n.ctx, (ast.Store, ast.Del)):
                bound[n.id] = bound.get(n.id, 0) + 1
            if isinstance(n, (ast.FunctionDef, ast.ClassDef)):
                bound[n.name] = bound.get(n.name, 0) + 1
            if isinstance(n, ast.arg):
                bound[n.arg] = bound.get(n.arg, 0) + 1
            if isinstance(n, (ast.Global, ast.Nonlocal)):
                for x in n.names:
                    bound[x] = bound.get(x, 0) + 2
        for n in tree.body:
            tg, val = None, None
            if isinstance(n, ast.Assign) and len(n.targets) == 1 and isinstance(n.targets[0], ast.Name):
                tg, val = n.targets[0].id, n.value
            if isinstance(n, ast.AnnAssign) and isinstance(n.target, ast.Name) and n.value is not None:
                tg, val = n.target.id, n.value
            if tg is not None and bound.get(tg) == 1:
                if isinstance(val, ast.UnaryOp) and isinstance(val.op, ast.USub) and isinstance(val.operand, ast.Constant):
                    val = ast.Constant(value=-val.operand.value) if type(val.operand.value) is int else val
                if isinstance(val, ast.Constant) and type(val.value) is int:
                    self.consts[tg] = val.value
        for m in TRANSLATED:
            if m not in self.methods:
                fail(None, f'method {m} not found')
        self.check_conjform_classes(tree)
        # signatures
        self.sig = {}
        for name, f in self.methods.items():
            if f.returns is None:
                continue
            try:
                self.sig[name] = ann_type(f.returns)
            except Fail:
                self.sig[name] = 'unknown'
        # inherited methods (Propositional, ProofExp): only their return annotation matters (proof-returning or not)
        for ptree, cname_ in parents:
            for n in ptree.body:
                if isinstance(n, ast.ClassDef) and n.name == cname_:
                    for f in n.body:
                        if isinstance(f, ast.FunctionDef) and f.name not in self.sig and f.returns is not None:
                            try:
                                self.sig[f.name] = ann_type(f.returns)
                            except Fail:
                                self.sig[f.name] = 'unknown'
        self.raw_methods = dict(self.methods)
        for m in TRANSLATED:
            self.methods[m] = self.desugar(self.methods[m])
        # which translated methods need fuel: recursive, loops, or calling one that does
        self.mutated = {m: self.mutated_params(self.methods[m]) for m in TRANSLATED}
        self.fuel = {}
        changed = True
        for m in TRANSLATED:
            f = self.methods[m]
            self.fuel[m] = any(isinstance(n, ast.For) for n in ast.walk(f)) and m != 'is_trivial_clause'
        while changed:
            changed = False
            for m in TRANSLATED:
                if self.fuel[m]:
                    continue
                for c in self.self_calls(self.methods[m]):
                    if c == m or self.fuel.get(c):
                        self.fuel[m] = True
                        changed = True
        self.defs = []          # emitted definitions in order
        self.loop_counter = 0

    # ---- structural checks on the data classes ---------------------------------------------------------------
    def check_conjform_classes(self, tree):
        """CFAnd/CFOr/CFVar set negated=False and store their arguments; CFBot takes the flag"""
        classes = {n.name: n for n in tree.body if isinstance(n, ast.ClassDef)}
        want = {'CFAnd': "super().__init__(False)\nself.left = left\nself.right = right",
                'CFOr': "super().__init__(False)\nself.left = left\nself.right = right",
                'CFVar': "super().__init__(False)\nself.id = id",
                'ConjForm': "self.negated = negated"}
        for c, body in want.items():
            if c not in classes:
                fail(None, f'class {c} not found')
            init = [f for f in classes[c].body if isinstance(f, ast.FunctionDef) and f.name == '__init__']
            if len(init) != 1:
                fail(classes[c], f'class {c}: __init__ expected')
            got = '\n'.join(ast.unparse(s) for s in init[0].body)
            if got != body:
                fail(init[0], f'class {c}: constructor body changed')
        if 'CFBot' not in classes or any(isinstance(f, ast.FunctionDef) for f in classes['CFBot'].body):
            fail(classes.get('CFBot'), 'class CFBot must inherit the ConjForm constructor')
        rhs = [f for f in classes['ResolutionHintSource'].body if isinstance(f, ast.FunctionDef)]
        got = '\n'.join(ast.unparse(s) for s in rhs[0].body)
        if got != 'self.left_set = left_set\nself.right_set = right_set\nself.resolvant = resolvant':
            fail(rhs[0], 'class ResolutionHintSource: constructor body changed')

    def helper_is_pure(self, m, seen=None):
        """a proof-returning helper of class Tautology may be dropped only if it cannot change verdict-layer data:
        no assignment to attributes / subscripts, no mutating method call, and only pure helpers / library rules called"""
        seen = seen or set()
        if m in seen:
            return True
        seen.add(m)
        f = self.methods.get(m)
        if f is None:
            return True           # inherited library rule (Propositional / ProofExp): takes patterns and proofs only
        for n in ast.walk(f):
            if isinstance(n, (ast.Assign, ast.AnnAssign, ast.AugAssign)):
                tgs = n.targets if isinstance(n, ast.Assign) else [n.target]
                for t in tgs:
                    for x in ast.walk(t):
                        if isinstance(x, (ast.Attribute, ast.Subscript)):
                            return False
            if isinstance(n, ast.Call) and isinstance(n.func, ast.Attribute):
                if n.func.attr in ('append', 'extend', 'insert', 'pop', 'remove', 'clear', 'update', 'add', 'sort', 'reverse',
                                   'setdefault', 'discard', '__setattr__'):
                    return False
                if isinstance(n.func.value, ast.Name) and n.func.value.id == 'self':
                    c = n.func.attr
                    if c in TRANSLATED:
                        return False
                    if c in self.methods and not self.helper_is_pure(c, seen):
                        return False
            if isinstance(n, (ast.Global, ast.Nonlocal, ast.Delete)):
                return False
        return True

    def self_calls(self, f):
        out = set()
        for n in ast.walk(f):
            if isinstance(n, ast.Call) and isinstance(n.func, ast.Attribute) and isinstance(n.func.value, ast.Name) \
                    and n.func.value.id == 'self':
                out.add(n.func.attr)
        return out

    def mutated_params(self, f):
        params = [a.arg for a in f.args.args if a.arg != 'self']
        mut = []
        for n in ast.walk(f):
            nm = None
            if isinstance(n, ast.Call) and isinstance(n.func, ast.Attribute) and n.func.attr == 'append' \
                    and isinstance(n.func.value, ast.Name):
                nm = n.func.value.id
            if isinstance(n, ast.Assign) and isinstance(n.targets[0], ast.Subscript) \
                    and isinstance(n.targets[0].value, ast.Name):
                nm = n.targets[0].value.id
            if nm in params and nm not in mut:
                mut.append(nm)
        return [p for p in params if p in mut]

    # ---- proof-layer classification ------------------------------------------------------------------------------
    def is_proof_call(self, e):
        """a call whose result belongs entirely to the proof layer"""
        if isinstance(e, ast.Call) and isinstance(e.func, ast.Attribute) and isinstance(e.func.value, ast.Name) \
                and e.func.value.id == 'self':
            m = e.func.attr
            if m in TRANSLATED:
                return False
            if m in PROOF_RECONSTRUCTION:
                return True
            t = self.sig.get(m)
            if t == 'proof' and self.helper_is_pure(m):
                return True
            if t is not None and t != 'unknown' and project(t) == 'proof' and self.helper_is_pure(m):
                return True       # private helper returning only proofs (tuple of ProofThunks) that cannot touch verdict data
            fail(e, f'call of method {m} which is neither translated nor a (pure) proof-returning helper')
        return False

    def proof_expr(self, e, proofvars):
        """does expression e denote a proof-layer value (given the current set of proof-layer variables)?"""
        if isinstance(e, ast.Name):
            return e.id in proofvars
        if self.is_proof_call(e):
            return True
        if isinstance(e, ast.Attribute) and e.attr == 'conc':
            return self.proof_expr(e.value, proofvars)
        if isinstance(e, ast.Subscript):
            return self.proof_expr(e.value, proofvars)
        if isinstance(e, ast.Call) and isinstance(e.func, ast.Attribute) and e.func.attr in ('extract', 'assert_matches') \
                and e.args:
            return self.proof_expr(e.args[0], proofvars)
        if isinstance(e, ast.ListComp):
            return self.proof_expr(e.elt, proofvars)
        if isinstance(e, ast.Call) and isinstance(e.func, ast.Name) and e.func.id == 'reversed':
            return self.proof_expr(e.args[0], proofvars)
        return False

    def classify(self, f):
        """returns (proofvars, dropped statement ids).  Fixpoint: a variable is proof-layer if every assignment to it has
        a proof-layer right-hand side or it is only ever READ inside proof-layer statements / proof calls."""
        params = {a.arg: ann_type(a.annotation) for a in f.args.args if a.arg != 'self'}
        proofvars = {p for p, t in params.items() if t == 'proof'}
        dropped = set()

        def targets(t):
            if isinstance(t, ast.Name):
                return [t.id]
            if isinstance(t, ast.Tuple):
                return [x for e in t.elts for x in targets(e)]
            return []

        def has_translated_call(n):
            return any(isinstance(c, ast.Call) and isinstance(c.func, ast.Attribute) and isinstance(c.func.value, ast.Name)
                       and c.func.value.id == 'self' and c.func.attr in TRANSLATED for c in ast.walk(n))

        def stmt_is_proof(s):
            if isinstance(s, (ast.Assign, ast.AnnAssign)):
                val = s.value
                tg = s.targets[0] if isinstance(s, ast.Assign) else s.target
                if isinstance(tg, (ast.Attribute, ast.Subscript)):
                    return False
                ts = targets(tg)
                if has_translated_call(val):
                    return False
                if self.proof_expr(val, proofvars):
                    return True
                return bool(ts) and all(t in proofvars for t in ts)
            if isinstance(s, ast.Assert):
                names = [n.id for n in ast.walk(s.test) if isinstance(n, ast.Name)]
                return bool(names) and all(n in proofvars for n in names)
            if isinstance(s, ast.Expr):
                if isinstance(s.value, ast.Constant):
                    return True
                return self.proof_expr(s.value, proofvars)
            if isinstance(s, ast.If):
                return all(stmt_is_proof(x) for x in s.body + s.orelse) and not has_translated_call(s.test)
            if isinstance(s, ast.For):
                return all(stmt_is_proof(x) for x in s.body) and not has_translated_call(s.iter)
            return False

        def reads_outside_proof(name):
            """is `name` read in a verdict-relevant position?"""
            class Vis(ast.NodeVisitor):
                def __init__(vis):
                    vis.found = False

                def visit_stmt_list(vis, stmts):
                    for s in stmts:
                        if id(s) in dropped:
                            continue
                        if isinstance(s, (ast.Assign, ast.AnnAssign)):
                            tg = s.targets[0] if isinstance(s, ast.Assign) else s.target
                            ts = targets(tg)
                            if ts and all(t == name or t in proofvars for t in ts) and not has_translated_call(s.value):
                                continue        # feeds only itself / proof-layer variables
                        vis.visit(s)

                def generic_visit(vis, node):
                    if isinstance(node, ast.Call) and self_is_proof_call(node):
                        return          # arguments of proof calls are proof-layer uses
                    for fld, val in ast.iter_fields(node):
                        if isinstance(val, list) and val and isinstance(val[0], ast.stmt):
                            vis.visit_stmt_list(val)
                        elif isinstance(val, list):
                            for x in val:
                                if isinstance(x, ast.AST):
                                    vis.visit(x)
                        elif isinstance(val, ast.AST):
                            vis.visit(val)

                def visit_Name(vis, node):
                    if node.id == name and isinstance(node.ctx, ast.Load):
                        vis.found = True

            def self_is_proof_call(c):
                try:
                    return self.is_proof_call(c)
                except Fail:
                    return False
            v = Vis()
            v.visit_stmt_list(f.body)
            return v.found

        assigned = {}
        for n in ast.walk(f):
            if isinstance(n, (ast.Assign, ast.AnnAssign)):
                tg = n.targets[0] if isinstance(n, ast.Assign) else n.target
                for t in targets(tg):
                    assigned.setdefault(t, []).append(n)
            if isinstance(n, ast.For):
                for t in targets(n.target):
                    assigned.setdefault(t, []).append(n)
        changed = True
        while changed:
            changed = False
            # tuple-unpacking of translated calls: positions typed proof by the callee's annotation
            for n in ast.walk(f):
                if isinstance(n, ast.Assign) and isinstance(n.targets[0], ast.Tuple) and isinstance(n.value, ast.Call) \
                        and isinstance(n.value.func, ast.Attribute) and isinstance(n.value.func.value, ast.Name) \
                        and n.value.func.value.id == 'self':
                    m = n.value.func.attr
                    t = self.sig.get(m)
                    if m in PROOF_RECONSTRUCTION:
                        t = ('tuple', ['proof'] * len(n.targets[0].elts))
                    if isinstance(t, tuple) and t[0] == 'tuple':
                        for tg, ty in zip(n.targets[0].elts, t[1]):
                            if ty == 'proof' and isinstance(tg, ast.Name) and tg.id not in proofvars:
                                proofvars.add(tg.id)
                                changed = True
            for s in ast.walk(f):
                if isinstance(s, ast.stmt) and id(s) not in dropped and stmt_is_proof(s):
                    dropped.add(id(s))
                    changed = True
                    if isinstance(s, (ast.Assign, ast.AnnAssign)):
                        tg = s.targets[0] if isinstance(s, ast.Assign) else s.target
                        for t in targets(tg):
                            if t not in proofvars and all(id(a) in dropped for a in assigned.get(t, [])):
                                proofvars.add(t)
            # variables never read in a verdict position and assigned only by call-free expressions
            for t, sites in assigned.items():
                if t in proofvars or t in params:
                    continue
                if any(isinstance(a, ast.For) for a in sites):
                    continue
                if any(has_translated_call(a) for a in sites):
                    continue
                if not reads_outside_proof(t):
                    proofvars.add(t)
                    changed = True
        return proofvars, dropped

    # ---- expressions -------------------------------------------------------------------------------------------------
    def cexpr(self, e, cx):
        """compile a pure expression; calls of translated methods are hoisted into cx.pending"""
        env = cx.env
        if isinstance(e, ast.Constant):
            if e.value is True:
                return V('bool', 'true')
            if e.value is False:
                return V('bool', 'false')
            if e.value is None:
                return V('none', 'None')
            if isinstance(e.value, int):
                return V('int', f'({e.value})' if e.value < 0 else str(e.value))
            fail(e, 'constant')
        if isinstance(e, ast.Name):
            if e.id not in env:
                if e.id in self.consts:
                    k_ = self.consts[e.id]
                    return V('int', f'({k_})' if k_ < 0 else str(k_))
                fail(e, f'unbound or proof-layer variable {e.id}')
            return env[e.id]
        if isinstance(e, ast.UnaryOp):
            x = self.cexpr(e.operand, cx)
            if isinstance(e.op, ast.Not):
                if x.ty in ('clause', 'clauses', 'fset', 'fsetlist', 'hint'):
                    return V('bool', f'(match {x.code} with [] => true | _ => false end)')
                return V('bool', f'(negb {self.truthy(x, e)})')
            if isinstance(e.op, ast.USub):
                return V('int', f'(- {self.as_int(x, e)})')
            fail(e, 'unary operator')
        if isinstance(e, ast.BinOp):
            a, b = self.cexpr(e.left, cx), self.cexpr(e.right, cx)
            if isinstance(e.op, ast.Add) and a.ty in ('int', 'id') and b.ty in ('int', 'id'):
                return V('int', f'({self.as_int(a, e)} + {self.as_int(b, e)})')
            if isinstance(e.op, ast.Sub) and a.ty in ('int', 'id') and b.ty in ('int', 'id'):
                return V('int', f'({self.as_int(a, e)} - {self.as_int(b, e)})')
            if isinstance(e.op, ast.Add) and a.ty == b.ty and a.ty in ('clause', 'clauses'):
                return V(a.ty, f'({a.code} ++ {b.code})')
            if a.ty == b.ty == 'fset' and isinstance(e.op, (ast.Sub, ast.BitOr, ast.BitAnd)):
                fn = {ast.Sub: 'zdiff', ast.BitOr: 'zunion', ast.BitAnd: 'zinter'}[type(e.op)]     # s - t, s | t, s & t
                return V('fset', f'({fn} {a.code} {b.code})')
            fail(e, f'binary operator on {a.ty}, {b.ty}')
        if isinstance(e, ast.BoolOp):
            vs = [self.truthy(self.cexpr(x, cx), e) for x in e.values]
            op = ' && ' if isinstance(e.op, ast.And) else ' || '
            return V('bool', '(' + op.join(vs) + ')')
        if isinstance(e, ast.Compare):
            if len(e.ops) != 1:
                fail(e, 'chained comparison')
            return self.ccompare(e, cx)
        if isinstance(e, ast.List):
            vs = [self.cexpr(x, cx) for x in e.elts]
            if not vs:
                fail(e, 'empty list literal')
            t = vs[0].ty
            lt = {'int': 'clause', 'clause': 'clauses', 'fset': 'fsetlist'}.get(t)
            if lt is None or any(v.ty != t for v in vs):
                fail(e, f'list literal of {t}')
            return V(lt, '[' + '; '.join(v.code for v in vs) + ']')
        if isinstance(e, ast.Tuple):
            vs = [self.cexpr(x, cx) for x in e.elts]
            return V(('tuple', [v.ty for v in vs]), '(' + ', '.join(v.code for v in vs) + ')', parts=vs)
        if isinstance(e, ast.Set):
            vs = [self.cexpr(x, cx) for x in e.elts]
            return V('fset', '(mkset [' + '; '.join(self.as_int(v, e) for v in vs) + '])')
        if isinstance(e, ast.SetComp):
            if len(e.generators) != 1 or e.generators[0].ifs or not isinstance(e.generators[0].target, ast.Name):
                fail(e, 'set comprehension shape')
            it = self.cexpr(e.generators[0].iter, cx)
            if it.ty not in ('fset', 'clause'):
                fail(e, 'set comprehension over non-integer collection')
            x = e.generators[0].target.id
            sub = cx.child()
            sub.env[x] = V('int', cname(x))
            body = self.cexpr(e.elt, sub)
            return V('fset', f'(mkset (map (fun {cname(x)} => {self.as_int(body, e)}) {it.code}))')
        if isinstance(e, ast.ListComp):
            if len(e.generators) != 1 or e.generators[0].ifs or not isinstance(e.generators[0].target, ast.Name):
                fail(e, 'list comprehension shape')
            it = self.cexpr(e.generators[0].iter, cx)
            x = e.generators[0].target.id
            sub = cx.child()
            et = {'clauses': 'clause', 'fsetlist': 'fset', 'clause': 'int'}.get(it.ty)
            if et is None:
                fail(e, 'list comprehension over unsupported collection')
            sub.env[x] = V(et, cname(x))
            body = self.cexpr(e.elt, sub)
            lt = {'fset': 'fsetlist', 'clause': 'clauses', 'int': 'clause'}.get(body.ty)
            if lt is None:
                fail(e, 'list comprehension element type')
            r = V(lt, f'(map (fun {cname(x)} => {body.code}) {it.code})')
            r.mapf = (cname(x), body, it)          # a loop over this list is a loop over `it` with the element mapped
            return r
        if isinstance(e, ast.IfExp):
            # canonical form shared with the if/else statement that assigns one variable in both branches
            c = self.truthy(self.cexpr(e.test, cx), e)
            a, b = self.cexpr(e.body, cx), self.cexpr(e.orelse, cx)
            if a.ty != b.ty:
                if a.ty in ('int', 'id') and b.ty in ('int', 'id'):
                    a, b = V('int', self.as_int(a, e)), V('int', self.as_int(b, e))
                else:
                    fail(e, f'conditional expression of types {a.ty} / {b.ty}')
            return self.mk_if(c, a, b)
        if isinstance(e, ast.Attribute):
            return self.cattr(e, cx)
        if isinstance(e, ast.Subscript):
            return self.csubscript(e, cx)
        if isinstance(e, ast.Call):
            return self.ccall(e, cx)
        fail(e, 'expression form')

    def mk_if(self, c, a, b):
        """`if c then a else b`; a conditional between two applications of the same constructor is pushed into the
        arguments (K a1 a2 | K b1 b2  ->  K (if c then a1 else b1) (if c then a2 else b2)): one canonical form whether the
        source selects the arguments first and builds the object once, or builds it in both branches"""
        if a.code == b.code:
            return a
        if a.ctor is not None and b.ctor is not None and a.ctor[0] == b.ctor[0] and len(a.ctor[1]) == len(b.ctor[1]) \
                and all(x.ty == y.ty for x, y in zip(a.ctor[1], b.ctor[1])):
            args = [self.mk_if(c, x, y) for x, y in zip(a.ctor[1], b.ctor[1])]
            r = V(a.ty, '(' + a.ctor[0] + ''.join(' ' + x.code for x in args) + ')')
            r.ctor = (a.ctor[0], args)
            return r
        return V(a.ty, f'(if {c} then {a.code} else {b.code})')

    def truthy(self, v, node):
        if v.ty == 'bool':
            return v.code
        if v.ty in ('clause', 'clauses', 'fset', 'fsetlist', 'hint'):
            return f'(negb (match {v.code} with [] => true | _ => false end))'
        fail(node, f'truth value of {v.ty}')

    def as_int(self, v, node):
        if v.ty == 'int':
            return v.code
        if v.ty == 'id':
            return f'(Z.of_N {v.code})'
        fail(node, f'integer expected, got {v.ty}')

    def ccompare(self, e, cx):
        op = e.ops[0]
        le, re_ = e.left, e.comparators[0]
        # pattern tests
        if isinstance(op, ast.Eq) and isinstance(re_, ast.Call) and isinstance(re_.func, ast.Name) \
                and re_.func.id in ('bot', 'top') and not re_.args:
            a = self.cexpr(le, cx)
            if a.ty != 'pat':
                fail(e, 'comparison with bot()/top() of a non-pattern')
            return V('bool', f'({"core_is_bot" if re_.func.id == "bot" else "is_top"} {a.code})')
        if isinstance(op, (ast.Is, ast.IsNot)) and isinstance(re_, ast.Constant) and re_.value is None:
            a = self.cexpr(le, cx)
            if not (isinstance(a.ty, tuple) and a.ty[0] == 'opt'):
                fail(e, '`is None` on a non-optional value')
            t = f'(match {a.code} with None => true | Some _ => false end)'
            return V('bool', t if isinstance(op, ast.Is) else f'(negb {t})')
        a, b = self.cexpr(le, cx), self.cexpr(re_, cx)
        if isinstance(op, (ast.In, ast.NotIn)):
            if b.ty == 'hint' and a.ty == 'fset':
                t = f'(hint_mem {a.code} {b.code})'
            elif b.ty in ('fset', 'clause') and a.ty in ('int', 'id'):
                t = f'(zmem {self.as_int(a, e)} {b.code})'
            else:
                fail(e, f'membership {a.ty} in {b.ty}')
            return V('bool', t if isinstance(op, ast.In) else f'(negb {t})')
        ints = a.ty in ('int', 'id') and b.ty in ('int', 'id')
        if isinstance(op, (ast.Eq, ast.NotEq)):
            if ints:
                t = f'({self.as_int(a, e)} =? {self.as_int(b, e)})'
            elif a.ty == b.ty == 'fset':
                t = f'(clause_eqb {a.code} {b.code})'
            elif a.ty == b.ty == 'bool':
                t = f'(Bool.eqb {a.code} {b.code})'
            else:
                fail(e, f'equality on {a.ty}, {b.ty}')
            return V('bool', t if isinstance(op, ast.Eq) else f'(negb {t})')
        if ints:
            sym = {ast.Lt: '<?', ast.Gt: '>?', ast.LtE: '<=?', ast.GtE: '>=?'}.get(type(op))
            if sym is None:
                fail(e, 'comparison operator')
            return V('bool', f'({self.as_int(a, e)} {sym} {self.as_int(b, e)})')
        fail(e, f'comparison on {a.ty}, {b.ty}')

    def cattr(self, e, cx):
        v = self.cexpr(e.value, cx)
        if v.ty == 'cf':
            if e.attr == 'negated':
                return V('bool', f'(cf_negated {v.code})')
            need = {'left': ('CFOr', 'CFAnd'), 'right': ('CFOr', 'CFAnd'), 'id': ('CFVar',)}.get(e.attr)
            if need is None:
                fail(e, 'attribute of a ConjForm')
            key = ast.unparse(e.value)
            if not any((key, c) in cx.facts for c in need):
                fail(e, f'attribute .{e.attr} read without an enclosing isinstance test on {key}')
            if e.attr == 'id':
                return V('id', f'(cf_id {v.code})')
            return V('cf', f'(cf_{e.attr} {v.code})')
        if v.ty == 'metavar' and e.attr == 'name':
            return V('id', v.code)
        fail(e, f'attribute .{e.attr} of {v.ty}')

    def csubscript(self, e, cx):
        v = self.cexpr(e.value, cx)
        if not (isinstance(e.slice, ast.Constant) and isinstance(e.slice.value, int) and e.slice.value >= 0):
            fail(e, 'subscript must be a literal index')
        i = e.slice.value
        if v.ty == 'pair_pat' and i in (0, 1):
            return V('pat', v.code[i])
        if v.ty == 'clauses':
            return V('clause', f'(nth {i} {v.code} [])')
        if isinstance(v.ty, tuple) and v.ty[0] == 'tuple' and i < len(v.ty[1]):
            fail(e, 'tuple indexing (use unpacking)')
        fail(e, f'subscript on {v.ty}')

    def ccall(self, e, cx):
        f = e.func
        if isinstance(f, ast.Name):
            n = f.id
            args = e.args
            if n == 'isinstance':
                fail(e, 'isinstance outside an if-test')
            if n == 'any' and len(args) == 1 and isinstance(args[0], ast.GeneratorExp):
                g = args[0]
                it = g.generators[0].iter if len(g.generators) == 1 else None
                if not (it is not None and not g.generators[0].ifs and isinstance(it, ast.Call) and isinstance(it.func, ast.Name)
                        and it.func.id == 'combinations' and len(it.args) == 2 and isinstance(it.args[1], ast.Constant)
                        and it.args[1].value == 2 and isinstance(g.generators[0].target, ast.Tuple)
                        and len(g.generators[0].target.elts) == 2):
                    fail(e, 'any(...) is only recognised over combinations(l, 2)')
                l = self.cexpr(it.args[0], cx)
                if l.ty not in ('clause', 'fset'):
                    fail(e, 'combinations over a non-integer collection')
                a, b = (t.id for t in g.generators[0].target.elts)
                sub = cx.child()
                sub.env[a] = V('int', cname(a))
                sub.env[b] = V('int', cname(b))
                c = self.truthy(self.cexpr(g.elt, sub), e)
                return V('bool', f"(existsb (fun '({cname(a)}, {cname(b)}) => {c}) (combinations2 {l.code}))")
            if n == 'len' and len(args) == 1:
                v = self.cexpr(args[0], cx)
                if v.ty in ('clause', 'clauses', 'fset', 'fsetlist', 'hint'):
                    return V('int', f'(llen {v.code})')
                fail(e, f'len of {v.ty}')
            if n == 'frozenset' and len(args) == 1:
                v = self.cexpr(args[0], cx)
                if v.ty in ('clause', 'fset'):
                    return V('fset', f'(mkset {v.code})')
                fail(e, 'frozenset(...) of a non-integer list')
            if n == 'list' and len(args) == 1:
                a = args[0]
                if isinstance(a, ast.Call) and isinstance(a.func, ast.Attribute) and a.func.attr == 'keys' and not a.args:
                    h = self.cexpr(a.func.value, cx)
                    if h.ty != 'hint':
                        fail(e, '.keys() of a non-dict')
                    return V('fsetlist', f'(map fst {h.code})')
                v = self.cexpr(a, cx)
                if v.ty in ('fset', 'clause'):
                    return V('clause', v.code)
                if v.ty == 'hint':
                    return V('fsetlist', f'(map fst {v.code})')       # iterating a dict = its keys
                fail(e, f'list(...) of {v.ty}')
            if n == 'neg' and len(args) == 1:
                v = self.cexpr(args[0], cx)
                if v.ty != 'pat':
                    fail(e, 'neg(...) of a non-pattern')
                return V('pat', f'(k_neg {v.code})')
            if n in ('CFBot', 'CFVar', 'CFOr', 'CFAnd'):
                vs = [self.cexpr(a, cx) for a in args]
                if n == 'CFBot' and len(vs) == 1 and vs[0].ty == 'bool':
                    return V('cf', f'(CBot {vs[0].code})')
                if n == 'CFVar' and len(vs) == 1 and vs[0].ty == 'id':
                    return V('cf', f'(CVar false {vs[0].code})')
                if n in ('CFOr', 'CFAnd') and len(vs) == 2 and vs[0].ty == vs[1].ty == 'cf':
                    return V('cf', f'({"COr" if n == "CFOr" else "CAnd"} false {vs[0].code} {vs[1].code})')
                fail(e, f'constructor {n} arguments')
            if n == 'ResolutionHintSource' and len(args) == 3:
                vs = [self.cexpr(a, cx) for a in args]
                if vs[0].ty == vs[1].ty == 'fset' and vs[2].ty == 'int':
                    r = V('hsrc', f'(HRes {vs[0].code} {vs[1].code} {vs[2].code})')
                    r.ctor = ('HRes', vs)
                    return r
                fail(e, 'ResolutionHintSource arguments')
            fail(e, f'call of {n}')
        if isinstance(f, ast.Attribute):
            if isinstance(f.value, ast.Name) and f.value.id == 'self':
                return self.cselfcall(e, cx)
            recv = self.cexpr(f.value, cx)
            if recv.ty == 'fset' and f.attr in ('intersection', 'difference', 'union') and len(e.args) == 1:
                a = self.cexpr(e.args[0], cx)
                if a.ty not in ('fset',):
                    fail(e, f'set operation with {a.ty}')
                fn = {'intersection': 'zinter', 'difference': 'zdiff', 'union': 'zunion'}[f.attr]
                return V('fset', f'({fn} {recv.code} {a.code})')
            fail(e, f'method call .{f.attr} on {recv.ty}')
        fail(e, 'call form')

    def helper_expr(self, stmts, node):
        """a helper whose body is only `if c: return e` ... `return e` is the conditional expression it computes"""
        stmts = [x for x in stmts if not (isinstance(x, ast.Expr) and isinstance(x.value, ast.Constant))]
        if not stmts:
            fail(node, 'helper can fall off its end')
        st = stmts[0]
        if isinstance(st, ast.Return) and st.value is not None:
            return st.value
        if isinstance(st, ast.If):
            a = self.helper_expr(st.body, node)
            b = self.helper_expr(list(st.orelse) + stmts[1:], node)
            return ast.copy_location(ast.IfExp(test=st.test, body=a, orelse=b), st)
        fail(st, 'helper body is not of the form if/return')

    def cselfcall(self, e, cx):
        m = e.func.attr
        if m not in TRANSLATED and self.verdict_helper(e) == m:
            # pure expression helper (possibly a staticmethod): inlined with the parameters bound to the arguments
            hf = self.methods[m]
            params = self.helper_params(m)
            if len(params) != len(e.args) or e.keywords:
                fail(e, f'call of helper {m}: positional arguments expected')
            body = self.helper_expr(hf.body, e)
            sub = cx.same()
            sub.env = {}
            for p_, a_ in zip(params, e.args):
                v = self.cexpr(a_, cx)
                want = ann_type(p_.annotation) if p_.annotation is not None else v.ty
                if want != v.ty:
                    fail(e, f'argument {p_.arg} of helper {m}: expected {want}, got {v.ty}')
                sub.env[p_.arg] = v
            sub.pending = cx.pending
            sub.facts = set()
            r = self.cexpr(body, sub)
            want = project(self.sig[m])
            if r.ty != want:
                fail(e, f'helper {m} returns {r.ty}, annotated {want}')
            return r
        if m not in TRANSLATED:
            fail(e, f'call of untranslated method {m} in a verdict position')
        f = self.methods[m]
        params = [a for a in f.args.args if a.arg != 'self']
        if len(e.args) != len(params) or e.keywords:
            fail(e, f'call of {m}: positional arguments expected')
        args = []
        for a, p in zip(e.args, params):
            v = self.cexpr(a, cx)
            want = ann_type(p.annotation)
            if v.ty != want and not (want == 'cf' and v.ty == 'cf'):
                fail(e, f'argument {p.arg} of {m}: expected {want}, got {v.ty}')
            args.append(v)
        rt = project(self.sig[m])
        tmp = cx.fresh('r')
        call = f'gen_{m}' + (' fuel' if self.fuel[m] else '') + ''.join(' ' + a.code for a in args)
        mut = self.mutated[m]
        if mut:
            names = []
            rebinds = []
            for a, p in zip(e.args, params):
                if p.arg in mut:
                    if isinstance(a, ast.Name):
                        nn = cx.fresh(a.id)
                        names.append(nn)
                        rebinds.append((a.id, nn, ann_type(p.annotation)))
                    else:
                        names.append('_')
            tup = cx.fresh('t')
            cx.pending.append((tup, call + ";\nlet '(" + ', '.join([tmp] + names) + f') := {tup} in\nOk Datatypes.tt'))
            cx.pending.pop()
            cx.pending.append((tup, call, "let '(" + ', '.join([tmp] + names) + f') := {tup} in'))
            for (pyname, nn, ty) in rebinds:
                cx.env[pyname] = V(ty, nn)
        else:
            cx.pending.append((tmp, call))
        return V(rt, tmp)

    # ---- statements ---------------------------------------------------------------------------------------------------
    def wrap(self, cx, body):
        """prefix the hoisted monadic calls"""
        out = body
        for item in reversed(cx.pending):
            pat, call = item[0], item[1]
            if len(item) == 3:
                out = f'{item[2]}\n{out}'
            out = f'do {pat} <- {call};\n{out}'
        cx.pending = []
        return out

    def terminates(self, stmts, cx):
        if not stmts:
            return False
        live = [s for s in stmts if id(s) not in cx.dropped]
        if not live:
            return False
        s = live[-1]
        if isinstance(s, (ast.Return, ast.Raise, ast.Continue, ast.Break)):
            return True
        if isinstance(s, ast.If):
            return bool(s.orelse) and self.terminates(s.body, cx) and self.terminates(s.orelse, cx)
        return False

    def cblock(self, stmts, cx):
        """compile a statement list followed by cx.fall (what happens when control falls off the end)"""
        if not stmts:
            if cx.fall is None:
                fail(None, f'{cx.method}: control can fall off the end of the function')
            return cx.fall(cx)
        s, rest = stmts[0], stmts[1:]
        if id(s) in cx.dropped:
            return self.cblock(rest, cx)
        if isinstance(s, ast.Expr) and isinstance(s.value, ast.Constant):
            return self.cblock(rest, cx)                      # docstring
        if isinstance(s, ast.Return):
            if s.value is None:
                fail(s, 'bare return')
            v = self.creturn(s.value, cx)
            return self.wrap(cx, cx.ret(v, cx))
        if isinstance(s, ast.Raise):
            return 'Err'
        if isinstance(s, ast.Continue):
            if cx.cont is None:
                fail(s, 'continue outside a loop')
            return cx.cont(cx)
        if isinstance(s, ast.Break):
            if cx.brk is None:
                fail(s, 'break outside a loop')
            return cx.brk(cx)
        if isinstance(s, ast.Assert):
            c = self.cexpr(s.test, cx)
            t = self.truthy(c, s)
            k = self.cblock(rest, cx.same())
            return self.wrap(cx, f'if {t} then\n{k}\nelse Err')
        if isinstance(s, (ast.Assign, ast.AnnAssign)):
            return self.cassign(s, rest, cx)
        if isinstance(s, ast.Expr):
            return self.cexprstmt(s, rest, cx)
        if isinstance(s, ast.If):
            return self.cif(s, rest, cx)
        if isinstance(s, ast.For):
            return self.cfor(s, rest, cx)
        fail(s, 'statement form')

    def creturn(self, e, cx):
        """value of a return statement, projected"""
        want = project(self.sig[cx.method])
        if isinstance(e, ast.Tuple):
            keep = []
            full = self.sig[cx.method]
            if isinstance(full, tuple) and full[0] == 'opt':
                full = full[1]
            if not (isinstance(full, tuple) and full[0] == 'tuple' and len(full[1]) == len(e.elts)):
                fail(e, 'returned tuple does not match the return annotation')
            for x, ty in zip(e.elts, full[1]):
                if ty == 'proof':
                    continue                      # PROJECTION: the proof component is dropped
                keep.append(self.cexpr(x, cx))
            if not keep:
                fail(e, 'return of proofs only')
            v = keep[0] if len(keep) == 1 else V(('tuple', [k.ty for k in keep]), '(' + ', '.join(k.code for k in keep) + ')')
        else:
            v = self.cexpr(e, cx)
        return self.coerce(v, want, e)

    def coerce(self, v, want, node):
        if v.ty == want:
            return v
        if isinstance(want, tuple) and want[0] == 'opt':
            if v.ty == 'none':
                return V(want, 'None')
            inner = self.coerce(v, want[1], node)
            return V(want, f'(Some {inner.code})')
        if want == 'clauses' and v.ty == 'clauses':
            return v
        fail(node, f'return value of type {v.ty}, expected {want}')

    def bind_names(self, target):
        if isinstance(target, ast.Name):
            return [target.id]
        if isinstance(target, ast.Tuple):
            return [n for t in target.elts for n in self.bind_names(t)]
        fail(target, 'assignment target')

    def cassign(self, s, rest, cx):
        tg = s.targets[0] if isinstance(s, ast.Assign) else s.target
        if isinstance(s, ast.Assign) and len(s.targets) != 1:
            fail(s, 'chained assignment')
        val = s.value
        # x.negated = e   /   x.left.negated = e
        if isinstance(tg, ast.Attribute):
            if tg.attr != 'negated':
                fail(s, 'attribute assignment other than .negated')
            v = self.cexpr(val, cx)
            if v.ty != 'bool':
                fail(s, '.negated must be assigned a bool')
            obj = tg.value
            if isinstance(obj, ast.Name):
                cur = self.cexpr(obj, cx)
                cx.env[obj.id] = V('cf', f'(cf_set_negated {cur.code} {v.code})')
                return self.wrap(cx, self.cblock(rest, cx.same()))
            if isinstance(obj, ast.Attribute) and obj.attr in ('left', 'right') and isinstance(obj.value, ast.Name):
                base = obj.value.id
                cur = self.cexpr(obj.value, cx)
                child = self.cexpr(obj, cx)       # checks the isinstance fact
                cx.env[base] = V('cf', f'(cf_set_{obj.attr} {cur.code} (cf_set_negated {child.code} {v.code}))')
                return self.wrap(cx, self.cblock(rest, cx.same()))
            fail(s, 'attribute assignment target')
        # d[k] = v
        if isinstance(tg, ast.Subscript):
            if not isinstance(tg.value, ast.Name):
                fail(s, 'subscript assignment target')
            d = self.cexpr(tg.value, cx)
            if d.ty != 'hint':
                fail(s, 'subscript assignment on a non-dict')
            kx = self.cexpr(tg.slice, cx)
            v = self.cexpr(val, cx)
            if kx.ty != 'fset':
                fail(s, 'dict key must be a frozenset')
            if v.ty == 'int':
                v = V('hsrc', f'(hidx {v.code})')
            if v.ty != 'hsrc':
                fail(s, f'dict value of type {v.ty}')
            cx.env[tg.value.id] = V('hint', f'(hint_set {kx.code} {v.code} {d.code})')
            return self.wrap(cx, self.cblock(rest, cx.same()))
        # annotated `hint: ResolutionHint = {}`
        if isinstance(val, ast.Dict) and not val.keys and isinstance(tg, ast.Name):
            cx.env[tg.id] = V('hint', '(@nil (list Z * hsrc))')
            return self.cblock(rest, cx.same())
        # [resolvent] = common
        if isinstance(tg, ast.List):
            if len(tg.elts) != 1 or not isinstance(tg.elts[0], ast.Name):
                fail(s, 'list-pattern assignment shape')
            v = self.cexpr(val, cx)
            if v.ty != 'fset':
                fail(s, 'list-pattern assignment from a non-set')
            nn = cx.fresh(tg.elts[0].id)
            cx.env[tg.elts[0].id] = V('int', nn)
            k = self.cblock(rest, cx.same())
            return self.wrap(cx, f'match {v.code} with\n| [{nn}] =>\n{k}\n| _ => Err\nend')
        names = self.bind_names(tg)
        # tuple unpacking of a translated call: a, pf1, pf2 = self.m(...)
        if isinstance(tg, ast.Tuple):
            if isinstance(val, ast.Call) and isinstance(val.func, ast.Attribute) and isinstance(val.func.value, ast.Name) \
                    and val.func.value.id == 'self' and val.func.attr in TRANSLATED:
                full = self.sig[val.func.attr]
                if not (isinstance(full, tuple) and full[0] == 'tuple' and len(full[1]) == len(tg.elts)):
                    fail(s, 'unpacking does not match the callee annotation')
                r = self.cexpr(val, cx)
                kept = [(t, ty) for t, ty in zip(tg.elts, full[1]) if ty != 'proof']
                if len(kept) == 1:
                    cx.env[kept[0][0].id] = r
                    return self.wrap(cx, self.cblock(rest, cx.same()))
                fail(s, 'unpacking with several non-proof components')
            v = self.cexpr(val, cx)
            if v.ty == 'pair_pat' and len(tg.elts) == 2 and all(isinstance(t_, ast.Name) for t_ in tg.elts):
                cx.env[tg.elts[0].id] = V('pat', v.code[0])
                cx.env[tg.elts[1].id] = V('pat', v.code[1])
                return self.wrap(cx, self.cblock(rest, cx.same()))
            # a, b = res  where res : option (x, proof)
            if isinstance(v.ty, tuple) and v.ty[0] == 'opt':
                full = None
                if isinstance(val, ast.Name) and val.id in cx.fulltypes:
                    full = cx.fulltypes[val.id]
                if not (isinstance(full, tuple) and full[0] == 'opt' and isinstance(full[1], tuple) and full[1][0] == 'tuple'
                        and len(full[1][1]) == len(tg.elts)):
                    fail(s, 'unpacking of an optional value of unknown shape')
                kept = [(t, ty) for t, ty in zip(tg.elts, full[1][1]) if ty != 'proof']
                if not kept or not all(isinstance(k_[0], ast.Name) for k_ in kept):
                    fail(s, 'unpacking shape')
                nns = [cx.fresh(k_[0].id) for k_ in kept]
                for (t_, ty_), nn in zip(kept, nns):
                    cx.env[t_.id] = V(ty_, nn)
                k = self.cblock(rest, cx.same())
                pat_ = nns[0] if len(nns) == 1 else '(' + ', '.join(nns) + ')'
                return self.wrap(cx, f'match {v.code} with\n| Some {pat_} =>\n{k}\n| None => Err\nend')
            if v.parts is not None and len(v.parts) == len(tg.elts) and all(isinstance(t, ast.Name) for t in tg.elts):
                for t, part in zip(tg.elts, v.parts):
                    cx.env[t.id] = part
                return self.wrap(cx, self.cblock(rest, cx.same()))
            if isinstance(v.ty, tuple) and v.ty[0] == 'tuple' and len(v.ty[1]) == len(tg.elts) \
                    and all(isinstance(t, ast.Name) for t in tg.elts):
                nns = []
                for t, ty in zip(tg.elts, v.ty[1]):
                    nn = cx.fresh(t.id)
                    nns.append(nn)
                for t, ty, nn in zip(tg.elts, v.ty[1], nns):
                    cx.env[t.id] = V(ty, nn)
                k = self.cblock(rest, cx.same())
                return self.wrap(cx, f"let '({', '.join(nns)}) := {v.code} in\n{k}")
            fail(s, f'tuple unpacking of {v.ty}')
        # plain  x = e
        name = names[0]
        full = None
        if isinstance(val, ast.Call) and isinstance(val.func, ast.Attribute) and isinstance(val.func.value, ast.Name) \
                and val.func.value.id == 'self' and val.func.attr in TRANSLATED:
            full = self.sig[val.func.attr]
        v = self.cexpr(val, cx)
        if isinstance(s, ast.AnnAssign):
            want = ann_type(s.annotation)
            if want != v.ty and not (want == 'pat' and v.ty == 'pat'):
                fail(s, f'annotation {want} does not fit {v.ty}')
        cx.env[name] = v
        if full is not None:
            cx.fulltypes[name] = full
        return self.wrap(cx, self.cblock(rest, cx.same()))

    def cexprstmt(self, s, rest, cx):
        e = s.value
        if isinstance(e, ast.Call) and isinstance(e.func, ast.Attribute) and e.func.attr == 'append' \
                and isinstance(e.func.value, ast.Name) and len(e.args) == 1:
            lst = self.cexpr(e.func.value, cx)
            v = self.cexpr(e.args[0], cx)
            et = {'fsetlist': 'fset', 'clauses': 'clause', 'clause': 'int'}.get(lst.ty)
            if et != v.ty:
                fail(s, f'append of {v.ty} to {lst.ty}')
            cx.env[e.func.value.id] = V(lst.ty, f'({lst.code} ++ [{v.code}])')
            return self.wrap(cx, self.cblock(rest, cx.same()))
        fail(s, 'expression statement')

    # ---- if ---------------------------------------------------------------------------------------------------------------
    def cif(self, s, rest, cx):
        t = s.test
        then_term = self.terminates(s.body, cx)
        else_term = self.terminates(s.orelse, cx) if s.orelse else False

        def branch(body, sub, terminated):
            return self.cblock(body if terminated else body + rest, sub)

        # isinstance tests
        if isinstance(t, ast.Call) and isinstance(t.func, ast.Name) and t.func.id == 'isinstance' and not getattr(s, '_sorted', False):
            # an if/elif chain of isinstance tests of ONE object against DISJOINT ConjForm classes: the order of the arms is
            # irrelevant (the tests are pure and mutually exclusive), so the arms are put into a fixed class order
            order = ['CFBot', 'CFVar', 'CFAnd', 'CFOr']
            key0 = ast.unparse(t.args[0])
            chain, cur = [], s
            while isinstance(cur, ast.If) and isinstance(cur.test, ast.Call) and isinstance(cur.test.func, ast.Name) \
                    and cur.test.func.id == 'isinstance' and len(cur.test.args) == 2 and isinstance(cur.test.args[1], ast.Name) \
                    and cur.test.args[1].id in order and ast.unparse(cur.test.args[0]) == key0 \
                    and cur.test.args[1].id not in [c_ for c_, _, _ in chain]:
                chain.append((cur.test.args[1].id, cur.test, cur.body))
                if len(cur.orelse) == 1 and isinstance(cur.orelse[0], ast.If):
                    cur = cur.orelse[0]
                else:
                    cur = list(cur.orelse)
                    break
            final = cur if isinstance(cur, list) else [cur]
            if len(chain) > 1:
                chain.sort(key=lambda x: order.index(x[0]))
                node = None
                for cls_, test_, body_ in reversed(chain):
                    n_ = ast.If(test=test_, body=body_, orelse=(final if node is None else [node]))
                    ast.copy_location(n_, s)
                    n_._sorted = True
                    node = n_
                return self.cif(node, rest, cx)
        if isinstance(t, ast.Call) and isinstance(t.func, ast.Name) and t.func.id == 'isinstance':
            obj, cls = t.args
            if not isinstance(cls, ast.Name):
                fail(t, 'isinstance class')
            v = self.cexpr(obj, cx)
            key = ast.unparse(obj)
            if v.ty == 'cf' and cls.id in ('CFBot', 'CFVar', 'CFOr', 'CFAnd'):
                a = cx.same()
                a.facts = cx.facts | {(key, cls.id)}
                th = branch(s.body, a, then_term)
                el = branch(s.orelse, cx.same(), else_term)
                return self.wrap(cx, f'if is_{cls.id} {v.code} then\n{th}\nelse\n{el}')
            if v.ty == 'pat' and cls.id == 'MetaVar' and isinstance(obj, ast.Name):
                a = cx.same()
                nn = cx.fresh(obj.id + '_name')
                a.env[obj.id] = V('metavar', nn)          # inside the branch the only use is `.name`
                a.env['$pat:' + obj.id] = v
                th = branch(s.body, a, then_term)
                el = branch(s.orelse, cx.same(), else_term)
                return self.wrap(cx, f'match {v.code} with\n| KVar {nn} =>\n{th}\n| _ =>\n{el}\nend')
            fail(t, 'isinstance test')
        # walrus:  x := Implies.extract(pat)
        if isinstance(t, ast.NamedExpr) and isinstance(t.value, ast.Call) and isinstance(t.value.func, ast.Attribute) \
                and isinstance(t.value.func.value, ast.Name) and t.value.func.value.id == 'Implies' \
                and t.value.func.attr == 'extract' and len(t.value.args) == 1:
            v = self.cexpr(t.value.args[0], cx)
            if v.ty != 'pat':
                fail(t, 'Implies.extract of a non-pattern')
            a = cx.same()
            n0, n1 = cx.fresh(t.target.id + '_0'), cx.fresh(t.target.id + '_1')
            a.env[t.target.id] = V('pair_pat', (n0, n1))
            th = branch(s.body, a, then_term)
            # Implies.extract raises (assert) when the pattern is not an implication: the else branch is unreachable
            return self.wrap(cx, f'match {v.code} with\n| KImp {n0} {n1} =>\n{th}\n| _ => Err\nend')
        # the truth value of the pair returned by Implies.extract (a 2-tuple) is statically True
        core_t, negated = t, False
        while isinstance(core_t, ast.UnaryOp) and isinstance(core_t.op, ast.Not):
            core_t, negated = core_t.operand, not negated
        if isinstance(core_t, ast.Name) and core_t.id in cx.env and cx.env[core_t.id].ty == 'pair_pat':
            taken = s.orelse if negated else s.body
            return self.cblock(list(taken) + (rest if not self.terminates(taken, cx) else []), cx)
        if isinstance(t, ast.UnaryOp) and isinstance(t.op, ast.Not):
            probe = cx.same()
            probe.pending = []
            inner_v = self.cexpr(t.operand, probe)
            if inner_v.ty == 'bool':
                # `if not c: A else: B`  ==  `if c: B else: A`  (also guard clauses: B empty and A returning / continuing)
                swapped = ast.If(test=t.operand, body=list(s.orelse), orelse=list(s.body))
                ast.copy_location(swapped, s)
                return self.cif(swapped, rest, cx)
        c = self.cexpr(t, cx)
        tt = self.truthy(c, t)
        # join without duplicating the continuation: both branches only assign plain variables.  Canonical form (shared with
        # conditional expressions): every variable assigned in a branch becomes `if c then <then-value> else <else-value>`
        if not then_term and not else_term and self.pure_assigns(s.body, cx) and self.pure_assigns(s.orelse, cx):
            def arm(body):
                sub = cx.same()
                sub.pending = []
                for st in body:
                    if id(st) in cx.dropped:
                        continue
                    tg = st.targets[0] if isinstance(st, ast.Assign) else st.target
                    val = self.cexpr(st.value, sub)
                    if isinstance(tg, ast.Tuple):
                        if val.parts is None or len(val.parts) != len(tg.elts) or not all(isinstance(x, ast.Name) for x in tg.elts):
                            fail(st, 'tuple assignment in a joined if')
                        for x, part in zip(tg.elts, val.parts):
                            sub.env[x.id] = part
                    else:
                        sub.env[tg.id] = V(val.ty, val.code, val.parts)
                if sub.pending:
                    fail(s, 'method call inside a joined if')
                return sub
            sa, sb = arm(s.body), arm(s.orelse)
            vars_ = []
            for b_ in (s.body, s.orelse):
                for st in b_:
                    if id(st) in cx.dropped:
                        continue
                    for n in self.bind_names(st.targets[0] if isinstance(st, ast.Assign) else st.target):
                        if n not in vars_:
                            vars_.append(n)
            for n in vars_:
                if n not in sa.env or n not in sb.env:
                    fail(s, f'variable {n} assigned in one branch only and undefined before')
                va, vb = sa.env[n], sb.env[n]
                if va.ty != vb.ty:
                    if va.ty in ('int', 'id') and vb.ty in ('int', 'id'):
                        va, vb = V('int', self.as_int(va, s)), V('int', self.as_int(vb, s))
                    else:
                        fail(s, f'branches assign different types to {n}')
                cx.env[n] = self.mk_if(tt, va, vb)
            return self.wrap(cx, self.cblock(rest, cx.same()))
        th = branch(s.body, cx.same(), then_term)
        el = branch(s.orelse, cx.same(), else_term)
        if th == el:
            return self.wrap(cx, th)              # both branches are the same term and the test is pure
        return self.wrap(cx, f'if {tt} then\n{th}\nelse\n{el}')

    def pure_assigns(self, body, cx):
        for st in body:
            if id(st) in cx.dropped:
                continue
            if not isinstance(st, (ast.Assign, ast.AnnAssign)):
                return False
            tg = st.targets[0] if isinstance(st, ast.Assign) else st.target
            if not isinstance(tg, (ast.Name, ast.Tuple)):
                return False
            if any(isinstance(c, ast.Call) and isinstance(c.func, ast.Attribute) and isinstance(c.func.value, ast.Name)
                   and c.func.value.id == 'self' for c in ast.walk(st.value)):
                return False
        return True

    # ---- for ----------------------------------------------------------------------------------------------------------------
    def cfor(self, s, rest, cx):
        if s.orelse:
            fail(s, 'for-else')
        # idiom:  for a, b in combinations(l, 2): if c: return V   (followed by the rest)
        it = s.iter
        if isinstance(it, ast.Call) and isinstance(it.func, ast.Name) and it.func.id == 'combinations':
            if not (len(it.args) == 2 and isinstance(it.args[1], ast.Constant) and it.args[1].value == 2
                    and isinstance(s.target, ast.Tuple) and len(s.target.elts) == 2
                    and len(s.body) == 1 and isinstance(s.body[0], ast.If) and not s.body[0].orelse
                    and len(s.body[0].body) == 1 and isinstance(s.body[0].body[0], ast.Return)):
                fail(s, 'combinations loop shape')
            l = self.cexpr(it.args[0], cx)
            if l.ty not in ('clause', 'fset'):
                fail(s, 'combinations over a non-integer list')
            a, b = s.target.elts[0].id, s.target.elts[1].id
            sub = cx.same()
            sub.env[a] = V('int', cname(a))
            sub.env[b] = V('int', cname(b))
            c = self.truthy(self.cexpr(s.body[0].test, sub), s)
            rvn = s.body[0].body[0].value
            live_rest = [x for x in rest if id(x) not in cx.dropped]
            if isinstance(rvn, ast.Constant) and rvn.value is True and len(live_rest) == 1 \
                    and isinstance(live_rest[0], ast.Return) and isinstance(live_rest[0].value, ast.Constant) \
                    and live_rest[0].value.value is False:
                # canonical form shared with `return any(c for a, b in combinations(l, 2))`
                ex = V('bool', f"(existsb (fun '({cname(a)}, {cname(b)}) => {c}) (combinations2 {l.code}))")
                return self.wrap(cx, cx.ret(self.coerce(ex, project(self.sig[cx.method]), s), cx))
            rv = self.creturn(rvn, sub)
            k = self.cblock(rest, cx.same())
            return self.wrap(cx, f"if existsb (fun '({cname(a)}, {cname(b)}) => {c}) (combinations2 {l.code}) then\n"
                                 f'{cx.ret(rv, cx)}\nelse\n{k}')
        # general index-driven loop
        assigned = self.assigned_in(s.body, cx)
        state = [n for n in assigned if n in cx.env and not n.startswith('$')]
        tnames = self.bind_names(s.target)
        for n in tnames:
            if n in state:
                state.remove(n)
        self.loop_counter += 1
        lname = f'gen_{cx.method}_loop{self.loop_counter}'
        # element type / iteration expression (evaluated from the current state at every iteration)
        body_cx = cx.same()
        body_cx.pending = []
        # free variables of the loop = everything in env used by the body or the iterator
        used = {n.id for st in [s] for n in ast.walk(st) if isinstance(n, ast.Name)}
        consts = [n for n in cx.env if n in used and n not in state and not n.startswith('$') and cx.env[n].ty not in ('metavar', 'pair_pat')]
        # parameters of the loop function
        pc = {n: V(cx.env[n].ty, cname(n)) for n in consts}
        ps = {n: V(cx.env[n].ty, cname(n)) for n in state}
        inner = Cx(cx.method, {**pc, **ps}, cx.proofvars, cx.dropped)
        inner.facts = set()
        inner.fulltypes = dict(cx.fulltypes)
        inner.counter = cx.counter
        itv = self.cexpr(it if not (isinstance(it, ast.Call) and isinstance(it.func, ast.Name) and it.func.id == 'enumerate')
                         else it.args[0], inner)
        if inner.pending:
            fail(s, 'method call in the loop iterator')
        enum = isinstance(it, ast.Call) and isinstance(it.func, ast.Name) and it.func.id == 'enumerate'
        et = {'fsetlist': 'fset', 'clauses': 'clause', 'clause': 'int'}.get(itv.ty)
        if et is None:
            fail(s, f'iteration over {itv.ty}')
        if enum:
            if not (isinstance(s.target, ast.Tuple) and len(s.target.elts) == 2):
                fail(s, 'enumerate target')
            i_n, x_n = s.target.elts[0].id, s.target.elts[1].id
            inner.env[i_n] = V('int', cname(i_n))
            inner.env[x_n] = V(et, cname(x_n))
            elem_pat = f'({cname(i_n)}, {cname(x_n)})'
            iter_code = f'(enumerate {itv.code})'
        else:
            if not isinstance(s.target, ast.Name):
                fail(s, 'loop target')
            inner.env[s.target.id] = V(et, cname(s.target.id))
            elem_pat = cname(s.target.id)
            iter_code = itv.code
        rett = cx.rett
        inner.rett = cx.rett
        inner.retraw = lambda code: f'Ok (LRet {code})'
        st_tys = [ps[n].ty for n in state]
        st_coq = ' * '.join(coq_type(t) for t in st_tys) if state else 'unit'

        def pack(c):
            if not state:
                return 'Datatypes.tt'
            return c.env[state[0]].code if len(state) == 1 else '(' + ', '.join(c.env[n].code for n in state) + ')'
        inner.retval = cx.retval
        inner.ret = lambda v, c: f'Ok (LRet {cx.retval(v, c)})'
        inner.fall = lambda c: f'Ok (LNext {pack(c)})'
        inner.cont = lambda c: f'Ok (LNext {pack(c)})'
        inner.brk = lambda c: f'Ok (LBreak {pack(c)})'
        inner.in_loop = True
        body = self.cblock(list(s.body), inner)
        cx.counter = inner.counter
        params = ''.join(f' ({cname(n)} : {coq_type(pc[n].ty)})' for n in consts)
        sparams = ''.join(f' ({cname(n)} : {coq_type(ps[n].ty)})' for n in state)
        st_pack = pack(inner.__class__(cx.method, ps, set(), set())) if state else 'Datatypes.tt'
        rec_args = ''.join(' ' + cname(n) for n in consts)
        if state:
            unpack = (cname(state[0]) if len(state) == 1 else '(' + ', '.join(cname(n) for n in state) + ')')
        else:
            unpack = '_'
        d = (f'Fixpoint {lname} (fuel : nat){params}{sparams} (idx : nat) {{struct fuel}}\n'
             f'  : res (lres ({st_coq}) ({rett})) :=\n'
             f'  match fuel with\n  | O => Fuel\n  | S fuel =>\n'
             f'    match nth_error {iter_code} idx with\n'
             f'    | None => Ok (Done {st_pack})\n'
             f'    | Some {elem_pat} =>\n'
             f'      do step <-\n{indent(body, 8)};\n'
             f'      match step with\n'
             f'      | LNext {unpack} => {lname} fuel{rec_args}{"".join(" " + cname(n) for n in state)} (S idx)\n'
             f'      | LBreak s => Ok (Done s)\n'
             f'      | LRet r => Ok (Ret r)\n'
             f'      end\n    end\n  end.')
        self.defs.append(d)
        # the call site
        call = f'{lname} fuel' + ''.join(' ' + cx.env[n].code for n in consts) + ''.join(' ' + cx.env[n].code for n in state) + ' 0'
        news = [cx.fresh(n) for n in state]
        for n, nn in zip(state, news):
            cx.env[n] = V(ps[n].ty, nn)
        k = self.cblock(rest, cx.same())
        if state:
            spat = news[0] if len(news) == 1 else '(' + ', '.join(news) + ')'
        else:
            spat = '_'
        tmp = cx.fresh('lr')
        return self.wrap(cx, f'do {tmp} <- {call};\nmatch {tmp} with\n| Done {spat} =>\n{k}\n| Ret r => {cx.retraw("r")}\nend')

    def assigned_in(self, body, cx):
        out = []

        def add(n):
            if n not in out:
                out.append(n)
        for st in body:
            for n in ast.walk(st):
                if isinstance(n, ast.stmt) and id(n) in cx.dropped:
                    continue
                if isinstance(n, (ast.Assign, ast.AnnAssign)):
                    tg = n.targets[0] if isinstance(n, ast.Assign) else n.target
                    if isinstance(tg, (ast.Name, ast.Tuple)):
                        for x in self.bind_names(tg):
                            add(x)
                    elif isinstance(tg, ast.Subscript) and isinstance(tg.value, ast.Name):
                        add(tg.value.id)
                    elif isinstance(tg, ast.Attribute):
                        b = tg.value
                        while isinstance(b, ast.Attribute):
                            b = b.value
                        if isinstance(b, ast.Name):
                            add(b.id)
                if isinstance(n, ast.Call) and isinstance(n.func, ast.Attribute) and n.func.attr == 'append' \
                        and isinstance(n.func.value, ast.Name):
                    add(n.func.value.id)
                if isinstance(n, ast.Call) and isinstance(n.func, ast.Attribute) and isinstance(n.func.value, ast.Name) \
                        and n.func.value.id == 'self' and n.func.attr in TRANSLATED:
                    f = self.methods[n.func.attr]
                    params = [a.arg for a in f.args.args if a.arg != 'self']
                    for a, p in zip(n.args, params):
                        if p in self.mutated[n.func.attr] and isinstance(a, ast.Name):
                            add(a.id)
        return out

    # ---- methods -----------------------------------------------------------------------------------------------------------
    # ---- AST canonicalisation (before classification and compilation) ---------------------------------------------------
    def helper_params(self, h):
        f = self.methods[h]
        static = any(isinstance(d, ast.Name) and d.id == 'staticmethod' for d in f.decorator_list)
        args = list(f.args.args)
        if not static:
            args = args[1:]
        if f.args.vararg or f.args.kwarg or f.args.kwonlyargs or f.args.defaults:
            fail(f, f'helper {h}: only plain positional parameters are supported')
        return args

    def verdict_helper(self, e):
        """name of the helper if `e` is `self.h(...)` with h an untranslated method of Tautology returning verdict data"""
        if isinstance(e, ast.Call) and isinstance(e.func, ast.Attribute) and isinstance(e.func.value, ast.Name) \
                and e.func.value.id == 'self' and e.func.attr in self.methods and e.func.attr not in TRANSLATED \
                and e.func.attr not in PROOF_RECONSTRUCTION:
            t = self.sig.get(e.func.attr)
            if t is not None and t != 'unknown' and project(t) != 'proof':
                return e.func.attr
        return None

    def desugar(self, f, depth=0):
        """behaviour-preserving rewrites to a canonical statement form:
           * `x = self.h(a..)` with h a single-exit helper method returning verdict data  ==  h's body inlined
             (parameters and locals renamed apart, the final `return e` becomes `x = e`);
           * `x: T = {k: v for tgt in it if c}`  ==  `x: T = {}` ; `for tgt in it: if c: x[k] = v`;
           * `i = 0` ; `while i < len(l): x = l[i]; i += 1; BODY`  ==  `for x in l: BODY`   (i not used elsewhere; a Python
             list iterator IS this index loop, so a list that grows while it is traversed behaves identically);
           * `ys = [e(x) for x in xs]` ; ... `for .. in [enumerate(]ys[)]: BODY`  ==  the loop over xs with `y = e(x)` first
             (ys used nowhere else, xs not modified)"""
        if depth > 8:
            fail(f, 'helper inlining too deep')
        tr = self

        def rename(node, mapping):
            class R(ast.NodeTransformer):
                def visit_Name(r, n):
                    if n.id in mapping:
                        return ast.copy_location(ast.Name(id=mapping[n.id], ctx=n.ctx), n)
                    return n
            return R().visit(node)

        def stored_names(stmts):
            out = []
            for st in stmts:
                for n in ast.walk(st):
                    if isinstance(n, ast.Name) and isinstance(n.ctx, ast.Store) and n.id not in out:
                        out.append(n.id)
            return out

        def loads(node_list, name):
            return sum(1 for st in node_list for n in ast.walk(st)
                       if isinstance(n, ast.Name) and n.id == name and isinstance(n.ctx, ast.Load))

        def stores(node_list, name):
            c = 0
            for st in node_list:
                for n in ast.walk(st):
                    if isinstance(n, ast.Name) and n.id == name and isinstance(n.ctx, ast.Store):
                        c += 1
                    if isinstance(n, ast.Call) and isinstance(n.func, ast.Attribute) and isinstance(n.func.value, ast.Name) \
                            and n.func.value.id == name and n.func.attr in ('append', 'extend', 'insert', 'pop', 'remove', 'clear', 'sort'):
                        c += 1
                    if isinstance(n, (ast.Assign, ast.AugAssign)):
                        tgs = n.targets if isinstance(n, ast.Assign) else [n.target]
                        for t in tgs:
                            if isinstance(t, ast.Subscript) and isinstance(t.value, ast.Name) and t.value.id == name:
                                c += 1
            return c

        import copy

        def inline_helpers(stmts):
            out = []
            for st in stmts:
                val = getattr(st, 'value', None) if isinstance(st, (ast.Assign, ast.AnnAssign)) else None
                h = tr.verdict_helper(val) if val is not None else None
                tg = None
                if h is not None:
                    tg = st.targets[0] if isinstance(st, ast.Assign) else st.target
                if h is not None and isinstance(tg, ast.Name):
                    hf = copy.deepcopy(tr.methods[h])
                    body = [x for x in hf.body if not (isinstance(x, ast.Expr) and isinstance(x.value, ast.Constant))]
                    rets = [n for x in body for n in ast.walk(x) if isinstance(n, ast.Return)]
                    if body and isinstance(body[-1], ast.Return) and len(rets) == 1 and body[-1].value is not None \
                            and h not in tr.self_calls(hf):
                        params = tr.helper_params(h)
                        if len(params) != len(val.args) or val.keywords:
                            fail(st, f'call of helper {h}: positional arguments expected')
                        names = [p.arg for p in params] + stored_names(body)
                        mapping = {n: f'{n}__{h}' for n in names}
                        pre = []
                        for p_, a_ in zip(params, val.args):
                            asg = ast.AnnAssign(target=ast.Name(id=mapping[p_.arg], ctx=ast.Store()), annotation=p_.annotation,
                                                value=a_, simple=1) if p_.annotation is not None else \
                                ast.Assign(targets=[ast.Name(id=mapping[p_.arg], ctx=ast.Store())], value=a_)
                            pre.append(asg)
                        inl = [rename(x, mapping) for x in body[:-1]]
                        fin = ast.Assign(targets=[ast.Name(id=tg.id, ctx=ast.Store())], value=rename(body[-1].value, mapping))
                        new = pre + inl + [fin]
                        for n in new:
                            ast.copy_location(n, st)
                            ast.fix_missing_locations(n)
                        out += inline_helpers(new)
                        continue
                out.append(st)
            return out

        def dictcomp(stmts):
            out = []
            for st in stmts:
                val = getattr(st, 'value', None)
                if isinstance(st, (ast.Assign, ast.AnnAssign)) and isinstance(val, ast.DictComp):
                    tg = st.targets[0] if isinstance(st, ast.Assign) else st.target
                    if not isinstance(tg, ast.Name) or len(val.generators) != 1 or val.generators[0].is_async:
                        fail(st, 'dict comprehension shape')
                    g = val.generators[0]
                    init = ast.AnnAssign(target=ast.Name(id=tg.id, ctx=ast.Store()),
                                         annotation=(st.annotation if isinstance(st, ast.AnnAssign) else ast.Name(id='ResolutionHint', ctx=ast.Load())),
                                         value=ast.Dict(keys=[], values=[]), simple=1)
                    store = ast.Assign(targets=[ast.Subscript(value=ast.Name(id=tg.id, ctx=ast.Load()), slice=val.key, ctx=ast.Store())],
                                       value=val.value)
                    body = [store]
                    if g.ifs:
                        test = g.ifs[0] if len(g.ifs) == 1 else ast.BoolOp(op=ast.And(), values=list(g.ifs))
                        body = [ast.If(test=test, body=[store], orelse=[])]
                    loop = ast.For(target=g.target, iter=g.iter, body=body, orelse=[])
                    for n in (init, loop):
                        ast.copy_location(n, st)
                        ast.fix_missing_locations(n)
                    out += [init, loop]
                else:
                    out.append(st)
            return out

        def while_index(stmts, whole):
            out = []
            k = 0
            while k < len(stmts):
                st = stmts[k]
                nxt = stmts[k + 1] if k + 1 < len(stmts) else None
                if isinstance(st, ast.Assign) and len(st.targets) == 1 and isinstance(st.targets[0], ast.Name) \
                        and isinstance(st.value, ast.Constant) and st.value.value == 0 and type(st.value.value) is int \
                        and isinstance(nxt, ast.While) and not nxt.orelse:
                    i = st.targets[0].id
                    t = nxt.test
                    ok = (isinstance(t, ast.Compare) and len(t.ops) == 1 and isinstance(t.ops[0], ast.Lt)
                          and isinstance(t.left, ast.Name) and t.left.id == i
                          and isinstance(t.comparators[0], ast.Call) and isinstance(t.comparators[0].func, ast.Name)
                          and t.comparators[0].func.id == 'len' and len(t.comparators[0].args) == 1
                          and isinstance(t.comparators[0].args[0], ast.Name))
                    if ok and len(nxt.body) >= 2:
                        lname = t.comparators[0].args[0].id
                        b0, b1 = nxt.body[0], nxt.body[1]
                        ok = (isinstance(b0, ast.Assign) and len(b0.targets) == 1 and isinstance(b0.targets[0], ast.Name)
                              and isinstance(b0.value, ast.Subscript) and isinstance(b0.value.value, ast.Name)
                              and b0.value.value.id == lname and isinstance(b0.value.slice, ast.Name) and b0.value.slice.id == i
                              and isinstance(b1, ast.AugAssign) and isinstance(b1.op, ast.Add) and isinstance(b1.target, ast.Name)
                              and b1.target.id == i and isinstance(b1.value, ast.Constant) and b1.value.value == 1)
                        rest_body = nxt.body[2:]
                        # the index variable must not be used anywhere else in the function
                        uses = sum(1 for n in ast.walk(whole) if isinstance(n, ast.Name) and n.id == i)
                        if ok and uses == 4 and loads(rest_body, i) == 0:
                            loop = ast.For(target=ast.Name(id=b0.targets[0].id, ctx=ast.Store()),
                                           iter=ast.Name(id=lname, ctx=ast.Load()), body=rest_body, orelse=[])
                            ast.copy_location(loop, nxt)
                            ast.fix_missing_locations(loop)
                            out.append(loop)
                            k += 2
                            continue
                out.append(st)
                k += 1
            return out

        def fuse_listcomp(stmts, whole):
            out = list(stmts)
            k = 0
            while k < len(out):
                st = out[k]
                if isinstance(st, ast.Assign) and len(st.targets) == 1 and isinstance(st.targets[0], ast.Name) \
                        and isinstance(st.value, ast.ListComp) and len(st.value.generators) == 1:
                    g = st.value.generators[0]
                    ys = st.targets[0].id
                    if not g.ifs and isinstance(g.target, ast.Name) and isinstance(g.iter, ast.Name):
                        xs = g.iter.id
                        for j in range(k + 1, len(out)):
                            lp = out[j]
                            if not isinstance(lp, ast.For):
                                continue
                            it = lp.iter
                            enum = isinstance(it, ast.Call) and isinstance(it.func, ast.Name) and it.func.id == 'enumerate' \
                                and len(it.args) == 1 and isinstance(it.args[0], ast.Name) and it.args[0].id == ys
                            plain = isinstance(it, ast.Name) and it.id == ys
                            if not (enum or plain):
                                continue
                            total = sum(1 for n in ast.walk(whole) if isinstance(n, ast.Name) and n.id == ys)
                            if total != 2 or stores(out[k + 1:j + 1], xs) != 0:
                                break
                            elem_t = lp.target.elts[1] if enum else lp.target
                            if not isinstance(elem_t, ast.Name) or (enum and not (isinstance(lp.target, ast.Tuple) and len(lp.target.elts) == 2)):
                                break
                            src = elem_t.id + '__src'
                            first = ast.Assign(targets=[ast.Name(id=elem_t.id, ctx=ast.Store())],
                                               value=rename(copy.deepcopy(st.value.elt), {g.target.id: src}))
                            new_t = ast.Tuple(elts=[lp.target.elts[0], ast.Name(id=src, ctx=ast.Store())], ctx=ast.Store()) if enum \
                                else ast.Name(id=src, ctx=ast.Store())
                            new_it = ast.Call(func=ast.Name(id='enumerate', ctx=ast.Load()), args=[ast.Name(id=xs, ctx=ast.Load())], keywords=[]) \
                                if enum else ast.Name(id=xs, ctx=ast.Load())
                            loop = ast.For(target=new_t, iter=new_it, body=[first] + lp.body, orelse=[])
                            for n in (first, loop):
                                ast.copy_location(n, lp)
                                ast.fix_missing_locations(n)
                            out[j] = loop
                            del out[k]
                            k -= 1
                            break
                k += 1
            return out

        def walk_lists(node, fn):
            for fld, val in ast.iter_fields(node):
                if isinstance(val, list) and val and isinstance(val[0], ast.stmt):
                    for x in val:
                        walk_lists(x, fn)
                    setattr(node, fld, fn(getattr(node, fld)))
                elif isinstance(val, list):
                    for x in val:
                        if isinstance(x, ast.AST):
                            walk_lists(x, fn)
                elif isinstance(val, ast.AST):
                    walk_lists(val, fn)

        def match_to_if(stmts):
            """`match x: case C1(): A  case C2(): B  case _: D`  ==  `if isinstance(x, C1): A elif isinstance(x, C2): B else: D`"""
            out = []
            for st in stmts:
                if isinstance(st, ast.Match) and isinstance(st.subject, ast.Name):
                    arms, default = [], None
                    ok = True
                    for k, c in enumerate(st.cases):
                        pt = c.pattern
                        if c.guard is not None:
                            ok = False
                        elif isinstance(pt, ast.MatchClass) and isinstance(pt.cls, ast.Name) and not pt.patterns and not pt.kwd_patterns:
                            arms.append((pt.cls.id, c.body))
                        elif isinstance(pt, ast.MatchAs) and pt.pattern is None and pt.name is None and k == len(st.cases) - 1:
                            default = c.body
                        else:
                            ok = False
                    if not ok or not arms:
                        fail(st, 'match statement: only `case Cls():` arms and a final `case _:` are supported')
                    node = list(default) if default is not None else []
                    for cls_, body_ in reversed(arms):
                        test = ast.Call(func=ast.Name(id='isinstance', ctx=ast.Load()),
                                        args=[ast.Name(id=st.subject.id, ctx=ast.Load()), ast.Name(id=cls_, ctx=ast.Load())], keywords=[])
                        n_ = ast.If(test=test, body=body_, orelse=node)
                        ast.copy_location(n_, st)
                        ast.fix_missing_locations(n_)
                        node = [n_]
                    out += node
                else:
                    out.append(st)
            return out

        def extract_to_walrus(stmts):
            """`x = Implies.extract(p)` ; REST   ==   `if x := Implies.extract(p): REST else: raise`
            (extract asserts that p is an implication, so the statement raises exactly when the walrus test would fail)"""
            for k, st in enumerate(stmts):
                if isinstance(st, ast.Assign) and len(st.targets) == 1 and isinstance(st.targets[0], ast.Name) \
                        and isinstance(st.value, ast.Call) and isinstance(st.value.func, ast.Attribute) \
                        and isinstance(st.value.func.value, ast.Name) and st.value.func.value.id == 'Implies' \
                        and st.value.func.attr == 'extract' and len(st.value.args) == 1 and isinstance(st.value.args[0], ast.Name):
                    w = ast.NamedExpr(target=ast.Name(id=st.targets[0].id, ctx=ast.Store()), value=st.value)
                    raise_ = ast.Raise(exc=ast.Call(func=ast.Name(id='AssertionError', ctx=ast.Load()), args=[], keywords=[]), cause=None)
                    n_ = ast.If(test=w, body=extract_to_walrus(stmts[k + 1:]), orelse=[raise_])
                    for x in (n_, raise_):
                        ast.copy_location(x, st)
                        ast.fix_missing_locations(x)
                    return stmts[:k] + [n_]
            return stmts

        f = copy.deepcopy(f)
        walk_lists(f, match_to_if)
        walk_lists(f, extract_to_walrus)
        walk_lists(f, inline_helpers)
        walk_lists(f, dictcomp)
        walk_lists(f, lambda st: while_index(st, f))
        walk_lists(f, lambda st: fuse_listcomp(st, f))
        return f

    def method(self, m):
        f = self.methods[m]
        proofvars, dropped = self.classify(f)
        env = {}
        params = []
        for a in f.args.args:
            if a.arg == 'self':
                continue
            t = ann_type(a.annotation)
            if t == 'proof':
                continue
            env[a.arg] = V(t, cname(a.arg))
            params.append((a.arg, t))
        cx = Cx(m, env, proofvars, dropped)
        mut = self.mutated[m]

        def retval(v, c):
            if mut:
                return '(' + ', '.join([v.code] + [c.env[p].code for p in mut]) + ')'
            return v.code
        cx.retval = retval
        cx.ret = lambda v, c: f'Ok {retval(v, c)}'
        cx.retraw = lambda code: f'Ok {code}'
        rt = coq_type(project(self.sig[m]))
        if mut:
            rt = '(' + ' * '.join([rt] + [coq_type(dict(params)[p]) for p in mut]) + ')'
        cx.rett = rt
        body = self.cblock(list(f.body), cx)
        ps = ''.join(f' ({cname(n)} : {coq_type(t)})' for n, t in params)
        recursive = m in self.self_calls(f)
        ndropped = len(dropped)
        hdr = f'(* {m}: {ndropped} proof-layer statement(s) dropped; proof-layer variables: {", ".join(sorted(proofvars)) or "-"} *)'
        if self.fuel[m] and recursive:
            d = (f'{hdr}\nFixpoint gen_{m} (fuel : nat){ps} {{struct fuel}} : res ({rt}) :=\n'
                 f'  match fuel with\n  | O => Fuel\n  | S fuel =>\n{indent(body, 4)}\n  end.')
        elif self.fuel[m]:
            d = f'{hdr}\nDefinition gen_{m} (fuel : nat){ps} : res ({rt}) :=\n{indent(body, 2)}.'
        else:
            d = f'{hdr}\nDefinition gen_{m}{ps} : res ({rt}) :=\n{indent(body, 2)}.'
        self.defs.append(d)


class Cx:
    def __init__(self, method, env, proofvars, dropped):
        self.method, self.env, self.proofvars, self.dropped = method, dict(env), proofvars, dropped
        self.pending = []
        self.facts = set()
        self.fulltypes = {}
        self.ret = None
        self.retval = None
        self.retraw = None
        self.rett = None
        self.fall = None
        self.cont = None
        self.brk = None
        self.counter = [0]

    def fresh(self, base):
        self.counter[0] += 1
        return f'{cname(base)}{self.counter[0]}'

    def same(self):
        c = Cx(self.method, self.env, self.proofvars, self.dropped)
        c.facts = set(self.facts)
        c.fulltypes = dict(self.fulltypes)
        c.ret, c.fall, c.cont, c.brk = self.ret, self.fall, self.cont, self.brk
        c.retval, c.retraw, c.rett = self.retval, self.retraw, self.rett
        c.counter = self.counter
        return c

    child = same


def indent(s, n):
    return '\n'.join(' ' * n + line for line in s.split('\n'))


HEADER = '''(** GENERATED by translators/taut_verdict.py from generation/src/proof_generation/tautology.py — do not edit.

    Verdict layer of the tautology prover, translated statement by statement from the CURRENT source:
      %s.
    PROJECTION: proof objects are dropped — every ProofThunk value, every call of a ProofThunk-returning method, every
    statement that only computes such values (or variables read only by such statements), the proof reconstruction
    (build_proof_from_hint, prove_trivial_clause); `(value, proof, ...)` tuples are projected to `value`.
    Raising = [Err]; recursion and loops run on explicit [fuel] ([Fuel] when exhausted).  A method that mutates a
    parameter returns the final value of that parameter next to its result.
    Reading of the Python data model: coq/Taut/GenPrelude.v. *)
From Coq Require Import ZArith NArith List Bool.
From Pi2 Require Import Taut.Model Taut.GenPrelude.
Import ListNotations.
Local Open Scope Z_scope.
'''


def generate(repo):
    path = os.path.join(repo, SRC)
    tree = ast.parse(open(path).read())
    base = os.path.join(repo, 'generation/src/proof_generation')
    parents = [(ast.parse(open(os.path.join(base, 'proofs/propositional.py')).read()), 'Propositional'),
               (ast.parse(open(os.path.join(base, 'proof.py')).read()), 'ProofExp')]
    tr = Translator(tree, parents)
    for m in TRANSLATED:
        tr.method(m)
    out = HEADER % ', '.join(TRANSLATED)
    out += '\n' + '\n\n'.join(tr.defs) + '\n'
    out += '''
(** the decision function of the source: prove_tautology on the expanded pattern, verdict only
    (Some true = the pattern is proved, Some false = its negation is proved, None = declined) *)
Definition gen_decide (fuel : nat) (f : form) : res (option bool) := gen_prove_tautology fuel (expand f).
'''
    return out


if __name__ == '__main__':
    import sys
    print(generate(sys.argv[1] if len(sys.argv) > 1 else '/repo'))

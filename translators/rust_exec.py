"""Fail-closed statement-level translator: `execute_instructions`, `verify` and the stack / constructor helpers of rust/src/lib.rs
-> coq/Gen/Exec.v (`gen_step_i`, `gen_exec_fuel`, `gen_exec`, `gen_verify`).

Unlike rust_inst.py (whole-arm templates) this one translates STATEMENT BY STATEMENT: every arm of the big `match Instruction::from(..)`
is a sequence of the statement forms listed in `Arm.stmt`; the machine state is threaded through the generated Gallina as the shadowed
variables `bs` (rest of the byte stream), `stk`, `mem`, `cl`, and every Rust panic / expect / assert / unimplemented becomes `None`.
So the ORDER of reads and pops, WHICH check guards which push, WHICH phase publishes where and what `verify` clears between the phases
all come from the source text; `ML/GenExec.v` then proves the generated functions equal to the hand-written model the theorems are about.
Anything outside the recognised forms aborts (SystemExit) -> proof stage broken -> the check goes to its search stage.
"""
import os
import re
import sys

sys.path.insert(0, os.path.dirname(os.path.abspath(__file__)))
import opcodes  # noqa: E402


def fail(msg):
    raise SystemExit('rust_exec translator: ' + msg)


def strip_strings(s):
    """replace every string literal by "" (panic messages contain braces and parentheses)"""
    out, i, n = [], 0, len(s)
    while i < n:
        ch = s[i]
        if ch == '"':
            j = i + 1
            while j < n and s[j] != '"':
                j += 2 if s[j] == '\\' else 1
            if j >= n:
                fail('unterminated string literal')
            out.append('""')
            i = j + 1
        elif s.startswith('//', i):
            while i < n and s[i] != '\n':
                i += 1
        else:
            out.append(ch)
            i += 1
    return ''.join(out)


def norm(s):
    s = ' '.join(strip_strings(s).split())
    s = re.sub(r',\s*\}', ' }', s)                # trailing commas
    s = re.sub(r',\s*\)', ')', s)
    s = re.sub(r'\(\s+', '(', s)
    s = re.sub(r'\s+\)', ')', s)
    s = re.sub(r'\s+\.', '.', s)                   # method chains broken over lines
    return s


READ = '*iterator.next().expect("")'


def reader_helpers(src):
    """private one-line helpers that read one operand byte: `fn NAME(iterator: &mut InstrIterator, MSG: &str) -> u8|Id { *iterator.next().expect(MSG) }`
    (optionally with `return`, `as Id`); calls `NAME(iterator, "..")` are expanded to the read they stand for before anything is matched"""
    names = []
    for m in re.finditer(r'\nfn (\w+)\(iterator: &mut InstrIterator, (\w+): &(?:\'static )?str\) -> (?:u8|Id|InstByte) \{', src):
        body = norm(find_fn(src, m.group(1)))
        b = re.sub(r'^fn [^{]*\{ (?:return )?(.*?);? \}$', r'\1', body)
        b = re.sub(r' as (?:Id|u8|InstByte)$', '', b.strip()).strip()
        b = re.sub(r'^\((.*)\)$', r'\1', b)
        if b == f'*iterator.next().expect({m.group(2)})':
            names.append(m.group(1))
    return names


def unfold_usize_from(text):
    """`usize::from(E)` (E: u8) is `E as usize`"""
    while True:
        i = text.find('usize::from(')
        if i < 0:
            return text
        j = match_close(text, i + len('usize::from'))
        text = text[:i] + text[i + len('usize::from('):j] + ' as usize' + text[j + 1:]


def canon(text, readers):
    """canonical form of normalised Rust text: reader helpers expanded, redundant parentheses around a byte read dropped"""
    text = unfold_usize_from(text)
    for n in readers:
        text = re.sub(r'\b' + n + r'\(iterator, ""\)', READ, text)
    text = re.sub(r'(?<![\w!>])\(' + re.escape(READ) + r'\)', READ, text)
    return text


def alpha_params(text):
    """rename the parameters of `fn name(p: T, ..) ..` to a0, a1, .. throughout the function text (struct field NAMES are left alone;
    the field shorthand `{ id, ..}` is first written out as `{ id: id, ..}`)"""
    m = re.match(r'(fn \w+(?:<\'a>)?\()([^)]*)(\).*)', text)
    if not m:
        return text
    head, params, rest = m.groups()
    rest = re.sub(r'Pattern::MetaVar \{ id, ', 'Pattern::MetaVar { id: id, ', rest)
    names = [x.split(':')[0].replace('mut ', '').strip() for x in params.split(',') if ':' in x]
    newparams = params
    for k, par in enumerate(names):
        if par and par != 'self':
            newparams = re.sub(r'\b' + re.escape(par) + r'\b(?=\s*:)', f'a{k}', newparams, count=1)
            rest = re.sub(r'\b' + re.escape(par) + r'\b(?!\s*:)', f'a{k}', rest)
    return head + newparams + rest


def canon_helper(text):
    """helper bodies: `return X;` as last statement / in a match arm is the value X"""
    text = re.sub(r'^(fn [^{]*\{ )return (.*); \}$', r'\1\2 }', text)
    text = re.sub(r'=> return (\w+),', r'=> \1,', text)
    text = re.sub(r'Term::(Pattern|Proved)\((\w+)\) => \2,', r'Term::\1(p) => p,', text)
    text = re.sub(r'\{ let Term::(Pattern|Proved)\((\w+)\) = pop_stack\(stack\) else \{ (panic!\(""\));? \}; \2 \}$',
                  r'{ match pop_stack(stack) { Term::\1(\2) => \2, _ => \3 } }', text)
    text = re.sub(r'(Term::(?:Pattern|Proved)\(\w+\) => \w+, )Term::(?:Pattern|Proved)\(_\) => panic', r'\1_ => panic', text)
    return text


def find_fn(src, name):
    m = re.search(r'\n(?:pub )?fn ' + name + r'(?:<\'a>)?\(', src)
    if not m:
        fail(f'fn {name} not found')
    start = m.start() + 1
    i = src.index('{', start)
    depth, j, instr = 0, i, False
    while True:
        c = src[j]
        if instr:
            if c == '\\':
                j += 1
            elif c == '"':
                instr = False
        elif c == '"':
            instr = True
        elif c == '{':
            depth += 1
        elif c == '}':
            depth -= 1
            if depth == 0:
                break
        j += 1
    return src[start:j + 1]


def match_close(s, i):
    """s[i] is an opening bracket; index of its partner"""
    op = s[i]
    cl = {'{': '}', '(': ')', '[': ']'}[op]
    depth = 0
    for j in range(i, len(s)):
        if s[j] == op:
            depth += 1
        elif s[j] == cl:
            depth -= 1
            if depth == 0:
                return j
    fail('unbalanced ' + op + ' in ' + s[i:i + 60])


def split_top(s, sep=','):
    parts, depth, cur = [], 0, ''
    for ch in s:
        if ch in '({[':
            depth += 1
        elif ch in ')}]':
            depth -= 1
        if ch == sep and depth == 0:
            parts.append(cur.strip())
            cur = ''
        else:
            cur += ch
    if cur.strip():
        parts.append(cur.strip())
    return parts


def split_stmts(body):
    """statements of a block body (normalised text between the braces)"""
    out, i, n = [], 0, len(body)
    while i < n:
        while i < n and body[i] in ' ;':
            i += 1
        if i >= n:
            break
        start = i
        depth = 0
        blocky = re.match(r'(if|match|for|while) ', body[i:]) is not None
        while i < n:
            ch = body[i]
            if ch in '({[':
                depth += 1
            elif ch in ')}]':
                depth -= 1
                if depth == 0 and ch == '}' and blocky:
                    # `if .. {..} else {..}` keeps going
                    if body[i + 1:].lstrip().startswith('else'):
                        i += 1
                        continue
                    i += 1
                    break
            elif ch == ';' and depth == 0:
                break
            i += 1
        out.append(body[start:i].strip())
    return [s for s in out if s]


def split_arms(body):
    """arms `PAT => BODY` of a match body -> list of (pat, body-text, is_block)"""
    arms, i, n = [], 0, len(body)
    while i < n:
        while i < n and body[i] in ' ,':
            i += 1
        if i >= n:
            break
        j = body.index('=>', i)
        pat = body[i:j].strip()
        k = j + 2
        while body[k] == ' ':
            k += 1
        if body[k] == '{':
            e = match_close(body, k)
            arms.append((pat, body[k + 1:e].strip(), True))
            i = e + 1
        else:
            depth, e = 0, k
            while e < n:
                ch = body[e]
                if ch in '({[':
                    depth += 1
                elif ch in ')}]':
                    depth -= 1
                elif ch == ',' and depth == 0:
                    break
                e += 1
            arms.append((pat, body[k:e].strip(), False))
            i = e + 1
    return arms


CONS = {'evar': ('EVar', 1), 'svar': ('SVar', 1), 'symbol': ('Sym', 1), 'implies': ('Imp', 2), 'app': ('App', 2),
        'exists': ('Ex', 2), 'mu': ('Mu', 2)}
HELPERS = {
    'evar': 'fn evar(id: Id) -> Rc<Pattern> { Rc::new(Pattern::EVar(id)) }',
    'svar': 'fn svar(id: Id) -> Rc<Pattern> { Rc::new(Pattern::SVar(id)) }',
    'symbol': 'fn symbol(id: Id) -> Rc<Pattern> { Rc::new(Pattern::Symbol(id)) }',
    'metavar_unconstrained': 'fn metavar_unconstrained(var_id: Id) -> Rc<Pattern> { Rc::new(Pattern::MetaVar { id: var_id, e_fresh: vec![], '
                             's_fresh: vec![], positive: vec![], negative: vec![], app_ctx_holes: vec![] }) }',
    'exists': 'fn exists(var: Id, subpattern: Rc<Pattern>) -> Rc<Pattern> { Rc::new(Pattern::Exists { var, subpattern }) }',
    'mu': 'fn mu(var: Id, subpattern: Rc<Pattern>) -> Rc<Pattern> { Rc::new(Pattern::Mu { var, subpattern }) }',
    'esubst': 'fn esubst(pattern: Rc<Pattern>, evar_id: Id, plug: Rc<Pattern>) -> Rc<Pattern> { Rc::new(Pattern::ESubst { pattern, evar_id, plug }) }',
    'ssubst': 'fn ssubst(pattern: Rc<Pattern>, svar_id: Id, plug: Rc<Pattern>) -> Rc<Pattern> { Rc::new(Pattern::SSubst { pattern, svar_id, plug }) }',
    'implies': 'fn implies(left: Rc<Pattern>, right: Rc<Pattern>) -> Rc<Pattern> { Rc::new(Pattern::Implies { left, right }) }',
    'app': 'fn app(left: Rc<Pattern>, right: Rc<Pattern>) -> Rc<Pattern> { Rc::new(Pattern::App { left, right }) }',
    'pop_stack': 'fn pop_stack(stack: &mut Stack) -> Term { stack.pop().expect("") }',
    'pop_stack_pattern': 'fn pop_stack_pattern(stack: &mut Stack) -> Rc<Pattern> { match pop_stack(stack) { Term::Pattern(p) => p, _ => panic!("") } }',
    'pop_stack_proved': 'fn pop_stack_proved(stack: &mut Stack) -> Rc<Pattern> { match pop_stack(stack) { Term::Proved(p) => p, _ => panic!("") } }',
    'read_u8_vec': 'fn read_u8_vec<\'a>(iterator: &mut InstrIterator) -> Vec<u8> { let len = *iterator.next().expect("") as usize; '
                   'let mut vec: Vec<u8> = Vec::with_capacity(len); for _ in 0..len { vec.push(*iterator.next().expect("")); } vec }',
}
INST_LOOPS = ('for _ in 0..n { let arg = iterator.next().expect(""); ids.push(*arg as Id); plugs.push(pop_stack_pattern(stack)) }',
              'for _ in 0..n { let arg = *iterator.next().expect(""); ids.push(arg as Id); plugs.push(pop_stack_pattern(stack)) }',
              'for _ in 0..n { let arg = *iterator.next().expect(""); ids.push(arg); plugs.push(pop_stack_pattern(stack)) }',
              'for _ in 0..n { ids.push(*iterator.next().expect("")); plugs.push(pop_stack_pattern(stack)) }',
              'for _ in 0..n { ids.push(*iterator.next().expect("") as Id); plugs.push(pop_stack_pattern(stack)) }')
INST_LOOP_RE = re.compile(r'for _ in 0\.\.n \{ (?:let (\w+) = \*?iterator\.next\(\)\.expect\(""\)(?: as Id)?; ids\.push\(\*?\1(?: as Id)?\);'
                          r'|ids\.push\(\*iterator\.next\(\)\.expect\(""\)(?: as Id)?\);) plugs\.push\(pop_stack_pattern\(stack\)\);? \}')
NONE = 'None'


def v(name):
    return 'v_' + name


class Tr:
    """expression / statement translation with the threaded state variables bs stk mem cl"""
    src = ''
    readers = []
    inlining = set()

    def __init__(self):
        self.fresh = 0
        self.vecs = set()     # Rust Vec accumulators declared empty (ids, plugs)
        self.terms = set()    # locals of Rust type Term / &Term / &Entry (model: [term])
        self.structs = {}     # locals holding a struct of pattern-valued fields (expanded into one definition per field)

    def tmp(self):
        self.fresh += 1
        return f't{self.fresh}'

    # ---- expressions of type Rc<Pattern> / Id; `pre` collects partial sub-computations as (kind, binder, args) --------------------------
    def expr(self, e, pre):
        e = e.strip()
        m = re.fullmatch(r'Rc::clone\(&?(\w+)\.(\w+)\)', e) or re.fullmatch(r'(\w+)\.(\w+)\.clone\(\)', e)
        if m:
            return v(m.group(1) + '__' + m.group(2))
        m = re.fullmatch(r'Rc::clone\(&?(\w+)\)', e) or re.fullmatch(r'(\w+)\.clone\(\)', e) or re.fullmatch(r'&(\w+)', e) \
            or re.fullmatch(r'\*(\w+)', e)
        if m:
            return v(m.group(1))
        if re.fullmatch(r'\d+', e):
            return e
        if re.fullmatch(r'[a-z_]\w*', e):
            return v(e)
        m = re.fullmatch(r'(\w+)\((.*)\)', e)
        if m and match_close(e, len(m.group(1))) == len(e) - 1:
            f, args = m.group(1), split_top(m.group(2))
            if f in CONS:
                c, ar = CONS[f]
                if len(args) != ar:
                    fail(f'{f} applied to {len(args)} arguments')
                return '(' + c + ' ' + ' '.join(self.expr(a, pre) for a in args) + ')'
            if f in ('esubst', 'ssubst'):
                if len(args) != 3:
                    fail(f'{f} arity')
                a = [self.expr(x, pre) for x in args]
                return f"({'ESub' if f == 'esubst' else 'SSub'} {a[0]} {a[1]} {a[2]})"
            if f == 'not' and len(args) == 1:
                return f'(gen_not {self.expr(args[0], pre)})'
            if f == 'bot' and args == []:
                return 'gen_bot'
            if f == 'metavar_unconstrained' and len(args) == 1:
                return f'(MVar {self.expr(args[0], pre)} [] [] [] [] [])'
            if f in ('apply_esubst', 'apply_ssubst') and len(args) == 3:
                a = [self.expr(x, pre) for x in args]
                t = self.tmp()
                pre.append(('opt', t, f'gen_{f} {a[0]} {a[1]} {a[2]}'))
                return t
            if f in ('pop_stack_pattern', 'pop_stack_proved', 'pop_stack') and args == ['stack']:
                t = self.tmp()
                pre.append((f, t, None))
                return t
            fail('unknown function in expression: ' + e[:80])
        m = re.fullmatch(r'Rc::new\(Pattern::MetaVar \{ (.*) \}\)', e)
        if m:
            fields = {}
            for fld in split_top(m.group(1)):
                if ':' in fld:
                    k, val = [x.strip() for x in fld.split(':', 1)]
                else:
                    k = val = fld
                fields[k] = '[]' if val == 'vec![]' else self.expr(val, pre)
            order = ['id', 'e_fresh', 's_fresh', 'positive', 'negative', 'app_ctx_holes']
            if sorted(fields) != sorted(order):
                fail('MetaVar literal with fields ' + ','.join(sorted(fields)))
            return '(MVar ' + ' '.join(fields[k] for k in order) + ')'
        fail('unrecognised expression: ' + e[:100])

    def wrap_pre(self, pre, body):
        for kind, t, arg in reversed(pre):
            if kind == 'opt':
                body = f'match {arg} with Some {t} => {body} | None => {NONE} end'
            elif kind == 'pop_stack_pattern':
                body = f'match pop_pat stk with Some ({t}, stk) => {body} | None => {NONE} end'
            elif kind == 'pop_stack_proved':
                body = f'match pop_proved stk with Some ({t}, stk) => {body} | None => {NONE} end'
            elif kind == 'pop_stack':
                body = f'match stk with {t} :: stk => {body} | [] => {NONE} end'
        return body

    # ---- statements ------------------------------------------------------------------------------------------------------------------------
    def block(self, stmts, k):
        if not stmts:
            return k()
        return self.stmt(stmts[0], lambda: self.block(stmts[1:], k))

    def body(self, text, is_block, k):
        return self.block(split_stmts(text) if is_block else [text], k)

    def is_panic(self, text):
        return re.fullmatch(r'(panic|unimplemented)!\(.*\);?', text.strip()) is not None

    def stmt(self, s, rest):
        """s: one normalised statement; rest(): Coq text of what follows"""
        s = s.strip().rstrip(';').strip()
        m = re.fullmatch(r'let Pattern::Implies \{ left, right \} = (.*?)\.as_ref\(\) else \{ (?:panic|unreachable)!\(.*\);? \}', s)
        if m:
            pre = []
            x = self.expr(m.group(1), pre)
            return self.wrap_pre(pre, f'match {x} with Imp v_left v_right => {rest()} | _ => {NONE} end')
        # S1 read one byte
        m = re.fullmatch(r'let (\w+) = \*iterator\.next\(\)\.expect\(""\)(?: as (?:Id|usize))?', s)
        if m:
            return f'match bs with {v(m.group(1))} :: bs => {rest()} | [] => {NONE} end'
        # S2 read a length-prefixed vector
        m = re.fullmatch(r'let (\w+) = read_u8_vec\(iterator\)', s)
        if m:
            return f'match read_vec bs with Some ({v(m.group(1))}, bs) => {rest()} | None => {NONE} end'
        # S10 accumulators of Instantiate
        m = re.fullmatch(r'let mut (\w+): (?:IdList|Vec<Rc<Pattern>>) = Vec::with_capacity\(n\)', s)
        if m:
            self.vecs.add(m.group(1))
            return rest()
        if INST_LOOP_RE.fullmatch(s):
            if self.vecs != {'ids', 'plugs'}:
                fail('Instantiate loop without the two fresh accumulators')
            return (f'match take_ids true (N.to_nat v_n) bs stk with Some (v_ids, v_plugs, bs, stk) => {rest()} '
                    f'| None => {NONE} end')
        # term-valued locals: `let X = match SCRUT { .. => { stmts; TERM } .. }`: every arm ends by binding X
        m = re.fullmatch(r'let (\w+) = match (.*?) \{ (.*) \}', s)
        if m and match_close(s, s.index('{', len('let ' + m.group(1) + ' = match ' + m.group(2)))) == len(s) - 1:
            x = m.group(1)
            arms = []
            for pat, text, is_block in split_arms(m.group(3)):
                if self.is_panic(text.strip()):
                    arms.append((pat, text, is_block))
                    continue
                sts = split_stmts(text) if is_block else [text]
                sts[-1] = f'let {x} = {sts[-1]}'
                arms.append((pat, '; '.join(sts), True))
            return self.match(m.group(2), arms, rest)
        m = re.fullmatch(r'let (\w+) = Term::(Pattern|Proved)\((.*)\)', s)
        if m:
            pre = []
            e = self.expr(m.group(3), pre)
            self.terms.add(m.group(1))
            return self.wrap_pre(pre, f"let {v(m.group(1))} := {'TPat' if m.group(2) == 'Pattern' else 'TProved'} {e} in {rest()}")
        m = re.fullmatch(r'let (\w+) = stack\.last\(\)\.expect\(""\)', s)
        if m:
            self.terms.add(m.group(1))
            return f'match stk with {v(m.group(1))} :: _ => {rest()} | [] => {NONE} end'
        m = re.fullmatch(r'let (\w+) = &memory\[(\w+) as usize\]', s)
        if m:
            self.terms.add(m.group(1))
            return f'match nth_error mem (N.to_nat {v(m.group(2))}) with Some {v(m.group(1))} => {rest()} | None => {NONE} end'
        m = re.fullmatch(r'stack\.push\((?:Term::from\()?&?(\w+)(?:\.to_term\(\)|\.clone\(\)|\.into\(\))?\)?\)', s)
        if m and m.group(1) in self.terms:
            return f'let stk := {v(m.group(1))} :: stk in {rest()}'
        m = re.fullmatch(r'memory\.push\((?:Entry::from\()?&?(\w+)(?:\.to_entry\(\)|\.into\(\))?\)?\)', s)
        if m and m.group(1) in self.terms:
            return f'let mem := mem ++ [{v(m.group(1))}] in {rest()}'
        m = re.fullmatch(r'stack\.push\(Term::from\(&memory\[(\w+) as usize\]\)\)', s) or \
            re.fullmatch(r'stack\.push\(\(&memory\[(\w+) as usize\]\)\.into\(\)\)', s)
        if m:
            return (f'match nth_error mem (N.to_nat {v(m.group(1))}) with Some t_entry => let stk := t_entry :: stk in {rest()} '
                    f'| None => {NONE} end')
        # `match &mut T { Term::Pattern(p) | Term::Proved(p) => instantiate_in_place(p, &ids, &plugs) }`: same function on either tag
        m = re.fullmatch(r'match &mut (\w+) \{ Term::Pattern\((\w+)\) \| Term::Proved\(\2\) => instantiate_in_place\(\2, &ids, &plugs\),? \}', s)
        if m and m.group(1) in self.terms:
            x = v(m.group(1))
            return (f'match {x} with TPat p_i => match gen_instantiate_in_place p_i v_ids v_plugs with Some q_i => let {x} := TPat q_i in {rest()} '
                    f'| None => {NONE} end | TProved p_i => match gen_instantiate_in_place p_i v_ids v_plugs with Some q_i => '
                    f'let {x} := TProved q_i in {rest()} | None => {NONE} end end')
        m = re.fullmatch(r'let (?:mut )?(\w+) = pop_stack\(stack\)', s)
        if m:
            self.terms.add(m.group(1))
            return f'match stk with {v(m.group(1))} :: stk => {rest()} | [] => {NONE} end'
        # S4 / S3 let X = EXPR (pops and partial calls come out of the expression prelude)
        m = re.fullmatch(r'let (?:mut )?(\w+) = (.*)', s)
        if m and not m.group(2).startswith('match ') and 'claims.pop()' not in m.group(2):
            pre = []
            e = self.expr(m.group(2), pre)
            return self.wrap_pre(pre, f'let {v(m.group(1))} := {e} in {rest()}')
        # S16 claims
        m = re.fullmatch(r'let (\w+) = claims\.pop\(\)\.expect\(""\)', s)
        if m:
            return f'match cl with {v(m.group(1))} :: cl => {rest()} | [] => {NONE} end'
        m = re.fullmatch(r'claims\.push\((.*)\)', s)
        if m:
            pre = []
            e = self.expr(m.group(1), pre)
            return self.wrap_pre(pre, f'let cl := {e} :: cl in {rest()}')
        # S5 well-formedness guards
        m = re.fullmatch(r'if !(\w+)\.well_formed\(\) \{ panic!\(.*\);? \}', s) or re.fullmatch(r'assert!\((\w+)\.well_formed\(\), .*\)', s)
        if m:
            return f'match gen_well_formed {v(m.group(1))} with Some true => {rest()} | _ => {NONE} end'
        # S8 / S9 side conditions
        m = re.fullmatch(r'if \*(\w+)\.as_ref\(\) != \*(\w+)\.as_ref\(\) \{ panic!\(.*\);? \}', s) or re.fullmatch(r'if (\w+) != (\w+) \{ panic!\(.*\);? \}', s)
        if m:
            return f'if pat_eqb {v(m.group(1))} {v(m.group(2))} then {rest()} else {NONE}'
        m = re.fullmatch(r'if !(\w+)\.(e_fresh|s_fresh)\(\*?(\w+)\) \{ panic!\(.*\);? \}', s)
        if m:
            return f'if gen_{m.group(2)} {v(m.group(1))} {v(m.group(3))} then {rest()} else {NONE}'
        # S6 / S14 pushes
        m = re.fullmatch(r'stack\.push\(Term::(Pattern|Proved)\((.*)\)\)', s)
        if m:
            pre = []
            e = self.expr(m.group(2), pre)
            tag = 'TPat' if m.group(1) == 'Pattern' else 'TProved'
            return self.wrap_pre(pre, f'let stk := {tag} {e} :: stk in {rest()}')
        m = re.fullmatch(r'memory\.push\(Entry::(Pattern|Proved)\((.*)\)\)', s)
        if m:
            pre = []
            e = self.expr(m.group(2), pre)
            tag = 'TPat' if m.group(1) == 'Pattern' else 'TProved'
            return self.wrap_pre(pre, f'let mem := mem ++ [{tag} {e}] in {rest()}')
        # S12
        if s == '_ = pop_stack(stack)':
            return f'match stk with _ :: stk => {rest()} | [] => {NONE} end'
        # S11 instantiate_in_place
        m = re.fullmatch(r'instantiate_in_place\(&mut (\w+), &ids, &plugs\)', s)
        if m:
            x = v(m.group(1))
            return f'match gen_instantiate_in_place {x} v_ids v_plugs with Some {x} => {rest()} | None => {NONE} end'
        if self.is_panic(s):
            return NONE
        # a private helper of lib.rs called as a statement (`h(args)`, `let x = h(args)`, `let (a, b) = h(args)`): expanded at the call site
        hm = re.fullmatch(r'(?:let (\(?[\w, ]+\)?) = )?(\w+)\(([^()]*)\)', s)
        if hm and re.search(r'\nfn ' + hm.group(2) + r'\(', Tr.src) and hm.group(2) not in HELPERS and hm.group(2) not in Tr.inlining:
            targets, h, args = hm.groups()
            ht = canon(norm(find_fn(Tr.src, h)), Tr.readers)
            sig = re.fullmatch(r'fn ' + h + r'(?:<\'a>)?\((.*?)\)(?: -> [^{]*)? \{ (.*) \}', ht)
            if not sig:
                fail('helper ' + h + ': unexpected shape')
            pars = [x.split(':')[0].replace('mut ', '').strip() for x in split_top(sig.group(1))]
            argv = [a.strip().replace('&mut ', '').lstrip('&') for a in split_top(args)]
            if len(pars) != len(argv):
                fail('helper ' + h + ': arity')
            body = sig.group(2)
            for par, a in zip(pars, argv):
                if par != a:
                    if not re.fullmatch(r'\w+', a):
                        fail('helper ' + h + ': argument is not a name: ' + a)
                    body = re.sub(r'\b' + par + r'\b', a, body)
            body = body.replace('match *phase', 'match phase')
            hs = split_stmts(body)
            last = hs[-1].strip().rstrip(';').strip()
            if last.startswith('return '):
                last = last[len('return '):]
            if any(re.search(r'\breturn\b', x) for x in hs[:-1]):
                fail('helper ' + h + ' returns early')
            if targets:
                tl = [t.strip() for t in targets.strip('()').split(',')]
                vals = split_top(last[1:-1]) if (last.startswith('(') and match_close(last, 0) == len(last) - 1 and len(tl) > 1) else [last]
                if len(vals) != len(tl):
                    fail('helper ' + h + ': result does not match the targets')
                hs = hs[:-1] + [f'let {t} = {e}' for t, e in zip(tl, vals)]
            Tr.inlining.add(h)
            try:
                return self.block(hs, rest)
            finally:
                Tr.inlining.discard(h)
        # matches
        m = re.fullmatch(r'match (.*?) \{ (.*) \}', s)
        if m and match_close(s, s.index('{', len('match ' + m.group(1)))) == len(s) - 1:
            return self.match(m.group(1), split_arms(m.group(2)), rest)
        fail('unrecognised statement: ' + s[:140])

    def match(self, scrut, arms, rest):
        pats = [a[0] for a in arms]
        # S7 destructing a proved implication
        m = re.fullmatch(r'(\w+)\.as_ref\(\)', scrut) or re.fullmatch(r'(pop_stack_proved\(stack\))\.as_ref\(\)', scrut)
        if m:
            if pats != ['Pattern::Implies { left, right }', '_'] or not self.is_panic(arms[1][1] if not arms[1][2] else arms[1][1]):
                fail('match on a pattern that is not `Implies {left, right} / _ => panic`: ' + ' | '.join(pats))
            pre = []
            x = self.expr(m.group(1), pre)
            inner = self.body(arms[0][1], arms[0][2], rest)
            return self.wrap_pre(pre, f'match {x} with Imp v_left v_right => {inner} | _ => {NONE} end')
        # S11 / S13 / Load: a Term or Entry
        tm = re.fullmatch(r'(\w+)', scrut) if scrut != 'phase' else None
        last = scrut == 'stack.last().expect("")'
        load = re.fullmatch(r'&memory\[(\w+) as usize\]', scrut)
        if tm or last or load:
            ty = 'Entry' if load else 'Term'
            want = [f'{ty}::Pattern', f'{ty}::Proved']
            got = [re.fullmatch(r'(\w+::\w+)\((?:mut )?(\w+)\)', p) for p in pats]
            if len(arms) != 2 or not all(got) or [g.group(1) for g in got] != want:
                fail(f'match on {scrut}: arms ' + ' | '.join(pats))
            a0 = self.body(arms[0][1], arms[0][2], rest)
            a1 = self.body(arms[1][1], arms[1][2], rest)
            core = f'with TPat {v(got[0].group(2))} => {a0} | TProved {v(got[1].group(2))} => {a1} end'
            if tm:
                return f'match {v(tm.group(1))} {core}'
            if last:
                return f'match stk with t_last :: _ => match t_last {core} | [] => {NONE} end'
            return f'match nth_error mem (N.to_nat {v(load.group(1))}) with Some t_entry => match t_entry {core} | None => {NONE} end'
        # S15 the phase
        if scrut == 'phase':
            if pats != ['ExecutionPhase::Gamma', 'ExecutionPhase::Claim', 'ExecutionPhase::Proof']:
                fail('match phase: arms ' + ' | '.join(pats))
            bodies = [self.body(a[1], a[2], rest) for a in arms]
            return f'match ph with Gamma => {bodies[0]} | Claim => {bodies[1]} | Proof => {bodies[2]} end'
        fail('unrecognised match scrutinee: ' + scrut[:80])


FINAL = 'Some (bs, mkst stk mem cl)'


def gen_preamble(tr, pre_stmts, src=''):
    """`let phi0 = ...; let prop1 = ...;` before the loop -> Definitions.  A struct built by `let X = S::new();` whose constructor is such a
    sequence of lets followed by the struct literal is expanded: its fields become the definitions, `X.field` refers to them."""
    defs, names = [], []
    expanded = []
    for s in pre_stmts:
        sm = re.fullmatch(r'let (\w+) = (\w+)::new\(\)', s.rstrip(';').strip())
        if sm:
            var, st = sm.groups()
            im = re.search(r'\nimpl ' + st + r' \{', src)
            if not im:
                fail('constructor of ' + st + ' not found')
            body = src[im.start():match_close(src, src.index('{', im.start())) + 1]
            nm = re.search(r'fn new\(\) -> (?:Self|' + st + r') \{', body)
            if not nm:
                fail(st + '::new has an unexpected signature')
            j = body.index('{', nm.start())
            ctor = norm(body[j + 1:match_close(body, j)])
            lm = re.fullmatch(r'(.*) (?:Self|' + st + r') \{ (.*) \}', ctor)
            if not lm:
                fail(st + '::new does not end with the struct literal')
            expanded += split_stmts(lm.group(1))
            for fld in split_top(lm.group(2)):
                if ':' in fld:
                    k, val = [x.strip() for x in fld.split(':', 1)]
                    expanded.append(f'let {var}__{k} = {val}')
                else:
                    expanded.append(f'let {var}__{fld.strip()} = Rc::clone(&{fld.strip()})')
            tr.structs[var] = True
            continue
        expanded.append(s)
    for s in expanded:
        m = re.fullmatch(r'let (\w+) = (.*)', s.rstrip(';'))
        if not m:
            fail('preamble statement: ' + s[:100])
        pre = []
        e = tr.expr(m.group(2), pre)
        if pre:
            fail('preamble expression is not total: ' + s[:100])
        for nm in names:
            e = re.sub(r'\bv_' + nm + r'\b', 'gen_' + nm, e)
        if re.search(r'\bv_\w+', e):
            fail('preamble expression mentions an unknown name: ' + e)
        names.append(m.group(1))
        defs.append(f'Definition gen_{m.group(1)} : pat := {e}.')
    return defs, names


TYPES = {
    'Pattern': ('#[derive(Debug, Eq, PartialEq, Clone)]',
                'pub enum Pattern { EVar(Id), SVar(Id), Symbol(Id), Implies { left: Rc<Pattern>, right: Rc<Pattern> }, '
                'App { left: Rc<Pattern>, right: Rc<Pattern> }, Exists { var: Id, subpattern: Rc<Pattern> }, '
                'Mu { var: Id, subpattern: Rc<Pattern> }, MetaVar { id: Id, e_fresh: IdList, s_fresh: IdList, positive: IdList, '
                'negative: IdList, app_ctx_holes: IdList }, ESubst { pattern: Rc<Pattern>, evar_id: Id, plug: Rc<Pattern> }, '
                'SSubst { pattern: Rc<Pattern>, svar_id: Id, plug: Rc<Pattern> } }'),
    'Term': ('#[derive(Debug, Eq, PartialEq, Clone)]', 'pub enum Term { Pattern(Rc<Pattern>), Proved(Rc<Pattern>) }'),
    'Entry': ('#[derive(Debug, Eq, PartialEq)]', 'pub enum Entry { Pattern(Rc<Pattern>), Proved(Rc<Pattern>) }'),
}
ALIASES = ['type Id = u8;', 'type IdList = Vec<Id>;', 'type InstByte = u8;', 'type Stack = Vec<Term>;', 'type Claims = Vec<Rc<Pattern>>;',
           'type Memory = Vec<Entry>;']


CONV = {'to_entry': ('Term', 'Entry'), 'to_term': ('Entry', 'Term')}


def check_conversions(src):
    """optional helpers `Term::to_entry` / `Entry::to_term`: tag-preserving copies (the model has ONE type [term] for both)"""
    for name, (a, b) in CONV.items():
        if not re.search(r'\bfn ' + name + r'\(', src):
            continue
        body = norm(find_fn(src.replace('    fn ' + name, '\nfn ' + name), name))
        body = body.replace('p.clone()', 'Rc::clone(p)')
        want = (f'fn {name}(&self) -> {b} {{ match self {{ {a}::Pattern(p) => {b}::Pattern(Rc::clone(p)), '
                f'{a}::Proved(p) => {b}::Proved(Rc::clone(p)) }} }}')
        if body != want:
            fail(f'{name} is not the tag-preserving copy: ' + body[:200])


def check_from_impls(src):
    for a, b in (('Term', 'Entry'), ('Entry', 'Term')):
        m = re.search(r'impl From<&' + a + r'> for ' + b + r' \{', src)
        if not m:
            continue
        body = norm(src[m.start():match_close(src, src.index('{', m.start())) + 1]).replace('p.clone()', 'Rc::clone(p)')
        want = (f'impl From<&{a}> for {b} {{ fn from(a0: &{a}) -> {b} {{ match a0 {{ {a}::Pattern(p) => {b}::Pattern(Rc::clone(p)), '
                f'{a}::Proved(p) => {b}::Proved(Rc::clone(p)) }} }} }}')
        got = re.sub(r'fn from\((\w+): ', 'fn from(a0: ', body)
        pm = re.search(r'fn from\((\w+): ', body)
        if pm:
            got = re.sub(r'\b' + pm.group(1) + r'\b', 'a0', body)
        got = got.replace('-> Self', f'-> {b}')
        if got != want:
            fail(f'impl From<&{a}> for {b} is not the tag-preserving copy: ' + got[:200])


def check_types(src):
    """the data types the model's [pat], [term] mirror, and the DERIVED structural equality that `!=` / `==` on patterns means
    (the model's [pat_eqb] compares every field incl. all five constraint lists): a hand-written PartialEq would change ModusPonens and Publish"""
    for name, (derive, want) in TYPES.items():
        m = re.search(r'((?:#\[[^\]]*\]\s*)*)pub enum ' + name + r' \{', src)
        if not m:
            fail(f'enum {name} not found')
        attrs = ' '.join(m.group(1).split())
        if derive not in attrs:
            fail(f'enum {name}: equality is not the derived structural one (attributes: {attrs})')
        i = src.index('{', m.end() - 1)
        got = norm(src[m.start() + len(m.group(1)):match_close(src, i) + 1])
        if got != want:
            fail(f'enum {name} differs from the modelled data type: {got[:200]}')
    for a in ALIASES:
        if a not in src:
            fail('type alias missing or changed: ' + a)
    for bad in (r'impl\s+(?:core::cmp::)?PartialEq(?:<[^>]*>)?\s+for\s+(Pattern|Term|Entry)', r'impl\s+(?:core::cmp::)?Eq\s+for\s+(Pattern|Term|Entry)',
                r'impl\s+(?:core::ops::)?(?:Deref|Drop)\s+for\s+(Pattern|Term|Entry)'):
        m = re.search(bad, src)
        if m:
            fail('hand-written trait implementation changes the meaning of the translated operators: ' + m.group(0))


MAIN_RS = ('#![deny(warnings)] use checker::verify; use std::fs; pub fn main() { let (gamma_reader, claims_reader, proof_reader) = '
           'match std::env::args().len() { 3 => (fs::read(std::env::args().nth(1).unwrap()).unwrap(), fs::read("").unwrap(), '
           'fs::read(std::env::args().nth(2).unwrap()).unwrap()), 4 => (fs::read(std::env::args().nth(1).unwrap()).unwrap(), '
           'fs::read(std::env::args().nth(2).unwrap()).unwrap(), fs::read(std::env::args().nth(3).unwrap()).unwrap()), _ => panic!("") }; '
           'verify(&gamma_reader, &claims_reader, &proof_reader); }')


def check_main(repo):
    """rust/src/main.rs (whole-file template): two arguments = gamma + proof with an EMPTY claim file ("/dev/null"), three = gamma claims proof,
    anything else or an unreadable file panics; the verdict is verify()'s (panic = non-zero exit status)"""
    raw = open(os.path.join(repo, 'rust/src/main.rs')).read()
    if 'fs::read("/dev/null")' not in raw:
        fail('main.rs: the claim file of the two-argument form is not /dev/null')
    got = norm(raw)
    # one-line private helpers `fn NAME(p: T) -> R { EXPR }` are expanded at their call sites; the three buffer names are alpha-renamed
    for hm in list(re.finditer(r'fn (\w+)\((\w+): \w+\) -> [\w<>]+ \{ (?:return )?([^{};]*);? \} ', got)):
        name, par, body = hm.groups()
        if name == 'main':
            continue
        got = got.replace(hm.group(0), '')
        got = re.sub(r'\b' + name + r'\((\w+)\)', lambda mm: re.sub(r'\b' + par + r'\b', mm.group(1), body), got)
    tm = re.search(r'let \((\w+), (\w+), (\w+)\) = match std::env::args\(\)\.len\(\)', got)
    if tm:
        for old, new in zip(tm.groups(), ('gamma_reader', 'claims_reader', 'proof_reader')):
            got = re.sub(r'\b' + old + r'\b', new, got)
    if got != MAIN_RS:
        fail('main.rs differs from the modelled driver: ' + got[:300])


def main_rs_note(repo):
    """main.rs is tied by CORRESPONDENCE (the real binary's exit status, both argument forms and the driver's error paths are compared with
    verify()'s verdict in C05 and C01), not by translation: an unrecognised shape is reported as a note so that the checks sample more, never as a
    broken proof stage."""
    try:
        check_main(repo)
        return 'main.rs: recognised driver shape'
    except SystemExit as e:
        return 'main.rs: UNRECOGNISED driver shape (tied by the real-binary stage only): ' + str(e)[:200].replace('*)', '* )').replace('(*', '( *')


def generate(repo):
    note = main_rs_note(repo)
    src = open(os.path.join(repo, 'rust/src/lib.rs')).read()
    src = src.split('\n#[cfg(test)]\nmod tests')[0]
    check_types(strip_strings(src))
    check_conversions(strip_strings(src))
    check_from_impls(strip_strings(src))
    readers = reader_helpers(src)
    Tr.src, Tr.readers = strip_strings(src), readers
    for name, want in HELPERS.items():
        got = canon_helper(canon(norm(find_fn(src, name)), readers))
        got = re.sub(r'\{ id: (\w+), e_fresh', r'{ id, e_fresh', got) if False else got
        if name == 'read_u8_vec':
            got = got.replace("fn read_u8_vec(iterator", "fn read_u8_vec<'a>(iterator")
            lm = re.search(r'let mut (\w+): Vec<u8> = Vec::with_capacity\(len\)', got)
            if lm and lm.group(1) != 'vec':
                got = re.sub(r'\b' + lm.group(1) + r'\b', 'vec', got)
            got = re.sub(r'vec\.push\((\*iterator\.next\(\)\.expect\(""\))\); \} return vec; \}$', r'vec.push(\1); } vec }', got)
        if name == 'read_u8_vec':
            # the vector built by an iterator chain instead of the push loop
            got = re.sub(r'\(0\.\.len\)\.map\(\|_\| \{? ?(\*iterator\.next\(\)\.expect\(""\)) ?\}?\)\.collect\(\) \}$',
                         r'let mut vec: Vec<u8> = Vec::with_capacity(len); for _ in 0..len { vec.push(\1); } vec }', got)
        if alpha_params(got) != alpha_params(want):
            fail(f'helper {name} is not the expected definition: {got[:160]}')
    bot_def = canon_helper(norm(find_fn(src, 'bot')))
    not_def = canon_helper(norm(find_fn(src, 'not')))
    tr = Tr()
    m = re.fullmatch(r'fn bot\(\) -> Rc<Pattern> \{ (.*) \}', bot_def)
    if not m:
        fail('fn bot: ' + bot_def)
    pre = []
    bot_e = tr.expr(m.group(1), pre)
    m = re.fullmatch(r'fn not\((\w+): Rc<Pattern>\) -> Rc<Pattern> \{ (.*) \}', not_def)
    if not m or pre:
        fail('fn not: ' + not_def)
    not_e = tr.expr(re.sub(r'\b' + m.group(1) + r'\b', 'pat', m.group(2)), pre)
    if pre:
        fail('bot/not are not total expressions')

    fn = canon(norm(find_fn(src, 'execute_instructions')), readers)
    m = re.fullmatch(r'fn execute_instructions(?:<\'a>)?\(buffer: &(?:Vec<InstByte>|\[InstByte\]), stack: &mut Stack, memory: &mut Memory, claims: &mut Claims, '
                     r'phase: ExecutionPhase\) \{ let iterator: &mut InstrIterator = &mut buffer\.iter\(\); (?P<pre>.*) '
                     r'while let Some\((?P<iv>\w+)\) = iterator\.next\(\) \{ match Instruction::from\(\*(?P=iv)\) \{ (?P<arms>.*) \} \} \}', fn)
    if not m:
        fail('unexpected shape of execute_instructions (signature / iterator / single while-let loop over Instruction::from)')
    defs, names = gen_preamble(tr, split_stmts(m.group('pre')), strip_strings(src))
    arms = split_arms(m.group('arms'))
    impl = opcodes.rust_implemented(src)
    out, seen = [], set()
    for pat, text, is_block in arms:
        if pat == '_':
            if not (tr.is_panic(text.strip())):
                fail('default arm of the instruction match is not unimplemented!/panic!')
            continue
        if '|' in pat and tr.is_panic(text.strip().rstrip(';')):
            continue        # `Instruction::A | Instruction::B => unimplemented!(..)`: the same as the default arm
        mm = re.fullmatch(r'Instruction::(\w+)', pat)
        if not mm or mm.group(1) not in opcodes.NAME:
            fail('instruction arm ' + pat)
        name = mm.group(1)
        if name in seen:
            fail('duplicate arm ' + name)
        seen.add(name)
        t = Tr()
        code = t.body(text, is_block, lambda: FINAL)
        for nm in names:
            code = re.sub(r'\bv_' + nm + r'\b', 'gen_' + nm, code)
        out.append((list(opcodes.NAME).index(name), f'  | {opcodes.NAME[name]} => {code}'))
    if sorted(seen) != sorted(impl):
        fail('arms found differ from opcodes.rust_implemented')
    out = [line for _, line in sorted(out)]      # fixed constructor order: reordering the (disjoint) arms changes nothing
    out.append('  | IUnimpl => None')

    # verify
    vf = norm(find_fn(src, 'verify'))
    BUF = r'&(?:Vec<InstByte>|\[InstByte\])'
    m = re.fullmatch(r'pub fn verify(?:<\'a>)?\(gamma_buffer: ' + BUF + r', claims_buffer: ' + BUF + r', proof_buffer: ' + BUF + r'\) \{ (.*) \}', vf)
    if not m:
        fail('unexpected signature of verify')
    vcode = 'Some (mkst stk mem cl)'
    steps = []
    declared = set()
    vstmts = [x.rstrip(';').strip() for x in split_stmts(m.group(1))]
    arrays = {}
    flat = []
    for s in vstmts:
        mm = re.fullmatch(r'let (\w+) = \[(.*)\]', s)
        if mm:
            elems = [re.fullmatch(r'\((\w+), (ExecutionPhase::\w+)\)', e.strip()) for e in split_top(mm.group(2))]
            if not all(elems):
                fail('verify: array literal that is not a list of (buffer, phase) pairs: ' + s[:120])
            arrays[mm.group(1)] = [e.groups() for e in elems]
            continue
        mm = re.fullmatch(r'for \((\w+), (\w+)\) in (\w+) \{ (.*) \}', s)
        if mm and mm.group(3) in arrays:
            for buf, ph in arrays[mm.group(3)]:
                for b in split_stmts(mm.group(4)):
                    b = re.sub(r'\b' + mm.group(1) + r'\b', buf, b.rstrip(';').strip())
                    b = re.sub(r'\b' + mm.group(2) + r'\b', ph, b)
                    flat.append(b)
            continue
        flat.append(s)
    for s in flat:
        mm = re.fullmatch(r'let mut (claims|memory|stack)(?:: \w+)? = Vec::with_capacity\(\w+\)', s)
        if mm:
            declared.add(mm.group(1))
            steps.append(('init', {'claims': 'cl', 'memory': 'mem', 'stack': 'stk'}[mm.group(1)]))
            continue
        mm = re.fullmatch(r'execute_instructions\((gamma|claims|proof)_buffer, &mut stack, &mut memory, &mut claims, ExecutionPhase::(Gamma|Claim|Proof)\)', s)
        if mm:
            if declared != {'claims', 'memory', 'stack'}:
                fail('verify runs a phase before declaring its state')
            steps.append(('exec', {'gamma': 'gamma', 'claims': 'claimsb', 'proof': 'proofb'}[mm.group(1)], mm.group(2)))
            continue
        if s == 'stack.clear()':
            steps.append(('clear', 'stk'))
            continue
        if s in ('memory.clear()', 'claims.clear()'):
            steps.append(('clear', 'mem' if s.startswith('memory') else 'cl'))
            continue
        if re.fullmatch(r'assert!\(claims\.is_empty\(\), .*\)', s):
            steps.append(('claims_empty',))
            continue
        fail('verify statement: ' + s[:120])
    for st in reversed(steps):
        if st[0] == 'init' or st[0] == 'clear':
            ty = 'list pat' if st[1] == 'cl' else 'list term'
            vcode = f'let {st[1]} : {ty} := [] in {vcode}'
        elif st[0] == 'exec':
            vcode = (f'match gen_exec {st[2]} {st[1]} (mkst stk mem cl) with Some st => let stk := stack st in let mem := memory st in '
                     f'let cl := claims st in {vcode} | None => None end')
        else:
            vcode = f'match cl with [] => {vcode} | _ :: _ => None end'

    lines = ['(** GENERATED by translators/rust_exec.py from rust/src/lib.rs (execute_instructions, verify, stack helpers, constructors) — do not edit *)',
             '(* ' + note + ' *)',
             'From Coq Require Import NArith List Bool.',
             'From Pi2 Require Import ML.Syntax ML.Subst ML.Machine Gen.Judge Gen.SubstFns Gen.InstFn.', 'Import ListNotations.', 'Open Scope N_scope.', '',
             f'Definition gen_bot : pat := {bot_e}.', f'Definition gen_not (v_pat:pat) : pat := {not_e}.']
    lines += defs
    lines += ['', 'Definition gen_step_i (ph:phase) (i:instr) (bs:list N) (st:state) : option (list N * state) :=',
              '  let stk := stack st in let mem := memory st in let cl := claims st in', '  match i with']
    lines += out
    lines += ['  end.', '',
              '(** the while-let loop over [iterator.next()] dispatching on [Instruction::from]; [decode_op] is tied to',
              '    Instruction::from by Gen/Opcodes.v + Doc/Opcodes.v *)',
              'Fixpoint gen_exec_fuel (fuel:nat) (ph:phase) (bs:list N) (st:state) : option state :=',
              '  match bs with', '  | [] => Some st', '  | op :: rest =>', '      match fuel with', '      | O => None',
              '      | S f => match decode_op op with',
              '               | Some i => match gen_step_i ph i rest st with Some (rest\', st\') => gen_exec_fuel f ph rest\' st\' | None => None end',
              '               | None => None end', '      end', '  end.',
              'Definition gen_exec (ph:phase) (bs:list N) (st:state) : option state := gen_exec_fuel (length bs) ph bs st.', '',
              'Definition gen_verify (gamma claimsb proofb:list N) : option state :=', '  ' + vcode + '.', '']
    return '\n'.join(lines)


if __name__ == '__main__':
    sys.stdout.write(generate(sys.argv[1] if len(sys.argv) > 1 else '/repo'))

"""Fail-closed static scanner for C18: every place in the anchored files where the ORDER of an unordered
collection can flow into behaviour.

For each anchored file the scanner classifies the iterable of every `for` statement / comprehension
generator and the argument of every order-exposing consumer (tuple(), list(), sorted(), str.join, enumerate,
zip, next(iter()), .pop() on a set, star-unpacking, f-string/str()/repr()) as

  ORDERED    list/tuple/str/range/dict (insertion-ordered) provably by a local rule
  UNORDERED  set/frozenset values, dicts built by iterating a set, filesystem listings
  UNKNOWN    anything else

UNORDERED sites are emitted to coq/Gen/SetSites.v as `set_sites`; UNKNOWN ones as `unclassified`
(coq/Det/Sites.v proves `unclassified = []` and that every `set_sites` entry is matched by a theorem,
so a new site of either kind breaks the proof stage: fail closed).  Calls to sources of process-level
nondeterminism (id, hash, random, time, uuid, os.urandom, datetime.now, os.getpid, object.__hash__-based
default repr) are emitted as `nondet_calls` (must be empty).  Loads of attributes known to carry a sequence
of unordered origin (TAINTED_ATTRS, e.g. Axiom.metavars built by tuple(set)) are emitted with their consumer
so that a new order-sensitive consumer is a new site.

A site is identified by (file, enclosing function, kind, source text of the iterable) — not by line
number, so unrelated edits do not disturb the matching.
"""
from __future__ import annotations

import ast
import os

ANCHORED = [
    'proof.py',
    'counting_interpreter.py',
    'optimizing_interpreters.py',
    'metamath/converter/converter.py',
    'metamath/translate.py',
]


def scanned_files(pkg):
    """the five anchored files plus every module of the package the converter lives in (metamath/converter/*.py:
    scope.py, representation.py, vardict.py, ... — whatever is there now): the converter's results are computed there"""
    files = list(ANCHORED)
    d = os.path.join(pkg, 'metamath', 'converter')
    for f in sorted(os.listdir(d)):
        rel = 'metamath/converter/' + f
        if f.endswith('.py') and rel not in files and os.path.getsize(os.path.join(d, f)) > 0:
            files.append(rel)
    return files

ORDERED_CALLS = {'list', 'tuple', 'sorted', 'reversed', 'range', 'enumerate', 'zip', 'map', 'filter', 'str', 'dict',
                 'bytes', 'bytearray'}
SET_CALLS = {'set', 'frozenset'}
FS_CALLS = {'glob', 'iglob', 'rglob', 'iterdir', 'listdir', 'scandir', 'walk'}
ORDER_EXPOSING = {'tuple', 'list', 'sorted', 'enumerate', 'zip', 'next', 'iter', 'min', 'max', 'sum', 'any', 'all',
                  'reversed', 'map', 'filter', 'str', 'repr', 'print', 'dict', 'bytes'}
ORDER_INSENSITIVE_CONSUMERS = {'len', 'set', 'frozenset', 'bool', 'isinstance'}
NONDET = {'id', 'hash', 'random', 'time', 'uuid', 'urandom', 'getpid', 'now', 'today', 'perf_counter', 'monotonic',
          'getrandbits', 'shuffle', 'choice', 'randint', 'mkdtemp', 'mkstemp', 'token_hex', 'environ', 'getenv'}
# attributes that hold a sequence whose order comes from a set (found by this scanner's own sites:
# converter.py builds AxiomWithAntecedents/LemmaWithAntecedents(..., tuple(metavar_names), ...))
TAINTED_ATTRS = {'metavars'}


# iterables the local rules cannot type, reviewed by hand (file, source text) -> why it is ordered
REVIEWED_ORDERED = {
    # (file, canonical text of the iterable) -> reason.  Empty: the used_patterns dicts of counting_interpreter.py are now typed
    # from the keyword arguments they are constructed with (Stats(..., used_patterns={})).
}


def ann_kind(ann):
    """'set' / 'ordered' / None from an annotation node"""
    if ann is None:
        return None
    try:
        s = ast.unparse(ann)
    except Exception:  # noqa: BLE001
        return None
    s = s.strip('\'"')
    parts = [x.strip() for x in s.split('|')] if '[' not in s.split('|')[0] or s.count('|') == 1 else [s]
    parts = [x for x in parts if x != 'None']
    if len(parts) == 1:
        s = parts[0]
    if s.startswith('Optional['):
        s = s[len('Optional['):-1]
    head = s.split('[')[0].split('.')[-1].strip()
    if head in ('set', 'frozenset', 'Set', 'FrozenSet', 'AbstractSet', 'MutableSet'):
        return 'set'
    if head in ('list', 'tuple', 'dict', 'str', 'List', 'Tuple', 'Dict', 'Sequence', 'Mapping', 'frozendict',
                'VarDict', 'Terms', 'bytes', 'OrderedDict', 'Iterator', 'Iterable', 'range', 'namedtuple'):
        # Iterable/Iterator: only as a declared parameter type; callers are scanned where they live
        return 'ordered'
    return None


class Env:
    """name -> kind tables gathered from the whole package (attribute and method names) and per function"""

    def __init__(self):
        self.attr = {}      # attribute name -> set of kinds seen in annotations
        self.attr_val = {}  # attribute name (a dict) -> kinds of its values
        self.meth = {}      # function/method name -> set of kinds of return annotations

    def add_attr(self, name, kind, ann=None):
        if kind:
            self.attr.setdefault(name, set()).add(kind)
        if ann is not None:
            try:
                t = ast.unparse(ann).strip('\'"')
            except Exception:  # noqa: BLE001
                return
            if t.startswith(('dict[', 'Dict[', 'Mapping[')) and ',' in t:
                val = t[t.index(',') + 1:].rsplit(']', 1)[0].strip()
                vk = ann_kind(ast.parse(val, mode='eval').body) if val else None
                self.attr_val.setdefault(name, set()).add(vk or 'unknown')

    def add_meth(self, name, kind):
        self.meth.setdefault(name, set()).add(kind or 'unknown')


def gather(pkg_root, only=None):
    env = Env()
    for root, _, files in os.walk(pkg_root):
        for f in files:
            if not f.endswith('.py'):
                continue
            if only is not None and os.path.relpath(os.path.join(root, f), pkg_root) != only:
                continue
            try:
                tree = ast.parse(open(os.path.join(root, f)).read())
            except SyntaxError:
                continue
            for node in ast.walk(tree):
                if isinstance(node, ast.AnnAssign):
                    t = node.target
                    if isinstance(t, ast.Attribute):
                        env.add_attr(t.attr, ann_kind(node.annotation), node.annotation)
                    elif isinstance(t, ast.Name):
                        env.add_attr(t.id, ann_kind(node.annotation), node.annotation)
                elif isinstance(node, (ast.FunctionDef, ast.AsyncFunctionDef)):
                    env.add_meth(node.name, ann_kind(node.returns))
                elif isinstance(node, ast.Call) and node.keywords:
                    # Stats(uses=1, ..., used_patterns={}) / x._replace(field=...): the field holds what it is built with
                    for kw in node.keywords:
                        if kw.arg is None:
                            continue
                        v = kw.value
                        if isinstance(v, (ast.Dict, ast.List, ast.Tuple, ast.ListComp)):
                            env.add_attr(kw.arg, 'ordered')
                        elif isinstance(v, (ast.Set, ast.SetComp)) or (isinstance(v, ast.Call) and isinstance(v.func, ast.Name)
                                                                       and v.func.id in SET_CALLS):
                            env.add_attr(kw.arg, 'set')
    return env


class Scanner(ast.NodeVisitor):
    def __init__(self, env, relfile, src, local_env=None):
        self.env = env
        self.local_env = local_env or Env()
        self.file = relfile
        self.src = src
        self.func = ['<module>']
        self.fnodes = []
        self.in_class = 0
        self.locals = [{}]
        self.sites = []        # dict(file, func, kind, expr, line, cls)
        self.nondet = []
        self.parents = {}

    # ---- kind inference ---------------------------------------------------------------------
    def kind(self, e):
        """'set' | 'ordered' | 'unordered-dict' | 'fs' | 'unknown'"""
        if isinstance(e, (ast.List, ast.Tuple, ast.Constant, ast.JoinedStr, ast.ListComp, ast.Dict)):
            return 'ordered'
        if isinstance(e, (ast.Set, ast.SetComp)):
            return 'set'
        if isinstance(e, ast.DictComp):
            gk = [self.kind(g.iter) for g in e.generators]
            return 'unordered-dict' if any(k in ('set', 'fs', 'unordered-dict') for k in gk) else 'ordered'
        if isinstance(e, ast.GeneratorExp):
            gk = [self.kind(g.iter) for g in e.generators]
            if any(k in ('set', 'fs', 'unordered-dict') for k in gk):
                return 'set'
            return 'ordered' if all(k == 'ordered' for k in gk) else 'unknown'
        if isinstance(e, ast.Starred):
            return self.kind(e.value)
        if isinstance(e, ast.Name):
            for scope in reversed(self.locals):
                if e.id in scope:
                    return scope[e.id]
            ks = self.local_env.attr.get(e.id) or self.env.attr.get(e.id)
            if ks and len(ks) == 1:
                return next(iter(ks))
            return 'unknown'
        if isinstance(e, ast.Attribute):
            ks = self.local_env.attr.get(e.attr) or self.env.attr.get(e.attr)
            if ks and len(ks) == 1:
                return next(iter(ks))
            if not ks:
                ks = self.local_env.meth.get(e.attr) or self.env.meth.get(e.attr)   # a @property: its return annotation
                if ks and len(ks) == 1 and 'unknown' not in ks:
                    return next(iter(ks))
            return 'unknown'
        if isinstance(e, ast.Subscript):
            if isinstance(e.slice, ast.Slice):
                return self.kind(e.value) if self.kind(e.value) == 'ordered' else 'unknown'
            base = e.value
            bname = base.attr if isinstance(base, ast.Attribute) else base.id if isinstance(base, ast.Name) else None
            vk = self.local_env.attr_val.get(bname) or self.env.attr_val.get(bname)
            if vk and len(vk) == 1 and 'unknown' not in vk:
                return next(iter(vk))
            return 'unknown'
        if isinstance(e, ast.BinOp):
            lk, rk = self.kind(e.left), self.kind(e.right)
            if 'set' in (lk, rk) and isinstance(e.op, (ast.BitOr, ast.BitAnd, ast.Sub, ast.BitXor)):
                return 'set'
            if isinstance(e.op, (ast.Add, ast.Mult)) and 'ordered' in (lk, rk):
                return 'ordered'
            return 'unknown'
        if isinstance(e, ast.IfExp):
            a, b = self.kind(e.body), self.kind(e.orelse)
            return a if a == b else ('set' if 'set' in (a, b) else 'unknown')
        if isinstance(e, ast.Call):
            f = e.func
            name = f.id if isinstance(f, ast.Name) else f.attr if isinstance(f, ast.Attribute) else None
            if name in SET_CALLS:
                return 'set'
            if name in FS_CALLS:
                return 'fs'
            if name in ('sorted',):
                return 'ordered'
            if name in ('list', 'tuple', 'reversed', 'enumerate', 'zip', 'map', 'filter', 'iter'):
                ks = [self.kind(a) for a in e.args]
                if name in ('map', 'filter'):
                    ks = ks[1:]
                if any(k in ('set', 'fs', 'unordered-dict') for k in ks):
                    return 'set'            # order of the result is the set's order
                return 'ordered' if all(k == 'ordered' for k in ks) else 'unknown'
            if name in ('range', 'str', 'bytes', 'split', 'splitlines', 'join', 'format', 'strip', 'with_suffix'):
                return 'ordered'
            if name in ('items', 'keys', 'values') and isinstance(f, ast.Attribute):
                k = self.kind(f.value)
                return {'ordered': 'ordered', 'unordered-dict': 'unordered-dict'}.get(k, 'unknown')
            if name in ('union', 'intersection', 'difference', 'symmetric_difference', 'copy') and isinstance(f, ast.Attribute):
                k = self.kind(f.value)
                return k if k in ('set', 'ordered') else 'unknown'
            if name in ('fromkeys',):
                ks = [self.kind(a) for a in e.args[:1]]
                return 'unordered-dict' if 'set' in ks else 'unknown'
            ks = self.local_env.meth.get(name) or self.env.meth.get(name)
            if ks and len(ks) == 1 and 'unknown' not in ks:
                return next(iter(ks))
            return 'unknown'
        return 'unknown'

    # ---- bookkeeping ------------------------------------------------------------------------
    def text(self, node):
        return ' '.join(ast.unparse(node).split())

    # ---- identity of a site: robust to renaming locals and to moving code into another method of the same class ------
    def local_names(self):
        if not self.fnodes:
            return set()
        fn = self.fnodes[-1]
        a = fn.args
        names = {x.arg for x in a.posonlyargs + a.args + a.kwonlyargs + ([a.vararg] if a.vararg else []) + ([a.kwarg] if a.kwarg else [])}
        for n in ast.walk(fn):
            if isinstance(n, ast.Name) and isinstance(n.ctx, ast.Store):
                names.add(n.id)
        return names - {'self', 'cls'}

    def canon(self, node, locs=None):
        """source text with every local variable of the enclosing function replaced by `_`"""
        locs = self.local_names() if locs is None else locs

        class R(ast.NodeTransformer):
            def visit_Name(self, n):
                return ast.copy_location(ast.Name(id='_', ctx=n.ctx), n) if n.id in locs else n
        import copy
        return ' '.join(ast.unparse(R().visit(copy.deepcopy(node))).split())

    def canon_iterable(self, node):
        """what is iterated: a local name is replaced by the (canonical) expression it is bound to, when it is bound once"""
        locs = self.local_names()
        if isinstance(node, ast.Name) and node.id in locs and self.fnodes:
            fn = self.fnodes[-1]
            binds = [n for n in ast.walk(fn) if isinstance(n, (ast.Assign, ast.AnnAssign)) and n.value is not None
                     and any(isinstance(t, ast.Name) and t.id == node.id for t in (n.targets if isinstance(n, ast.Assign) else [n.target]))]
            fills = sorted({n.func.attr for n in ast.walk(fn) if isinstance(n, ast.Call) and isinstance(n.func, ast.Attribute)
                            and isinstance(n.func.value, ast.Name) and n.func.value.id == node.id
                            and n.func.attr in ('add', 'update', 'append', 'extend', 'discard', 'remove')})
            if len(binds) == 1:
                return self.canon(binds[0].value, locs) + (' filled by ' + '/'.join(fills) if fills else '')
            params = {x.arg for x in fn.args.args + fn.args.kwonlyargs}
            if node.id in params:
                ann = next((x.annotation for x in fn.args.args + fn.args.kwonlyargs if x.arg == node.id), None)
                return '<parameter: ' + (ast.unparse(ann) if ann is not None else '?') + '>'
            return f'<local bound {len(binds)} times>'
        return self.canon(node, locs)

    def uses(self, nodes):
        """how the elements are consumed: attribute names and (non-local) functions mentioned in the loop body"""
        locs = self.local_names()
        out = set()
        for b in nodes:
            for n in ast.walk(b):
                if isinstance(n, ast.Attribute):
                    out.add(n.attr)
                elif isinstance(n, ast.Call) and isinstance(n.func, ast.Name) and n.func.id not in locs:
                    out.add(n.func.id + '()')
        return ','.join(sorted(out))

    def where(self):
        """the class (for anything inside a class) or the module: a statement moved into a private helper of the same class, or
        into another function of the same module, keeps its identity (what is iterated and how it is consumed identify it)"""
        if len(self.func) > 1 and self.in_class:
            return self.func[1]
        return '<module>'

    def add(self, kind, node, cls, body=None):
        expr = self.canon_iterable(node)
        if body is not None:
            expr += ' | body uses: ' + self.uses(body)
        self.sites.append(dict(file=self.file, func=self.where(), kind=kind, expr=expr, line=getattr(node, 'lineno', 0), cls=cls,
                               method='.'.join(self.func[1:]) or '<module>', src=self.text(node)))

    def classify_iter(self, kind, it, body=None):
        k = self.kind(it)
        if k == 'ordered':
            return
        if (self.file, self.canon_iterable(it)) in REVIEWED_ORDERED:
            self.add(kind, it, 'reviewed', body)
            return
        cls = 'unordered' if k in ('set', 'fs', 'unordered-dict') else 'unknown'
        self.add(kind + (':' + k if cls == 'unordered' else ''), it, cls, body)

    def bind(self, target, kind):
        if isinstance(target, ast.Name):
            prev = self.locals[-1].get(target.id)
            if prev is not None and prev != kind:
                kind = 'set' if 'set' in (prev, kind) else 'unknown'
            self.locals[-1][target.id] = kind

    # ---- visitors ---------------------------------------------------------------------------
    def visit_FunctionDef(self, node):
        self.func.append(node.name)
        self.fnodes.append(node)
        scope = {}
        args = node.args
        for a in args.posonlyargs + args.args + args.kwonlyargs + ([args.vararg] if args.vararg else []) + ([args.kwarg] if args.kwarg else []):
            k = ann_kind(a.annotation)
            if a is args.vararg:
                k = 'ordered'
            if k:
                scope[a.arg] = k
        self.locals.append(scope)
        # two passes so that a use before a later (re)assignment sees the merged kind
        for _ in range(2):
            for sub in ast.walk(node):
                if isinstance(sub, ast.Assign):
                    k = self.kind(sub.value)
                    for t in sub.targets:
                        self.bind(t, k)
                        # a, *rest = xs : rest is a list in the order of xs
                        if isinstance(t, ast.Tuple):
                            for el in t.elts:
                                if isinstance(el, ast.Starred) and isinstance(el.value, ast.Name):
                                    self.bind(el.value, 'ordered' if k == 'ordered' else 'set' if k in ('set', 'fs', 'unordered-dict') else 'unknown')
                elif isinstance(sub, ast.AnnAssign) and isinstance(sub.target, ast.Name):
                    self.bind(sub.target, ann_kind(sub.annotation) or (self.kind(sub.value) if sub.value else 'unknown'))
                elif isinstance(sub, ast.AugAssign) and isinstance(sub.target, ast.Name):
                    pass
        self.generic_visit(node)
        self.locals.pop()
        self.func.pop()
        self.fnodes.pop()

    visit_AsyncFunctionDef = visit_FunctionDef

    def visit_ClassDef(self, node):
        self.func.append(node.name)
        self.in_class += 1
        self.generic_visit(node)
        self.in_class -= 1
        self.func.pop()

    def visit_Lambda(self, node):
        self.generic_visit(node)

    def visit_For(self, node):
        self.classify_iter('for', node.iter, list(node.body))
        # loop variable kinds: elements are unknown
        self.generic_visit(node)

    def comp(self, node, kind):
        for g in node.generators:
            # a set built from a set is order-free unless the element expression has effects (calls are
            # reported by their own sites); still listed, as kind setcomp, so that it must be matched
            body = list(g.ifs) + ([node.key, node.value] if isinstance(node, ast.DictComp) else [node.elt])
            self.classify_iter(kind, g.iter, body)
        self.generic_visit(node)

    def visit_ListComp(self, node):
        self.comp(node, 'listcomp')

    def visit_SetComp(self, node):
        self.comp(node, 'setcomp')

    def visit_DictComp(self, node):
        self.comp(node, 'dictcomp')

    def visit_GeneratorExp(self, node):
        self.comp(node, 'genexp')

    def visit_Call(self, node):
        f = node.func
        name = f.id if isinstance(f, ast.Name) else f.attr if isinstance(f, ast.Attribute) else None
        if name in NONDET:
            # hash()/id() etc.; attribute calls only when the receiver is a module-like bare name
            if isinstance(f, ast.Name) or (isinstance(f, ast.Attribute) and isinstance(f.value, ast.Name)
                                           and f.value.id in ('random', 'time', 'uuid', 'os', 'datetime', 'secrets', 'tempfile')):
                self.nondet.append(dict(file=self.file, func='.'.join(self.func[1:]) or '<module>',
                                        expr=self.text(node), line=node.lineno))
        if isinstance(f, ast.Name) and name in ORDER_EXPOSING:
            for a in node.args:
                if isinstance(a, (ast.GeneratorExp,)):
                    continue          # handled by visit_GeneratorExp
                k = self.kind(a)
                if k in ('set', 'fs', 'unordered-dict'):
                    self.add(f'call:{name}:{k}', a, 'unordered')
        if isinstance(f, ast.Attribute) and name == 'join' and node.args:
            k = self.kind(node.args[0])
            if k in ('set', 'fs', 'unordered-dict'):
                self.add(f'call:join:{k}', node.args[0], 'unordered')
        if isinstance(f, ast.Attribute) and name == 'pop' and not node.args:
            # set.pop() removes an ARBITRARY element: an order-dependent use that is not a loop.
            # (list.pop() is positional; dict.pop needs a key.)  Unknown receivers fail closed.
            rk = self.kind(f.value)
            if rk in ('set', 'unordered-dict', 'fs'):
                self.add('call:set.pop', f.value, 'unordered')
            elif rk != 'ordered':
                self.add('call:pop-on-untyped-receiver', f.value, 'unknown')
        if isinstance(f, ast.Attribute) and name == 'popitem':
            rk = self.kind(f.value)
            if rk in ('set', 'unordered-dict', 'fs'):
                self.add('call:dict.popitem', f.value, 'unordered')
            elif rk != 'ordered':
                self.add('call:popitem-on-untyped-receiver', f.value, 'unknown')
        if isinstance(f, ast.Attribute) and name in ('extend', 'update') and node.args:
            # list.extend(set) / dict.update(set-ordered dict): order flows into an ordered container
            k = self.kind(node.args[0])
            rk = self.kind(f.value)
            if k in ('set', 'fs', 'unordered-dict') and rk != 'set':
                self.add(f'call:{name}:{k}', node.args[0], 'unordered' if rk == 'ordered' else 'unknown')
        for a in node.args:
            if isinstance(a, ast.Starred) and self.kind(a.value) in ('set', 'fs', 'unordered-dict'):
                self.add('star-args', a.value, 'unordered')
        self.generic_visit(node)

    def literal_with_star(self, node):
        for e in node.elts:
            if isinstance(e, ast.Starred) and self.kind(e.value) in ('set', 'fs', 'unordered-dict'):
                self.add('star-in-literal', e.value, 'unordered')
        self.generic_visit(node)

    visit_Tuple = literal_with_star
    visit_List = literal_with_star

    def visit_FormattedValue(self, node):
        if self.kind(node.value) in ('set', 'fs', 'unordered-dict'):
            self.add('fstring', node.value, 'unordered')
        self.generic_visit(node)

    def visit_Attribute(self, node):
        if node.attr in TAINTED_ATTRS and isinstance(node.ctx, ast.Load):
            parent = self.parents.get(id(node))
            cons = 'other'
            if isinstance(parent, ast.Call) and node in parent.args:
                pf = parent.func
                cons = 'call:' + (pf.id if isinstance(pf, ast.Name) else pf.attr if isinstance(pf, ast.Attribute) else '?')
            elif isinstance(parent, ast.Compare):
                cons = 'compare:' + ','.join(type(o).__name__ for o in parent.ops)
            elif isinstance(parent, (ast.For, ast.comprehension)) and parent.iter is node:
                cons = 'iterate'
            elif (isinstance(parent, (ast.If, ast.While, ast.IfExp, ast.Assert)) and parent.test is node) \
                    or (isinstance(parent, ast.BoolOp) and node in parent.values) \
                    or (isinstance(parent, ast.UnaryOp) and isinstance(parent.op, ast.Not)):
                cons = 'truth-value'          # emptiness test = len(..) > 0
            elif isinstance(parent, ast.Attribute):
                cons = 'attr:' + parent.attr
            elif isinstance(parent, ast.Subscript):
                cons = 'subscript'
            elif isinstance(parent, ast.Assign):
                cons = 'assign'
            elif isinstance(parent, ast.Return):
                cons = 'return'
            cname = cons.split(':')[-1]
            insens = cons.startswith('call:') and cname in ORDER_INSENSITIVE_CONSUMERS or \
                cons in ('compare:In', 'compare:NotIn', 'truth-value')
            self.add(f'tainted-attr:{cons}', node, 'tainted-insensitive' if insens else 'tainted')
        self.generic_visit(node)

    def run(self, tree):
        for parent in ast.walk(tree):
            for child in ast.iter_child_nodes(parent):
                self.parents[id(child)] = parent
        self.visit(tree)


def scan(repo):
    pkg = os.path.join(repo, 'generation', 'src', 'proof_generation')
    env = gather(pkg)
    sites, nondet = [], []
    for rel in scanned_files(pkg):
        src = open(os.path.join(pkg, rel)).read()
        tree = ast.parse(src)
        sc = Scanner(env, rel, src, gather(pkg, only=rel))
        sc.run(tree)
        sites += sc.sites
        nondet += sc.nondet
    st, rv = state_scan(pkg)
    sites += [dict(x, cls='state') for x in st] + [dict(x, cls='state-reviewed') for x in rv]
    return sites, nondet


_VERNAC = ('Admitted', 'admit', 'Axiom', 'Axioms', 'Parameter', 'Parameters', 'Conjecture', 'Conjectures', 'Hypothesis',
           'Hypotheses', 'Variable', 'Variables')


# ------------------------------------------------------------------------------------------------
# process-level / object-level state that can make the output depend on history
# ------------------------------------------------------------------------------------------------

CACHE_DECORATORS = {'cache', 'lru_cache', 'cached_property', 'memoize', 'memoized', 'cached', 'singledispatch'}
MUTATORS = {'add', 'append', 'extend', 'update', 'setdefault', 'insert', 'pop', 'popitem', 'remove', 'discard', 'clear',
            'appendleft', '__setitem__'}
# caches reviewed by hand: (file, function) -> why the cached value is a function of the arguments only
REVIEWED_CACHES = {
    ('proofs/kore.py', 'sorted_exists'): 'notation constructor keyed by its only argument; returns an immutable Notation',
    ('proofs/kore.py', 'kore_exists'): 'notation constructor keyed by its only argument; returns an immutable Notation',
    ('proofs/kore.py', 'nary_app'): 'notation constructor keyed by all its arguments (the cache exists so that equal arguments give the same object)',
    ('proofs/kore.py', 'deconstruct_nary_application'): 'pure function of an immutable pattern',
    ('proofs/kore.py', 'deconstruct_equality_rule'): 'pure function of an immutable pattern',
}
# instance attributes assigned outside __init__ in the scanned files, reviewed: (file, class.method, attribute) -> why
REVIEWED_INSTANCE_STATE = {
    ('counting_interpreter.py', 'CountingInterpreter', '_max_allowed_slots'):
        'analysis object is created per serialize() call; finalize() asserts it runs once',
    ('counting_interpreter.py', 'CountingInterpreter', '_finalized'): 'same (one-shot flag of a per-call object)',
    ('metamath/converter/scope.py', 'Scope', '_metavars'):
        'initialiser-style copy: called on a Scope() created the line before; copies the parent scope\'s tables',
    ('metamath/converter/scope.py', 'Scope', '_element_vars'): 'same',
    ('metamath/converter/scope.py', 'Scope', '_set_vars'): 'same',
    ('metamath/converter/scope.py', 'Scope', '_notations'): 'same',
}


def state_scan(pkg):
    """(sites, reviewed): caches / module-level mutable state in the WHOLE package, instance state written outside
    __init__ in the scanned (anchored + converter) files"""
    sites, reviewed = [], []
    scanned = set(scanned_files(pkg))
    for root, _, files in os.walk(pkg):
        for fn in sorted(files):
            if not fn.endswith('.py'):
                continue
            path = os.path.join(root, fn)
            rel = os.path.relpath(path, pkg)
            try:
                tree = ast.parse(open(path).read())
            except SyntaxError:
                continue
            # (i) caching decorators
            for node in ast.walk(tree):
                if isinstance(node, (ast.FunctionDef, ast.AsyncFunctionDef)):
                    for d in node.decorator_list:
                        core = d.func if isinstance(d, ast.Call) else d
                        nm = core.id if isinstance(core, ast.Name) else core.attr if isinstance(core, ast.Attribute) else ''
                        if nm in CACHE_DECORATORS:
                            rec = dict(file=rel, func=node.name, kind='cache-decorator:' + nm, expr=node.name, line=node.lineno)
                            (reviewed if (rel, node.name) in REVIEWED_CACHES else sites).append(rec)
            # (ii) module-level mutable containers that some function mutates, `global` statements,
            #      class-level attributes written through the class (ClassName.attr = ..., cls.attr = ...)
            modlevel = {}
            classes = {n.name for n in tree.body if isinstance(n, ast.ClassDef)}
            for n in tree.body:
                tgts = []
                if isinstance(n, ast.Assign):
                    tgts, val = n.targets, n.value
                elif isinstance(n, ast.AnnAssign) and n.value is not None:
                    tgts, val = [n.target], n.value
                for t in tgts:
                    if isinstance(t, ast.Name) and (isinstance(val, (ast.Dict, ast.List, ast.Set, ast.DictComp, ast.ListComp, ast.SetComp))
                                                    or (isinstance(val, ast.Call) and isinstance(val.func, ast.Name)
                                                        and val.func.id in ('dict', 'list', 'set', 'defaultdict', 'OrderedDict', 'Counter', 'deque'))):
                        modlevel[t.id] = n.lineno
            for fnode in ast.walk(tree):
                if not isinstance(fnode, (ast.FunctionDef, ast.AsyncFunctionDef)):
                    continue
                for sub in ast.walk(fnode):
                    if isinstance(sub, ast.Global):
                        for g in sub.names:
                            sites.append(dict(file=rel, func=fnode.name, kind='global-statement', expr=g, line=sub.lineno))
                    if isinstance(sub, ast.Call) and isinstance(sub.func, ast.Attribute) and sub.func.attr in MUTATORS \
                            and isinstance(sub.func.value, ast.Name) and sub.func.value.id in modlevel:
                        sites.append(dict(file=rel, func=fnode.name, kind='module-level-container-mutated',
                                          expr=sub.func.value.id, line=sub.lineno))
                    if isinstance(sub, (ast.Assign, ast.AugAssign, ast.AnnAssign)):
                        for t in (sub.targets if isinstance(sub, ast.Assign) else [sub.target]):
                            base = t.value if isinstance(t, ast.Subscript) else t
                            if isinstance(t, ast.Subscript) and isinstance(base, ast.Name) and base.id in modlevel:
                                sites.append(dict(file=rel, func=fnode.name, kind='module-level-container-mutated',
                                                  expr=base.id, line=sub.lineno))
                            if isinstance(t, ast.Attribute) and isinstance(t.value, ast.Name) and (t.value.id in classes or t.value.id == 'cls'):
                                sites.append(dict(file=rel, func=fnode.name, kind='class-attribute-written',
                                                  expr=f'{t.value.id}.{t.attr}', line=sub.lineno))
            # (iii) instance attributes assigned outside __init__ (memoised serialisation inputs) — scanned files only
            if rel in scanned:
                for cnode in ast.walk(tree):
                    if not isinstance(cnode, ast.ClassDef):
                        continue
                    for m in cnode.body:
                        if not isinstance(m, (ast.FunctionDef, ast.AsyncFunctionDef)) or m.name in ('__init__', '__post_init__', '__new__'):
                            continue
                        for sub in ast.walk(m):
                            if isinstance(sub, (ast.Assign, ast.AugAssign, ast.AnnAssign)):
                                for t in (sub.targets if isinstance(sub, ast.Assign) else [sub.target]):
                                    if isinstance(t, ast.Attribute) and isinstance(t.value, ast.Name) and t.value.id == 'self':
                                        rec = dict(file=rel, func=cnode.name, kind='instance-attribute-written-outside-init',
                                                   expr='self.' + t.attr, line=sub.lineno)
                                        (reviewed if (rel, cnode.name, t.attr) in REVIEWED_INSTANCE_STATE else sites).append(rec)
    return sites, reviewed


def coq_string(s):
    # source text may contain words the development's audit greps for (class Axiom, ...): spell them with a
    # middle dot so that a site mentioning them is not mistaken for forbidden vernacular
    import re
    s = re.sub(r'\b(' + '|'.join(_VERNAC) + r')\b', lambda m: m.group(1)[:2] + '.' + m.group(1)[2:], s)
    return '"' + s.replace('"', '""') + '"'


def emit(sites, nondet):
    def rec(s):
        return (f'  {{| s_file := {coq_string(s["file"])}; s_func := {coq_string(s["func"])}; '
                f's_kind := {coq_string(s["kind"])}; s_expr := {coq_string(s["expr"])} |}}')

    def lst(name, items, comment):
        body = ';\n'.join(rec(s) + f'  (* line {s["line"]} *)' for s in items)
        # the trailing comment must come before the separator: re-join with comments inside
        lines = []
        for i, s in enumerate(items):
            sep = ';' if i < len(items) - 1 else ''
            lines.append(rec(s) + sep + f'  (* line {s["line"]} *)')
        return f'(** {comment} *)\nDefinition {name} : list site := [\n' + '\n'.join(lines) + '\n].\n'

    def key(s):
        return (s['file'], s['func'], s['kind'], s['expr'])

    def dedup(items):
        seen, out = set(), []
        for s in items:
            if key(s) not in seen:
                seen.add(key(s))
                out.append(s)
        return out

    uno = dedup([s for s in sites if s['cls'] == 'unordered'])
    unk = dedup([s for s in sites if s['cls'] == 'unknown'])
    tai = dedup([s for s in sites if s['cls'] == 'tainted'])
    tin = dedup([s for s in sites if s['cls'] == 'tainted-insensitive'])
    nd = dedup([dict(s, kind='nondet-call') for s in nondet])
    rev = dedup([s for s in sites if s['cls'] == 'reviewed'])
    out = ['(** GENERATED by translators/setsites.py from the anchored files of C18 — do not edit.',
           '    Regenerated on every run of ./check C18; Det/Sites.v proves every entry matched. *)',
           'From Coq Require Import List String.', 'Import ListNotations.', 'Open Scope string_scope.', '',
           'Record site := { s_file : string; s_func : string; s_kind : string; s_expr : string }.', '',
           lst('set_sites', uno, 'iteration over / order-exposing use of an unordered collection'),
           lst('tainted_uses', tai, 'order-sensitive uses of attributes that carry a sequence of unordered origin'),
           lst('tainted_insensitive_uses', tin, 'uses of such attributes through len / set / membership (listed for the record)'),
           lst('reviewed_ordered', rev, 'iterables typed by the reviewed table in the scanner (insertion-ordered dicts)'),
           lst('unclassified', unk, 'iterables whose orderedness the scanner could not establish (must be empty or matched)'),
           lst('nondet_calls', nd, 'calls to process-level nondeterminism sources (must be empty)'),
           lst('state_sites', dedup([s for s in sites if s['cls'] == 'state']),
               'caches (functools.cache/lru_cache/...), module-level containers mutated in functions, global statements, class '
               'attributes written through the class (whole package) and instance attributes written outside __init__ (scanned '
               'files): history-dependence sources, must be empty'),
           lst('reviewed_state', dedup([s for s in sites if s['cls'] == 'state-reviewed']),
               'the same, reviewed by hand in the scanner (argument-keyed notation constructors, one-shot flags of per-call objects)')]
    return '\n'.join(out)


if __name__ == '__main__':
    import sys
    s, n = scan(sys.argv[1] if len(sys.argv) > 1 else '/repo')
    print(emit(s, n))

"""TEMPLATE for a property check module `harness/cNN.py` (copy, rename, fill in).

Contract:  run(tier, seed) -> exit code (0 = property held on everything explored / only known
findings reproduced; 1 = at least one VIOLATION line printed).  replay(path) -> exit code.
`common.Report` prints the KNOWN-FINDING / VIOLATION lines and writes evidence/<Cxx>.json.
"""
import json
import common as C

CID = 'C99'


def setup():
    """optional: build extracted model etc. (called by ./check --setup)"""


def run(tier, seed):
    R = C.Report(CID, tier, seed)
    rng = C.rng_for(seed, CID)
    n = 2000 if tier == 'quick' else 200000

    # 1. proof stage: builds coq/Props/C99.v and its closure, audits, captures Print Assumptions
    P = R.proof_stage()
    proof_broken = not P['ok']

    # 2. tie stage: extracted model vs implementation on the same inputs
    #    ok, log, mlref = C.build_mlref(...);  impl_out, err = C.run_py('xx_runner.py', lines)
    #    model_out = C.run_lines(mlref, lines)
    mismatches = []     # list of (case, model_answer, impl_answer)
    #    for every case:  R.case(key=<canonical input>, nontrivial=<bool>, kind='<histogram bucket>')
    #                     R.sample(<human-readable case>)

    # 3. property oracle on the implementation (ALWAYS run a small budget; bigger when 1 or 2 broke):
    #    for a failing input found:
    #       R.violation(signature='<normalised call site / input class>',
    #                   description='...', replay={'input': ..., 'expected': ..., 'got': ...})
    #    (Report.violation suppresses signatures listed as kind=finding in the known-findings files and
    #     prints KNOWN-FINDING instead.)

    # 4. broken proof / correspondence with no failing input found is still a violation:
    if proof_broken and not R.violations:
        R.violation('proof-broken', 'Coq proof stage failed',
                    {'no_failing_input_found': True, 'theorem_or_correspondence': f'Props/{CID}.v', 'log': P['log']})
    if mismatches and not R.violations:
        R.violation('correspondence-broken', 'model and implementation disagree',
                    {'no_failing_input_found': True, 'theorem_or_correspondence': 'correspondence <which>',
                     'first_mismatches': mismatches[:5]})

    R.coverage['rule'] = 'how cases are generated; what makes one distinct and non-trivial'
    return R.finish(level='proof', trusted_base=C.TRUSTED_COMMON + ['...property-specific items...'])


def replay(path):
    d = json.load(open(path))
    print(json.dumps(d, indent=1)[:4000])
    # re-run the replay input against model and implementation, print both answers
    return 0

"""Generators for the checker-side properties (C01, C05, C06, C11): patterns, instruction streams.

Patterns are Python tuples mirroring coq/ML/Syntax.v `pat`:
  ('EVar',n) ('SVar',n) ('Sym',n) ('Imp',l,r) ('App',l,r) ('Ex',x,p) ('Mu',X,p)
  ('MVar',id,ef,sf,pos,neg,holes) ('ESub',p,x,plug) ('SSub',p,X,plug)
"""
from __future__ import annotations

# opcodes (kept local: the tables in /repo are compared separately by Gen/Opcodes.v)
EVAR, SVAR, SYM, IMP, APP, MU, EX, MVAR, ESUB, SSUB = 2, 3, 4, 5, 6, 7, 8, 9, 10, 11
PROP1, PROP2, PROP3, QUANT, EXISTENCE = 12, 13, 14, 15, 19
MP, GEN, SUBST, INST, POP, SAVE, LOAD, PUBLISH, CLEANMV = 21, 22, 24, 26, 27, 28, 29, 30, 137
UNIMPL = [16, 17, 18, 20, 23, 25]
ALL_OPS = list(range(2, 31)) + [137]


def hexs(bs):
    return ''.join('%02x' % (b & 255) for b in bs) if bs else '-'


# ---- private prefix codec (same as harness.rs / ml_driver.ml)
def enc(p):
    t = p[0]
    if t == 'EVar':
        return [0, p[1]]
    if t == 'SVar':
        return [1, p[1]]
    if t == 'Sym':
        return [2, p[1]]
    if t == 'Imp':
        return [3] + enc(p[1]) + enc(p[2])
    if t == 'App':
        return [4] + enc(p[1]) + enc(p[2])
    if t == 'Ex':
        return [5, p[1]] + enc(p[2])
    if t == 'Mu':
        return [6, p[1]] + enc(p[2])
    if t == 'MVar':
        out = [7, p[1]]
        for l in p[2:7]:
            out += [len(l)] + list(l)
        return out
    if t == 'ESub':
        return [8] + enc(p[1]) + [p[2]] + enc(p[3])
    if t == 'SSub':
        return [9] + enc(p[1]) + [p[2]] + enc(p[3])
    raise ValueError(t)


def dec(bs):
    i = [0]

    def byte():
        b = bs[i[0]]
        i[0] += 1
        return b

    def go():
        t = byte()
        if t == 0:
            return ('EVar', byte())
        if t == 1:
            return ('SVar', byte())
        if t == 2:
            return ('Sym', byte())
        if t == 3:
            l = go()
            return ('Imp', l, go())
        if t == 4:
            l = go()
            return ('App', l, go())
        if t == 5:
            x = byte()
            return ('Ex', x, go())
        if t == 6:
            x = byte()
            return ('Mu', x, go())
        if t == 7:
            id_ = byte()
            ls = []
            for _ in range(5):
                n = byte()
                ls.append(tuple(byte() for _ in range(n)))
            return ('MVar', id_, *ls)
        if t == 8:
            p = go()
            x = byte()
            return ('ESub', p, x, go())
        if t == 9:
            p = go()
            x = byte()
            return ('SSub', p, x, go())
        raise ValueError('tag')

    r = go()
    return r


def unhex(s):
    return [] if s == '-' else list(bytes.fromhex(s))


def phex(p):
    return hexs(enc(p))


def show(p):
    t = p[0]
    if t == 'EVar':
        return f'x{p[1]}'
    if t == 'SVar':
        return f'X{p[1]}'
    if t == 'Sym':
        return f's{p[1]}'
    if t == 'Imp':
        return f'({show(p[1])} -> {show(p[2])})'
    if t == 'App':
        return f'({show(p[1])} . {show(p[2])})'
    if t == 'Ex':
        return f'(E x{p[1]}. {show(p[2])})'
    if t == 'Mu':
        return f'(mu X{p[1]}. {show(p[2])})'
    if t == 'MVar':
        c = ','.join(f'{n}={list(l)}' for n, l in zip(['ef', 'sf', 'pos', 'neg', 'holes'], p[2:7]) if l)
        return f'phi{p[1]}' + (f'{{{c}}}' if c else '')
    if t == 'ESub':
        return f'{show(p[1])}[{show(p[3])}/x{p[2]}]'
    if t == 'SSub':
        return f'{show(p[1])}[{show(p[3])}/X{p[2]}]'
    return '?'


def size(p):
    return 1 + sum(size(q) for q in p[1:] if isinstance(q, tuple) and q and isinstance(q[0], str))


def phi(n):
    return ('MVar', n, (), (), (), (), ())


BOT = ('Mu', 0, ('SVar', 0))


def neg(p):
    return ('Imp', p, BOT)


# ---- postfix compilation of a pattern into checker instructions
def build(p):
    t = p[0]
    if t == 'EVar':
        return [EVAR, p[1]]
    if t == 'SVar':
        return [SVAR, p[1]]
    if t == 'Sym':
        return [SYM, p[1]]
    if t == 'Imp':
        return build(p[1]) + build(p[2]) + [IMP]
    if t == 'App':
        return build(p[1]) + build(p[2]) + [APP]
    if t == 'Ex':
        return build(p[2]) + [EX, p[1]]
    if t == 'Mu':
        return build(p[2]) + [MU, p[1]]
    if t == 'MVar':
        if not any(p[2:7]):
            return [CLEANMV, p[1]]
        out = [MVAR, p[1]]
        for l in p[2:7]:
            out += [len(l)] + list(l)
        return out
    if t == 'ESub':
        return build(p[3]) + build(p[1]) + [ESUB, p[2]]
    if t == 'SSub':
        return build(p[3]) + build(p[1]) + [SSUB, p[2]]
    raise ValueError(t)


# ---- random patterns
def gen_pat(rng, depth, names=3, meta=True, subst=True, wf=True, neg_forbidden=frozenset(), pos_forbidden=frozenset()):
    """random pattern; with wf=True, Mu bodies respect positivity by construction and ESubst/SSubst
    have a meta head and are (mostly) non-redundant"""
    def nm():
        return rng.randrange(names)

    def go(d, negf, posf):
        leaf = d <= 0 or rng.random() < 0.25
        if leaf:
            k = rng.random()
            if k < 0.3:
                return ('EVar', nm())
            if k < 0.55:
                X = nm()
                if wf and X in negf:      # current position is negative for X: not allowed
                    return ('Sym', nm())
                return ('SVar', X)
            if k < 0.7 or not meta:
                return ('Sym', nm())
            return gen_mvar(rng, names, rich=rng.random() < 0.4)
        k = rng.random()
        if k < 0.3:
            return ('Imp', go(d - 1, posf, negf), go(d - 1, negf, posf))
        if k < 0.45:
            return ('App', go(d - 1, negf, posf), go(d - 1, negf, posf))
        if k < 0.6:
            return ('Ex', nm(), go(d - 1, negf, posf))
        if k < 0.75:
            X = nm()
            # inside mu X: X must occur only positively: at this position polarity is "positive"
            body = go(d - 1, negf | {X}, posf - {X})
            return ('Mu', X, body)
        if subst and meta and k < 0.9:
            head = gen_mvar(rng, names, rich=rng.random() < 0.3)
            for _ in range(rng.randrange(1, 3)):
                x = nm()
                plug = go(d - 2, negf | posf, posf | negf) if wf else go(d - 2, negf, posf)
                if rng.random() < 0.5:
                    if wf and (plug == ('EVar', x)):
                        plug = ('Sym', nm())
                    head = ('ESub', head, x, plug)
                else:
                    if wf and (plug == ('SVar', x)):
                        plug = ('Sym', nm())
                    head = ('SSub', head, x, plug)
            return head
        return ('Imp', go(d - 1, posf, negf), go(d - 1, negf, posf))
    return go(depth, frozenset(neg_forbidden), frozenset(pos_forbidden))


def gen_mvar(rng, names, rich=False):
    if not rich:
        return phi(rng.randrange(names + 1))

    def sub():
        return tuple(sorted(set(rng.randrange(names) for _ in range(rng.randrange(0, 3)))))
    ef, sf, pos, ng = sub(), sub(), sub(), sub()
    holes = tuple(h for h in sub() if h not in ef) if rng.random() < 0.8 else sub()
    return ('MVar', rng.randrange(names + 1), ef, sf, pos, ng, holes)


def gen_pat_raw(rng, depth, names=3):
    """no well-formedness bias at all (any constructor anywhere, ESubst over non-meta, ...)"""
    def nm():
        return rng.randrange(names)

    def go(d):
        if d <= 0 or rng.random() < 0.2:
            k = rng.randrange(4)
            if k == 0:
                return ('EVar', nm())
            if k == 1:
                return ('SVar', nm())
            if k == 2:
                return ('Sym', nm())
            return gen_mvar(rng, names, rich=rng.random() < 0.5)
        k = rng.randrange(6)
        if k == 0:
            return ('Imp', go(d - 1), go(d - 1))
        if k == 1:
            return ('App', go(d - 1), go(d - 1))
        if k == 2:
            return ('Ex', nm(), go(d - 1))
        if k == 3:
            return ('Mu', nm(), go(d - 1))
        if k == 4:
            return ('ESub', go(d - 1), nm(), go(d - 1))
        return ('SSub', go(d - 1), nm(), go(d - 1))
    return go(depth)


# ---- proof skeletons (instruction streams that construct proofs)
def inst_axiom(op, plugs):
    """axiom `op` instantiated: ids 0..k-1 := plugs[0..k-1]"""
    out = []
    for p in reversed(plugs):
        out += build(p)
    out += [op, INST, len(plugs)] + list(range(len(plugs)))
    return out


def prog_imp_refl(A):
    AA = ('Imp', A, A)
    return (inst_axiom(PROP2, [A, AA, A]) + inst_axiom(PROP1, [A, AA]) + [MP]
            + inst_axiom(PROP1, [A, A]) + [MP])


def gen_proof_prog(rng, names=3, depth=2):
    """returns (claim_pattern_or_None, proof bytes ending with the proved term on top (not published),
    description)"""
    k = rng.random()
    A = gen_pat(rng, depth, names)
    if k < 0.2:
        return ('Imp', A, A), prog_imp_refl(A), 'imp_refl'
    if k < 0.3:
        B = gen_pat(rng, depth, names)
        return ('Imp', A, ('Imp', B, A)), inst_axiom(PROP1, [A, B]), 'prop1'
    if k < 0.4:
        return ('Imp', neg(neg(A)), A), inst_axiom(PROP3, [A]), 'prop3'
    if k < 0.55:
        x = rng.randrange(names)
        return ('Imp', ('Ex', x, A), A), prog_imp_refl(A) + [GEN, x], 'gen(imp_refl)'
    if k < 0.7:
        X = rng.randrange(names)
        plug = gen_pat(rng, depth - 1, names)
        return None, build(plug) + prog_imp_refl(A) + [SUBST, X], 'subst(imp_refl)'
    if k < 0.8:
        # schematic lemma then instantiate
        B = gen_pat(rng, depth, names)
        n = rng.randrange(names + 1)
        return None, build(B) + prog_imp_refl(phi(n)) + [INST, 1, n], 'inst(imp_refl(phi))'
    if k < 0.9:
        return None, build(A) + [QUANT, INST, 1, 0], 'quantifier-inst'
    return ('Ex', 0, ('EVar', 0)), [EXISTENCE], 'existence'


def gen_valid_triple(rng, names=3, depth=2):
    """(gamma, claim, proof, descr): mostly accepted programs with interleaved Save/Load/Pop"""
    gamma, claim, proof = [], [], []
    descr = []
    axioms, idx = [], []
    mem = 0
    for _ in range(rng.randrange(0, 3)):
        a = gen_pat(rng, depth, names)
        axioms.append(a)
        gamma += build(a)
        if rng.random() < 0.3:
            gamma += [SAVE]
            mem += 1
        gamma += [PUBLISH]
        idx.append(mem)
        mem += 1
    steps = []
    for _ in range(rng.randrange(0, 3)):
        c, pr, d = gen_proof_prog(rng, names, depth)
        if c is None:
            proof += pr + ([POP] if rng.random() < 0.5 else [SAVE] if rng.random() < 0.5 else [])
            descr.append(d + ':unpublished')
        else:
            steps.append((c, pr, d))
    if axioms and rng.random() < 0.6:
        i = rng.randrange(len(axioms))
        steps.append((axioms[i], None, f'load-axiom{i}'))
    for c, _, _ in steps:
        claim += build(c) + [PUBLISH]
    for c, pr, d in reversed(steps):       # claims are a stack: prove in reverse order
        if pr is None:
            proof += [LOAD, idx[int(d[len('load-axiom'):])], PUBLISH]
        else:
            proof += pr + [PUBLISH]
        descr.append(d)
    return gamma, claim, proof, '+'.join(descr) or 'empty'


def mutate(rng, bs):
    bs = list(bs)
    n = rng.randrange(1, 4)
    kinds = []
    for _ in range(n):
        k = rng.randrange(5)
        if k == 0 and bs:
            i = rng.randrange(len(bs))
            bs[i] = rng.choice(ALL_OPS + [0, 1, 255, rng.randrange(256)])
            kinds.append('replace')
        elif k == 1:
            i = rng.randrange(len(bs) + 1)
            bs.insert(i, rng.choice(ALL_OPS + [0, 1, 2, 255]))
            kinds.append('insert')
        elif k == 2 and bs:
            del bs[rng.randrange(len(bs))]
            kinds.append('delete')
        elif k == 3 and bs:
            bs = bs[:rng.randrange(len(bs))]
            kinds.append('truncate')
        elif bs:
            i = rng.randrange(len(bs))
            j = rng.randrange(len(bs))
            bs[i], bs[j] = bs[j], bs[i]
            kinds.append('swap')
    return bs, '+'.join(kinds)


def gen_typed_prog(rng, length=12, names=3):
    """type-directed random program: tracks only the tags P/T of the stack so that most instructions
    find operands of the right kind; semantic side conditions are left to chance"""
    st = []
    mem = []
    out = []
    for _ in range(length):
        cands = [EVAR, SVAR, SYM, CLEANMV, MVAR, PROP1, PROP2, PROP3, QUANT, EXISTENCE]
        if len(st) >= 1:
            cands += [POP, SAVE]
            if st[-1] == 'P':
                cands += [EX, MU, EX]
            if st[-1] == 'T':
                cands += [GEN, GEN]
            cands += [INST]
        if len(st) >= 2:
            if st[-1] == 'P' and st[-2] == 'P':
                cands += [IMP, IMP, APP, ESUB, SSUB]
            if st[-1] == 'T' and st[-2] == 'T':
                cands += [MP, MP]
            if st[-1] == 'T' and st[-2] == 'P':
                cands += [SUBST, SUBST]
        if mem:
            cands += [LOAD, LOAD]
        op = rng.choice(cands)
        if op in (EVAR, SVAR, SYM, CLEANMV):
            out += [op, rng.randrange(names)]
            st.append('P')
        elif op == MVAR:
            m = gen_mvar(rng, names, rich=True)
            out += build(m) if any(m[2:7]) else [MVAR, m[1], 0, 0, 0, 0, 0]
            st.append('P')
        elif op in (PROP1, PROP2, PROP3, QUANT, EXISTENCE):
            out += [op]
            st.append('T')
        elif op == POP:
            out += [op]
            st.pop()
        elif op == SAVE:
            out += [op]
            mem.append(st[-1])
        elif op == LOAD:
            i = rng.randrange(len(mem))
            out += [op, i]
            st.append(mem[i])
        elif op in (EX, MU):
            out += [op, rng.randrange(names)]
        elif op == GEN:
            out += [op, rng.randrange(names)]
        elif op in (IMP, APP):
            out += [op]
            st.pop()
        elif op in (ESUB, SSUB):
            out += [op, rng.randrange(names)]
            st.pop()
        elif op == MP:
            out += [op]
            st.pop()
        elif op == SUBST:
            out += [op, rng.randrange(names)]
            st.pop()
            st.pop()
            st.append('T')
        elif op == INST:
            t = st[-1]
            k = 0
            while k < 2 and len(st) - 1 - k >= 1 and st[-2 - k] == 'P' and rng.random() < 0.7:
                k += 1
            out += [op, k] + [rng.randrange(names + 1) for _ in range(k)]
            for _ in range(k + 1):
                st.pop()
            st.append(t)
    return out

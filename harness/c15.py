"""C15 — Metamath compressed proofs are decoded as the Metamath specification (Appendix B) says.

proof : coq/Props/C15.v (unbounded round trip, unique encoding, Z handling, label list, lexer layout,
        mandatory hypotheses in database order for every iteration order, refutation of the pinned set order)
tie   : extracted model (ocaml/mlref_mm15) vs converter.py/_import_proof, parser.py, on
        (a) the whitespace classes, (b) every number 1..N + boundaries + big numbers, (c) character-level
        proof strings (structured and malformed), (d) whole databases through lexer+parser+converter under
        several PYTHONHASHSEED values in fresh subprocesses.
oracle: an independent transcription of Appendix B's decoder (below), applied to the implementation.
"""
import json
import os
from concurrent.futures import ThreadPoolExecutor

import common as C

CID = 'C15'
CORPUS = os.path.join(C.VERIF, 'harness', 'corpus', CID)
LS = 'ABCDEFGHIJKLMNOPQRST'
MS = 'UVWXY'
LEXWS = ' \n\t\f\r'


# ------------------------------------------------------------------------------------------------
# Oracle: Appendix B, transcribed independently of both the model and the code under test
# ------------------------------------------------------------------------------------------------

def spec_encode(n):
    """Metamath book, Appendix B: A..T least significant base-20 digit, U..Y higher base-5 digits"""
    assert n >= 1
    n -= 1
    s = LS[n % 20]
    n //= 20
    while n > 0:
        n -= 1
        s = MS[n % 5] + s
        n //= 5
    return s


def spec_decode(floats, stmt_vars, tokens):
    """tokens of the proof (after $=).  Returns (label table, steps) with Z as 0, or None when the
    stream is not a compressed proof in the sense of Appendix B."""
    if not tokens or tokens[0] != '(' or ')' not in tokens:
        return None
    ep = tokens.index(')')
    labels = tokens[1:ep]
    mand = [lbl for (lbl, v) in floats if v in stmt_vars]   # database order of the $f statements
    steps, cur, mid = [], 0, False
    for ch in ''.join(tokens[ep + 1:]):
        if ch == 'Z':
            if mid:
                return None
            steps.append(0)
        elif 'A' <= ch <= 'T':
            cur = 20 * cur + (ord(ch) - 65) + 1
            steps.append(cur)
            cur, mid = 0, False
        elif 'U' <= ch <= 'Y':
            cur = 5 * cur + (ord(ch) - 85) + 1
            mid = True
        else:
            return None
    if mid:
        return None      # unfinished number: not a compressed proof
    return mand + labels, steps


# ------------------------------------------------------------------------------------------------
# model / implementation plumbing
# ------------------------------------------------------------------------------------------------

def enc_s(s):
    return '.'.join(str(ord(c)) for c in s) or '-'


def enc_l(l):
    return ';'.join(enc_s(s) for s in l) if l else '_'


def dec_s(s):
    return '' if s == '-' else ''.join(chr(int(x)) for x in s.split('.'))


def dec_l(s):
    return [] if s == '_' else [dec_s(x) for x in s.split(';')]


def model_outcome(line):
    if line == 'N':
        return ('REJECT',)
    f = line.split(' ')
    if f[0] != 'OK' or len(f) != 3:
        return ('MODEL-ERROR', line)
    return ('OK', dec_l(f[1]), [] if f[2] == '_' else [int(x) for x in f[2].split(',')])


def impl_outcome(ans):
    if ans is None:
        return ('IMPL-MISSING',)
    if 'err' in ans:
        return ('REJECT',)
    return ('OK', ans['labels'], ans['steps'])


def run_py_parallel(lines, hashseed, chunks=None):
    """run the implementation runner over `lines` in several fresh subprocesses with one hash seed"""
    if not lines:
        return []
    chunks = chunks or min(C.NCPU, max(1, len(lines) // 50))
    n = (len(lines) + chunks - 1) // chunks
    parts = [lines[i:i + n] for i in range(0, len(lines), n)]

    def one(part):
        out, err = C.run_py('c15_runner.py', part, hashseed=hashseed)
        res = []
        for x in out:
            try:
                res.append(json.loads(x))
            except ValueError:
                res.append(None)
        res += [None] * (len(part) - len(res))
        return res[:len(part)]

    with ThreadPoolExecutor(max_workers=len(parts)) as ex:
        outs = list(ex.map(one, parts))
    return [x for o in outs for x in o]


# ------------------------------------------------------------------------------------------------
# generators
# ------------------------------------------------------------------------------------------------

BOUNDS = [1, 20, 21, 40, 41, 120, 121, 620, 621, 3120, 3121, 15620, 15621, 78120, 78121, 390620, 390621,
          1953120, 1953121]


def gen_number(rng):
    r = rng.random()
    if r < 0.30:
        return rng.randint(1, 20)
    if r < 0.50:
        return rng.randint(21, 120)
    if r < 0.65:
        return rng.randint(121, 620)
    if r < 0.75:
        return rng.randint(621, 3120)
    if r < 0.85:
        return max(1, rng.choice(BOUNDS) + rng.randint(-1, 1))
    if r < 0.95:
        return rng.randint(3121, 10 ** 6)
    return rng.randint(10 ** 6, 10 ** 12)


def gen_steps(rng, maxlen=14):
    steps = []
    if rng.random() < 0.03:
        steps.append(0)                     # Z before anything (decoders accept it)
    for _ in range(rng.randint(0, maxlen)):
        steps.append(gen_number(rng))
        if rng.random() < 0.25:
            steps.append(0)
            if rng.random() < 0.1:
                steps.append(0)
    return steps


def letters_of(steps):
    return ''.join('Z' if s == 0 else spec_encode(s) for s in steps)


def chunk(rng, letters):
    """cut the letter stream into words at arbitrary positions (also inside a number)"""
    if not letters:
        return []
    cuts = sorted({rng.randint(1, len(letters) - 1) for _ in range(rng.randint(0, 4))} if len(letters) > 1 else set())
    words, prev = [], 0
    for c in cuts + [len(letters)]:
        words.append(letters[prev:c])
        prev = c
    return [w for w in words if w]


LABEL_CHARS = 'abcdefghijklmnopqrstuvwxyzABCDEFGHIJKLMNOPQRSTUVWXYZ0123456789-_.'
NAMED = ['imp-is-pattern', 'proof-rule-prop-1', 'proof-rule-prop-2', 'proof-rule-mp', 'app-is-pattern',
         'bot-is-pattern', 'ph0-is-pattern', 'Z', 'A', 'UA']


def gen_label(rng, weird=False):
    r = rng.random()
    if weird and r < 0.35:
        # tokens the lexer accepts but Metamath does not: parentheses, backslash, quotes, non-ASCII blanks
        pool = LABEL_CHARS + '()\\"\'\x0b\xa0 \x1c'
        return ''.join(rng.choice(pool) for _ in range(rng.randint(1, 5)))
    if r < 0.5:
        return rng.choice(NAMED)
    return ''.join(rng.choice(LABEL_CHARS) for _ in range(rng.randint(1, 12)))


def gen_sep(rng):
    return ''.join(rng.choice(LEXWS) for _ in range(rng.choice([1, 1, 1, 2, 3])))


def layout(rng, tokens):
    pre = ''.join(rng.choice(LEXWS) for _ in range(rng.choice([1, 1, 2])))
    return pre + ''.join(t + gen_sep(rng) for t in tokens)


VAR_POOL = ['ph0', 'ph1', 'ph2', 'ph3', 'ph4', 'ph5', 'ph6', 'th0', 'th1', 'ptn0', 'ptn1', 'ptn2', 'x', 'y', 'z', 'X', 'Y',
            'xX', 'a', 'b', 'psi', 'chi', 'v10', 'v11', 'v12', 'q', 'w']
KINDS = ['#Pattern', '#Pattern', '#Pattern', '#ElementVariable', '#SetVariable']


def term_text(rng, vars_):
    """nested implication mentioning exactly the given variables (random order, repeats)"""
    if not vars_:
        return '( \\imp \\bot \\bot )'
    occ = list(vars_) + [rng.choice(vars_) for _ in range(rng.randint(0, 2))]
    rng.shuffle(occ)
    if len(occ) == 1:
        return f'( \\imp {occ[0]} \\bot )'
    t = occ[-1]
    for v in reversed(occ[:-1]):
        t = f'( \\imp {v} {t} )'
    return t


def gen_db(rng, idx):
    """a database with its $f statements in an order unrelated to $v order / name order, and several $p"""
    nv = rng.randint(1, 8)
    names = rng.sample(VAR_POOL, nv)
    order = names[:]
    rng.shuffle(order)
    floats = []
    used = set()
    for v in order:
        lbl = f'{v}-is-pattern' if rng.random() < 0.5 else gen_label(rng)
        while lbl in used or lbl in ('(', ')'):
            lbl = gen_label(rng) + str(len(used))
        used.add(lbl)
        floats.append((lbl, v, rng.choice(KINDS)))
    src = ['$c #Pattern #ElementVariable #SetVariable |- \\imp \\bot ( ) $.']
    # $v statements: one or several
    vs = names[:]
    while vs:
        k = rng.randint(1, len(vs))
        src.append('$v ' + ' '.join(vs[:k]) + ' $.')
        vs = vs[k:]
    for lbl, v, kind in floats:
        src.append(f'{lbl} $f {kind} {v} $.')
    lemmas = []
    for j in range(rng.randint(1, 5)):
        name = f'goal{idx}x{j}'
        k = rng.choice([0, 1, 1, 2, 2, 2, 3, 3, 4, 4, 5, 6])
        svars = rng.sample(names, min(k, nv))
        labels = [gen_label(rng) for _ in range(rng.choice([0, 0, 1, 2, 3, 5, 8]))]
        labels = [l for l in labels if l not in ('(', ')')]
        steps = gen_steps(rng)
        words = chunk(rng, letters_of(steps))
        body = layout(rng, ['('] + labels + [')'] + words)
        stmt = f'{name} $p |- {term_text(rng, svars)} $={body}$.'
        # a theorem without $e inside a ${ $d ... $} block: the variables that occur ONLY in the $d (dummy variables of the
        # proof) are not mandatory (Appendix B: mandatory = $f of the variables of the assertion and of its $e hypotheses).
        # converter: the first variable of a $d must be an element/set variable, the pair must be two different variables
        evs = [v for _, v, kd in floats if kd != '#Pattern']
        blocked = None
        pvs = [v for _, v, kd in floats if kd == '#Pattern']
        if evs and pvs and rng.random() < 0.5:
            dstmts = []
            for _ in range(rng.randint(1, 2)):
                # (the converter compares an element and a set variable of a $d by number only, so the second variable
                # is a #Pattern variable here; both may or may not occur in the assertion)
                dstmts.append((rng.choice(evs), rng.choice(pvs)))
            blocked = [v for pr in dstmts for v in pr if v not in svars]
            stmt = '${ ' + ' '.join(f'$d {a} {b} $.' for a, b in dstmts) + '\n  ' + stmt + ' $}'
        src.append(stmt)
        lemmas.append(dict(name=name, vars=sorted(svars), labels=labels, steps=steps, words=words, body=body,
                           dv_only=sorted(set(blocked)) if blocked is not None else None))
    return dict(src='\n'.join(src) + '\n', floats=[(l, v) for l, v, _ in floats], lemmas=lemmas)


def gen_raw(rng, malformed):
    """character-level input of _import_proof: (floats, vars, proof string)"""
    nv = rng.randint(0, 5)
    names = rng.sample(VAR_POOL, nv)
    floats = [(f'{v}-is-pattern' if rng.random() < 0.5 else gen_label(rng), v) for v in names]
    svars = rng.sample(names, rng.randint(0, nv))
    labels = [gen_label(rng, weird=malformed) for _ in range(rng.choice([0, 1, 2, 3, 6]))]
    steps = gen_steps(rng, 10)
    letters = letters_of(steps)
    words = chunk(rng, letters)
    toks = ['('] + labels + [')'] + words
    if not malformed:
        proof = ' '.join(toks)
        return dict(floats=floats, vars=svars, proof=proof, valid=True, tokens=toks)
    kind = rng.choice(['dblspace', 'noclose', 'noopen', 'badletter', 'zinside', 'trailing', 'empty', 'glue',
                       'unispace', 'onlyopen', 'lower', 'weirdlabel'])
    if kind == 'dblspace':
        proof = ''.join(t + rng.choice([' ', '  ', '\t', ' \n']) for t in toks)
    elif kind == 'noclose':
        proof = ' '.join(t for t in toks if t != ')')
    elif kind == 'noopen':
        proof = ' '.join(toks[1:])
    elif kind == 'badletter':
        w = list(letters or 'A')
        w[rng.randrange(len(w))] = rng.choice('abz?0(').strip() or '?'
        proof = ' '.join(['('] + labels + [')', ''.join(w)])
    elif kind == 'zinside':
        proof = ' '.join(['('] + labels + [')', letters + rng.choice(MS) + 'Z' + rng.choice(LS)])
    elif kind == 'trailing':
        proof = ' '.join(['('] + labels + [')', letters + ''.join(rng.choice(MS) for _ in range(rng.randint(1, 3)))])
    elif kind == 'empty':
        proof = rng.choice(['', ' ', '(', '( ', '()', ')', '( )', '( ) ', 'A'])
    elif kind == 'glue':
        proof = '(' + ' '.join(labels) + ')' + letters
    elif kind == 'unispace':
        proof = rng.choice(['\xa0', '\x0b', ' ', '\x1c']).join(toks)
    elif kind == 'onlyopen':
        proof = rng.choice([' ', 'x ', '']) + '(' + rng.choice(['', ' ', '  '])
    elif kind == 'lower':
        proof = ' '.join(['('] + labels + [')', letters.lower()])
    else:
        proof = ' '.join(toks)
    return dict(floats=floats, vars=svars, proof=proof, valid=False, tokens=None, mkind=kind)


# ------------------------------------------------------------------------------------------------
# valid compressed proofs with NON-optimal marking (equal expressions marked twice, Z after back-references)
# ------------------------------------------------------------------------------------------------

ARITY = {'imp-is-pattern': 2, 'proof-rule-prop-1': 2, 'proof-rule-prop-2': 3, 'proof-rule-mp': 4}
# uncompressed proof of |- ( \imp ph0 ph0 ) as shipped in mm-benchmarks/impreflex.mm (A = ph0's hypothesis,
# B imp-is-pattern, C proof-rule-prop-1, D proof-rule-mp, E proof-rule-prop-2)
IMPREFL = 'AAABBAABAAABABBAAABBAABBAAABAEAAABCDAACD'
IMPREFL_LBL = {'B': 'imp-is-pattern', 'C': 'proof-rule-prop-1', 'D': 'proof-rule-mp', 'E': 'proof-rule-prop-2'}


def rpn_tree(letters, leaf):
    st = []
    for ch in letters:
        if ch == 'A':
            st.append(leaf)
        else:
            lbl = IMPREFL_LBL[ch]
            n = ARITY[lbl]
            args = st[-n:]
            del st[-n:]
            st.append((lbl, tuple(args)))
    assert len(st) == 1
    return st[0]


def rand_wff(rng, vars_, depth):
    if depth <= 0 or rng.random() < 0.35:
        return (rng.choice(vars_), ())
    return ('imp-is-pattern', (rand_wff(rng, vars_, depth - 1), rand_wff(rng, vars_, depth - 1)))


def wff_text(t):
    return t[0] if not t[1] else f'( \\imp {wff_text(t[1][0])} {wff_text(t[1][1])} )'


def tree_vars(t, acc):
    if not t[1] and t[0] not in ARITY:
        acc.add(t[0])
    for c in t[1]:
        tree_vars(c, acc)
    return acc


def gen_marked_proof(rng, idx):
    """database + goal + a legal compressed proof whose Z placement is random (not size-optimal)"""
    extra = rng.sample(['th0', 'psi', 'chi', 'x0', 'q', 'ptn0', 'w1'], rng.randint(0, 3))
    order = ['ph0', 'ph1', 'ph2']            # schema variables: their $f statements keep this relative order
    for v in extra:
        order.insert(rng.randint(0, len(order)), v)
    decl = order[:]
    rng.shuffle(decl)
    fl = {v: (f'{v}-is-pattern' if rng.random() < 0.6 else f'{v}-pattern') for v in order}
    gvars = rng.sample(order, rng.randint(1, min(3, len(order))))
    kind = rng.choice(['prop1', 'prop2', 'refl', 'refl'])
    if kind == 'prop1':
        P, Q = rand_wff(rng, gvars, 3), rand_wff(rng, gvars, 2)
        tree = ('proof-rule-prop-1', (P, Q))
        goal = f'( \\imp {wff_text(P)} ( \\imp {wff_text(Q)} {wff_text(P)} ) )'
    elif kind == 'prop2':
        P, Q, Rr = rand_wff(rng, gvars, 2), rand_wff(rng, gvars, 2), rand_wff(rng, gvars, 2)
        tree = ('proof-rule-prop-2', (P, Q, Rr))
        a, b, c = wff_text(P), wff_text(Q), wff_text(Rr)
        goal = f'( \\imp ( \\imp {a} ( \\imp {b} {c} ) ) ( \\imp ( \\imp {a} {b} ) ( \\imp {a} {c} ) ) )'
    else:
        P = rand_wff(rng, gvars, 2)
        tree = rpn_tree(IMPREFL, P)
        goal = f'( \\imp {wff_text(P)} {wff_text(P)} )'
    used = tree_vars(tree, set())
    mand = [v for v in order if v in used]
    labs = sorted({n[0] for n in _nodes(tree) if n[0] in ARITY})
    rng.shuffle(labs)
    if rng.random() < 0.3:
        labs.insert(rng.randint(0, len(labs)), 'proof-rule-prop-2' if 'proof-rule-prop-2' not in labs else 'proof-rule-prop-1')
        labs = list(dict.fromkeys(labs))
    m, k = len(mand), len(labs)
    num = {v: i + 1 for i, v in enumerate(mand)}
    num.update({l: m + i + 1 for i, l in enumerate(labs)})
    p_ref, p_mark, p_zafter = rng.choice([(0.8, 0.6, 0.5), (0.5, 0.3, 0.3), (0.9, 0.8, 0.7), (1.0, 0.25, 0.0)])
    out, marks, feats = [], {}, set()
    nmarks = [0]

    def mark(key):
        if key in marks:
            feats.add('equal-expression-marked-again')
        marks.setdefault(key, []).append(nmarks[0])
        nmarks[0] += 1
        out.append(0)

    def emit(node):
        key = repr(node)
        if key in marks and rng.random() < p_ref:
            j = rng.choice(marks[key])
            if j != marks[key][0] or any(j > x[0] for kk, x in marks.items() if kk != key and len(x) > 1):
                feats.add('reference-past-a-duplicate-mark')
            out.append(m + k + j + 1)
            if rng.random() < p_zafter:
                feats.add('z-after-back-reference')
                mark(key)
            return
        for c in node[1]:
            emit(c)
        out.append(num[node[0]])
        if rng.random() < (p_mark if node[1] else p_mark / 2):
            mark(key)

    emit(tree)
    src = ['$c #Pattern |- \\imp ( ) $.', '$v ' + ' '.join(decl) + ' $.']
    src += [f'{fl[v]} $f #Pattern {v} $.' for v in order]
    src += ['imp-is-pattern $a #Pattern ( \\imp ph0 ph1 ) $.',
            'proof-rule-prop-1 $a |- ( \\imp ph0 ( \\imp ph1 ph0 ) ) $.',
            'proof-rule-prop-2 $a |- ( \\imp ( \\imp ph0 ( \\imp ph1 ph2 ) ) ( \\imp ( \\imp ph0 ph1 ) ( \\imp ph0 ph2 ) ) ) $.',
            '${ proof-rule-mp.0 $e |- ( \\imp ph0 ph1 ) $.  proof-rule-mp.1 $e |- ph0 $.  proof-rule-mp $a |- ph1 $. $}']
    words = chunk(rng, letters_of(out))
    name = f'marked{idx}'
    src.append(f'{name} $p |- {goal} $= ( {" ".join(labs)} ) {" ".join(words)} $.')
    return dict(src='\n'.join(src) + '\n', target=name, m=m, k=k, steps=out, feats=sorted(feats), kind=kind,
                labels=[fl[v] for v in mand] + labs)


def _nodes(t):
    yield t
    for c in t[1]:
        yield from _nodes(c)


def marks_oracle(steps, mk, tops, err):
    """Appendix B on the observed replay, independent of the model: a Z saves the term the preceding step left on
    top (and leaves the stack alone); number mk + j + 1 denotes the term saved by the (j+1)-th Z, duplicates counted.
    Returns None or (step index, explanation)."""
    saved = []
    for i, n in enumerate(steps):
        done = i < len(tops)
        if n == 0:
            if i == 0:
                return None                       # Z before any step: not a valid proof, no judgement
            if not done:
                return (i, f'raises at Z: {err}')
            if tops[i] != tops[i - 1]:
                return (i, 'Z changed the top of the stack')
            saved.append(tops[i - 1])
        elif n > mk:
            j = n - mk - 1
            if j >= len(saved):
                return None                       # reference to a step not yet marked: invalid proof
            if not done:
                return (i, f'raises at the reference to marked step {j + 1} (number {n}) although {len(saved)} steps are marked: {err}')
            if tops[i] != saved[j]:
                return (i, f'number {n} = marked step {j + 1} loads term #{tops[i]}, but the {j + 1}-th Z marked term #{saved[j]}')
        elif not done:
            return None                           # a hypothesis/label step failed: outside this oracle (C16)
    return None


# ------------------------------------------------------------------------------------------------
# the check
# ------------------------------------------------------------------------------------------------

def model_exe():
    return C.build_mlref('mm15', 'Extract/ExtractMM15.v', 'mm15_model', 'mm15_driver.ml', 'mlref_mm15',
                         ['MM15/Codec.vo', 'MM15/Replay.vo'])


def setup():
    model_exe()


def classify_failure(case_kind, floats, svars, tokens, impl):
    """given an implementation outcome that disagrees with Appendix B (oracle), name what is wrong"""
    spec = spec_decode(floats, set(svars), tokens)
    if spec is None:
        return None
    tbl, steps = spec
    if impl[0] != 'OK':
        return 'import_proof:rejects-valid-compressed-proof'
    m = len([1 for (_, v) in floats if v in set(svars)])
    if len(impl[1]) > len(tbl) and impl[1][len(impl[1]) - (len(tbl) - m):] == tbl[m:] and set(tbl[:m]) < set(impl[1][:len(impl[1]) - (len(tbl) - m)]):
        return 'split_proof:non-mandatory-variable-numbered-as-mandatory-hypothesis'
    if impl[1][:m] != tbl[:m]:
        return 'split_proof:mandatory-hypotheses-not-in-database-order'
    if impl[1] != tbl:
        return 'split_proof:label-list'
    if [s == 0 for s in impl[2]] != [s == 0 for s in steps]:
        return 'import_proof:z-marks-wrong-step'
    if impl[2] != steps:
        return 'convert_to_number:wrong-value'
    return None


def run(tier, seed):
    R = C.Report(CID, tier, seed)
    quick = tier == 'quick'
    # regenerate coq/Gen/MMDecode.v from the CURRENT converter.py / translate.py (fail closed)
    tr_err = None
    try:
        import sys
        sys.path.insert(0, os.path.join(C.VERIF, 'translators'))
        import mmdecode
        C.write_if_changed(os.path.join(C.COQ, 'Gen', 'MMDecode.v'), mmdecode.generate(C.REPO))
    except SystemExit as e:
        tr_err = str(e)
    except Exception as e:  # noqa: BLE001
        tr_err = f'mmdecode: {e!r}'
    P = R.proof_stage()
    if tr_err:
        P['ok'] = False
        P['log'] = 'translator failed closed: ' + tr_err
        P['discharged'] = 0
    proof_broken = not P['ok']
    if proof_broken:
        R.notes.append('proof stage failed: ' + P['log'][-1500:])

    ok, log, exe = model_exe()
    mismatches = []      # (kind, input, model, impl)
    oracle_fail = []     # (signature, description, replay)
    if not ok:
        R.notes.append('model build failed: ' + log[-1500:])
        mismatches.append(('model-build', log[-500:], None, None))

    seeds = [0, 1, 2, 3, 4, 5] if quick else [0, 1, 2, 3, 4, 5, 6, 7, 11, 42, 1234, 99999]

    def note_oracle(sig, desc, replay):
        oracle_fail.append((sig, desc, replay))

    if ok:
        # ---- (a) whitespace classes -----------------------------------------------------------
        probe = [c for c in range(0, 0x3100) if c != 36] + [0xfeff, 0x1d7ff, 0x10ffff]
        ans = run_py_parallel([json.dumps({'k': 'isspace', 'probe': probe})], 0, 1)[0] or {}
        mw = C.run_lines(exe, ['W 0 1114111'])[0]
        ms, ml = set(), set()
        for item in mw[2:].split(','):
            if item:
                c = int(item.rstrip('sl'))
                if 's' in item:
                    ms.add(c)
                if 'l' in item:
                    ml.add(c)
        R.case('isspace-table', True, 'whitespace-table')
        if set(ans.get('isspace', [])) != ms:
            mismatches.append(('isspace', sorted(set(ans.get('isspace', [])) ^ ms)[:10], None, None))
        if set(ans.get('lex', [])) != ml:
            mismatches.append(('lexer-whitespace', sorted(set(ans.get('lex', [])) ^ ml)[:10], None, None))

        # ---- (b) numbers ---------------------------------------------------------------------
        top = 20000 if quick else 1000000
        rngn = C.rng_for(seed, CID + ':num')
        extra = sorted({max(1, b + d) for b in BOUNDS for d in (-2, -1, 0, 1, 2)}
                       | {20 * sum(5 ** i for i in range(1, k + 1)) + d for k in range(1, 25) for d in (0, 1)}
                       | {rngn.randint(top, 10 ** 9) for _ in range(2000)}
                       | {rngn.randint(10 ** 9, 10 ** 18) for _ in range(2000)})
        B = 500
        reqs = [f'R {lo} {min(lo + B - 1, top)}' for lo in range(1, top + 1, B)]
        nums = [list(range(lo, min(lo + B - 1, top) + 1)) for lo in range(1, top + 1, B)]
        for i in range(0, len(extra), B):
            part = extra[i:i + B]
            nums.append(part)
            reqs.append(None)
        # model: ranges by R, the scattered ones by E/D
        mlines = []
        for rq, ns in zip(reqs, nums):
            if rq is not None:
                mlines.append(rq)
            else:
                mlines.extend(f'E {n}' for n in ns)
        mout = C.run_lines_parallel(exe, mlines)
        words_all, k = [], 0
        bad_model = False
        for rq, ns in zip(reqs, nums):
            if rq is not None:
                pairs = mout[k].split(' ')
                k += 1
                ws = []
                for n, pr in zip(ns, pairs):
                    w, _, d = pr.partition('=')
                    ws.append(w)
                    if d != str(n):
                        bad_model = True
                        mismatches.append(('model-roundtrip', n, pr, None))
                words_all.append(ws)
            else:
                ws = [dec_s(mout[k + i]) for i in range(len(ns))]
                k += len(ns)
                words_all.append(ws)
        ireq = [json.dumps({'k': 'num', 'words': ws}) for ws in words_all]
        iout = run_py_parallel(ireq, 0)
        nnum = 0
        for ns, ws, a in zip(nums, words_all, iout):
            o = impl_outcome(a)
            got = o[2] if o[0] == 'OK' else None
            for j, (n, w) in enumerate(zip(ns, ws)):
                nnum += 1
                R.case(('num', n), True, 'number<=20' if n <= 20 else 'number<=120' if n <= 120 else
                       'number<=620' if n <= 620 else 'number<=3120' if n <= 3120 else 'number>3120')
                g = got[j] if got is not None and j < len(got) else None
                if g != n:
                    mismatches.append(('number', n, w, g))
                if w != spec_encode(n):
                    mismatches.append(('model-encode-vs-appendix-B', n, w, spec_encode(n)))
                if g != n and len(oracle_fail) < 5:
                    note_oracle('convert_to_number:wrong-value',
                                f'word {w!r} (Appendix B encoding of {n}) decodes to {g}',
                                {'kind': 'raw', 'floats': [], 'vars': [], 'proof': '( ) ' + w, 'expected_steps': [n], 'got': g})
        R.sample({'numbers': f'1..{top} exhaustive + {len(extra)} boundary/large values', 'e.g.': words_all[0][:3] + words_all[-1][-2:]})
        # a slice of the numbers again under the other hash seeds (the dictionaries are seed independent)
        for hs in seeds[1:]:
            sub = ireq[:4] + ireq[-4:]
            o2 = run_py_parallel(sub, hs, 1)
            if o2 != iout[:4] + iout[-4:]:
                mismatches.append(('number-under-seed', hs, None, None))

        # ---- (c) character-level proof strings -----------------------------------------------
        rngr = C.rng_for(seed, CID + ':raw')
        raws = []
        for fn in sorted(os.listdir(CORPUS)) if os.path.isdir(CORPUS) else []:
            d = json.load(open(os.path.join(CORPUS, fn)))
            if d.get('kind') == 'raw':
                raws.append(dict(floats=[tuple(x) for x in d['floats']], vars=d['vars'], proof=d['proof'],
                                 valid=d.get('valid', False), tokens=d.get('tokens'), corpus=fn))
        nraw = 1500 if quick else 40000
        for i in range(nraw):
            raws.append(gen_raw(rngr, malformed=(i % 3 == 2)))
        mreq = [f"J 1 {enc_l([l for l, _ in c['floats']])} {enc_l([v for _, v in c['floats']])} {enc_l(c['vars'])} {enc_s(c['proof'])}"
                for c in raws]
        mo = [model_outcome(x) for x in C.run_lines_parallel(exe, mreq)]
        ireq = [json.dumps({'k': 'raw', 'floats': c['floats'], 'vars': c['vars'], 'proof': c['proof']}) for c in raws]
        per_seed = {hs: [impl_outcome(a) for a in run_py_parallel(ireq, hs)] for hs in (seeds[:3] if quick else seeds[:6])}
        for i, c in enumerate(raws):
            m = mo[i]
            kind = 'raw-valid' if c['valid'] else 'raw-malformed:' + c.get('mkind', 'corpus')
            R.case(('raw', c['floats'], c['vars'], c['proof']), True, kind + (':accepted' if m[0] == 'OK' else ':rejected'))
            for hs, outs in per_seed.items():
                if outs[i] != m:
                    mismatches.append(('raw', dict(floats=c['floats'], vars=c['vars'], proof=c['proof'], hashseed=hs), m, outs[i]))
                    if c['valid']:
                        sig = classify_failure('raw', c['floats'], c['vars'], c['tokens'], outs[i])
                        if sig:
                            note_oracle(sig, f'_import_proof({c["proof"]!r}) under PYTHONHASHSEED={hs} gives {outs[i]}',
                                        {'kind': 'raw', 'floats': c['floats'], 'vars': c['vars'], 'proof': c['proof'],
                                         'hashseed': hs, 'expected': spec_decode(c['floats'], set(c['vars']), c['tokens']),
                                         'got': outs[i]})
                    break
            if c['valid'] and i < 400:
                # oracle on the implementation, independent of the model
                sig = classify_failure('raw', c['floats'], c['vars'], c['tokens'], per_seed[seeds[0]][i])
                if sig:
                    note_oracle(sig, f'_import_proof({c["proof"]!r}) gives {per_seed[seeds[0]][i]}',
                                {'kind': 'raw', 'floats': c['floats'], 'vars': c['vars'], 'proof': c['proof'],
                                 'expected': spec_decode(c['floats'], set(c['vars']), c['tokens']), 'got': per_seed[seeds[0]][i]})
        R.sample({'raw': raws[-1]['proof'][:80], 'model': str(mo[-1])[:120]})
        # the Coq transcription of Appendix B's stream decoder (Codec.appendixB_stream, about which
        # C15_appendixB_stream_agrees is proved) against the harness oracle, on letter streams incl. malformed ones
        streams = []
        for c in raws:
            if c['proof'].count(')') == 1 and all(ord(ch) < 128 for ch in c['proof']):
                streams.append(''.join(c['proof'].split(')')[1].split()))
        streams = sorted(set(streams))
        so = C.run_lines_parallel(exe, [f'A {enc_s(x)}' for x in streams])
        for x, o in zip(streams, so):
            sp = spec_decode([], set(), ['(', ')', x]) if x else ([], [])
            want = 'N' if sp is None else 'S ' + (','.join(map(str, sp[1])) or '_')
            R.case(('appendixB-stream', x), True, 'spec-stream:' + ('accepted' if sp is not None else 'rejected'))
            if o != want:
                mismatches.append(('coq-spec-vs-harness-oracle', x, o, want))

        # ---- (d) whole databases: lexer + parser + converter, several hash seeds ----------------
        rngd = C.rng_for(seed, CID + ':db')
        dbs = []
        for fn in sorted(os.listdir(CORPUS)) if os.path.isdir(CORPUS) else []:
            d = json.load(open(os.path.join(CORPUS, fn)))
            if d.get('kind') == 'db':
                d['floats'] = [tuple(x) for x in d['floats']]
                d['corpus'] = fn
                dbs.append(d)
        ndb = 250 if quick else 4000
        for i in range(ndb):
            dbs.append(gen_db(rngd, i))
        mreq, idx = [], []
        for di, d in enumerate(dbs):
            fl = enc_l([l for l, _ in d['floats']])
            fv = enc_l([v for _, v in d['floats']])
            for li, lm in enumerate(d['lemmas']):
                mreq.append(f"I 1 {fl} {fv} {enc_l(lm['vars'])} {enc_s(lm['body'])}")
                mreq.append(f"T {enc_s(lm['body'])}")
                idx.append((di, li))
        mo = C.run_lines_parallel(exe, mreq)
        ireq = [json.dumps({'k': 'db', 'src': d['src'], 'lemmas': [lm['name'] for lm in d['lemmas']]}) for d in dbs]
        per_seed = {hs: run_py_parallel(ireq, hs) for hs in seeds}
        hist_vars = {}
        for n, (di, li) in enumerate(idx):
            d, lm = dbs[di], dbs[di]['lemmas'][li]
            m = model_outcome(mo[2 * n])
            mfield = dec_s(mo[2 * n + 1])
            nm = len([1 for (_, v) in d['floats'] if v in set(lm['vars'])])
            dv = lm.get('dv_only')
            R.case(('db', d['src'], lm['name']), True, f'db-lemma:mandatory={nm}' +
                   ('' if dv is None else ':in-$d-block' if not dv else ':in-$d-block-with-dummy-variables'))
            toks = ['('] + lm['labels'] + [')'] + lm['words']
            spec = spec_decode(d['floats'], set(lm['vars']), toks)
            for hs in seeds:
                a = per_seed[hs][di]
                if a is None or 'err' in a:
                    o, field = ('REJECT', a), None
                else:
                    x = a['lemmas'][lm['name']]
                    o = ('OK', x['labels'], x['steps']) if x['keys_ok'] else ('BADKEYS',)
                    field = x['field']
                bad = o != m or field != mfield
                if bad:
                    mismatches.append(('db', dict(src=d['src'], lemma=lm['name'], hashseed=hs), (m, mfield), (o, field)))
                # oracle (always; independent of the model)
                if spec is not None and (o[0] != 'OK' or (o[1], o[2]) != spec):
                    sig = classify_failure('db', d['floats'], lm['vars'], toks, o if o[0] == 'OK' else ('REJECT',)) \
                        or 'import_proof:differs-from-appendix-B'
                    note_oracle(sig, f'lemma {lm["name"]} under PYTHONHASHSEED={hs}: decoded {o[1:] if o[0] == "OK" else o}, '
                                     f'Appendix B gives {spec}',
                                {'kind': 'db', 'src': d['src'], 'floats': d['floats'],
                                 'lemmas': [lm], 'hashseed': hs, 'expected': spec, 'got': o})
                if bad:
                    break
        R.sample({'db': dbs[-1]['src'][-300:], 'floats': dbs[-1]['floats']})

        # ---- (e) marked steps during replay: real translate.exec_proof vs MM15/Replay.v -------------------
        rngm = C.rng_for(seed, CID + ':marks')
        mps = []
        for fn in sorted(os.listdir(CORPUS)) if os.path.isdir(CORPUS) else []:
            d = json.load(open(os.path.join(CORPUS, fn)))
            if d.get('kind') == 'replay':
                d['corpus'] = fn
                mps.append(d)
        for i in range(160 if quick else 3000):
            mps.append(gen_marked_proof(rngm, i))
        ireq = [json.dumps({'k': 'replay', 'src': c['src'], 'target': c['target']}) for c in mps]
        rseeds = seeds[:2]
        rout = {hs: run_py_parallel(ireq, hs) for hs in rseeds}
        mreq = []
        for c, a in zip(mps, rout[rseeds[0]]):
            a = a or {}
            steps, tops = a.get('steps', c['steps']), a.get('tops', [])
            mreq.append(f"Y 0 {c['m']} {c['k']} " + (','.join(f'{n}:{tops[i] if i < len(tops) and tops[i] >= 0 else 0}'
                                                                   for i, n in enumerate(steps)) or '_'))
        mo = C.run_lines_parallel(exe, mreq)
        for c, o in zip(mps, mo):
            feats = ','.join(c.get('feats', [])) or 'plain-marking'
            R.case(('replay', c['src']), True, f"replay:{c.get('kind', 'corpus')}:{feats}")
        for ci, (c, o) in enumerate(zip(mps, mo)):
            for hs in rseeds:
                a = rout[hs][ci]
                rp = {'kind': 'replay', 'src': c['src'], 'target': c['target'], 'm': c['m'], 'k': c['k'], 'steps': c['steps'],
                      'hashseed': hs, 'features': c.get('feats')}
                if a is None or 'steps' not in a:
                    mismatches.append(('replay-runner', rp, None, a))
                    continue
                if a['steps'] != c['steps'] or a['labels'] != c['labels']:
                    mismatches.append(('replay-decoding', rp, (c['labels'], c['steps']), (a['labels'], a['steps'])))
                    continue
                tops, err = a['tops'], a['err']
                # oracle on the implementation (always)
                bad = marks_oracle(a['steps'], c['m'] + c['k'], tops, err)
                if bad:
                    note_oracle('exec_proof:marked-step-number-resolves-to-wrong-step',
                                f'{c["target"]}: step {bad[0]} of {a["steps"]}: {bad[1]}',
                                dict(rp, step=bad[0], why=bad[1], tops=tops, err=err, terms=a.get('terms')))
                # model vs implementation (first hash seed carries the label-step terms the model was given)
                if hs == rseeds[0]:
                    if o == 'N' or not o.startswith('OK'):
                        if err is None:
                            mismatches.append(('replay', rp, o, 'implementation replays the proof'))
                    else:
                        evs = [] if o == 'OK _' else o[3:].split(',')
                        pred = [int(e[1:].split(':')[-1]) for e in evs]
                        if err is not None or pred[:len(tops)] != [t if t >= 0 else 0 for t in tops] or len(tops) != len(a['steps']):
                            mismatches.append(('replay', rp, o[:300], dict(tops=tops, err=err)))
                elif (tops, err is None) != (rout[rseeds[0]][ci].get('tops'), rout[rseeds[0]][ci].get('err') is None):
                    mismatches.append(('replay-under-seed', rp, None, None))
        R.sample({'marked_proof': mps[-1]['src'].strip().split('\n')[-1][:200], 'steps': mps[-1]['steps'][:40], 'features': mps[-1].get('feats')})

    # ---- verdict ------------------------------------------------------------------------------
    for sig, desc, replay in oracle_fail[:8]:
        R.violation(sig, desc, replay)
    if proof_broken and not R.violations:
        R.violation('proof-broken', 'Coq proof stage failed',
                    {'no_failing_input_found': True, 'theorem_or_correspondence': f'Props/{CID}.v', 'log': P['log'][-3000:]})
    if mismatches and not R.violations:
        R.violation('correspondence-broken', 'model and implementation disagree (no Appendix-B violation exhibited)',
                    {'no_failing_input_found': True, 'theorem_or_correspondence': 'correspondence mlref_mm15 vs converter._import_proof',
                     'first_mismatches': [repr(x)[:1500] for x in mismatches[:5]]})
    if mismatches:
        R.notes.append(f'{len(mismatches)} mismatches; first: {repr(mismatches[0])[:800]}')
    R.coverage['rule'] = ('a case is one (number) / (floats, vars, proof string) / (database text, lemma); all are distinct by '
                          'construction and non-trivial (each runs _import_proof to an outcome); histogram gives the size class of '
                          'numbers, the malformation kind and acceptance of raw strings, and the number of mandatory hypotheses')
    R.coverage['hash_seeds'] = seeds
    return R.finish(level='proof', trusted_base=C.TRUSTED_COMMON + [
        'translators/mmdecode.py (Python-ast -> Gallina, statement by statement, fail closed) with its fixed vocabulary coq/MM15/GenPrelude.v: '
        'lsdigit/msdigit, convert_to_number, parse_lemmas, split_proof, the tail of _import_proof and the head of the replay loop of exec_proof are '
        'TRANSLATED from the current source on every run (coq/Gen/MMDecode.v) and proved equal to the model (MM15/GenMMDecodeAgree.v); str.isspace is '
        'the is_space of the model (differential), the set statement.get_metavariables() and the database statements are inputs, the label steps of '
        'exec_proof are abstracted to the term they leave on top',
        'lark LALR parser/lexer is not modelled: the token-level model (MM15/Codec.v tokenize/proof_field) is validated against it by correspondence only; comments inside proofs are not generated',
        'MM15 model is hand-written; statement.get_metavariables() is taken as the set of variables of the statement (its iteration order is a parameter of the model)',
        'classify (what a number refers to) is the Appendix B reading, also used by translate.exec_proof; its use there is C16 territory',
    ])


def replay(path):
    d = json.load(open(path))
    rp = d.get('replay', d)
    print(json.dumps(rp, indent=1)[:3000])
    ok, log, exe = model_exe()
    hs = rp.get('hashseed', 0)
    if rp.get('kind') == 'raw':
        fl = [tuple(x) for x in rp['floats']]
        m = C.run_lines(exe, [f"J 1 {enc_l([l for l, _ in fl])} {enc_l([v for _, v in fl])} {enc_l(rp['vars'])} {enc_s(rp['proof'])}"])
        a = run_py_parallel([json.dumps({'k': 'raw', 'floats': fl, 'vars': rp['vars'], 'proof': rp['proof']})], hs, 1)
        print('model         :', model_outcome(m[0]))
        print('implementation:', impl_outcome(a[0]), a[0])
        return 0 if model_outcome(m[0]) == impl_outcome(a[0]) else 1
    if rp.get('kind') == 'replay':
        a = run_py_parallel([json.dumps({'k': 'replay', 'src': rp['src'], 'target': rp['target']})], hs, 1)[0] or {}
        print(rp['src'])
        print('implementation (translate.exec_proof):', json.dumps(a)[:1500])
        steps, tops = a.get('steps', rp['steps']), a.get('tops', [])
        m = C.run_lines(exe, [f"Y 0 {rp['m']} {rp['k']} " + (','.join(f'{n}:{tops[i] if i < len(tops) and tops[i] >= 0 else 0}'
                                                                        for i, n in enumerate(steps)) or '_')])
        print('model (MM15/Replay.v, every Z appends):', m[0][:600])
        bad = marks_oracle(steps, rp['m'] + rp['k'], tops, a.get('err'))
        print('Appendix B oracle:', 'ok' if not bad else f'step {bad[0]}: {bad[1]}')
        return 1 if bad or a.get('err') else 0
    if rp.get('kind') == 'db':
        rc = 0
        impl = {}
        for s in sorted({hs, 0, 1, 2, 3}):
            a = run_py_parallel([json.dumps({'k': 'db', 'src': rp['src'], 'lemmas': [lm['name'] for lm in rp['lemmas']]})], s, 1)
            impl[s] = a[0]
            print(f'implementation PYTHONHASHSEED={s}:', json.dumps(a[0])[:600])
        for lm in rp['lemmas']:
            fl = [tuple(x) for x in rp['floats']]
            m = C.run_lines(exe, [f"I 1 {enc_l([l for l, _ in fl])} {enc_l([v for _, v in fl])} {enc_l(lm['vars'])} {enc_s(lm['body'])}"])
            mo = model_outcome(m[0])
            print('model (database order):', mo)
            print('Appendix B            :', spec_decode(fl, set(lm['vars']), ['('] + lm['labels'] + [')'] + lm['words']))
            for s, a in impl.items():
                x = (a or {}).get('lemmas', {}).get(lm['name'])
                o = ('OK', x['labels'], x['steps']) if x else ('REJECT',)
                if o != mo:
                    print(f'DISAGREEMENT under PYTHONHASHSEED={s}: {o}')
                    rc = 1
        return rc
    return 0

"""C19 - Pretty-printed notation shows the arguments it depends on.

proof : coq/Props/C19.v over coq/Gen/Notations.v (regenerated here from the current tree by reflection):
        shipped_cover, the four parametric families for all parameters (+ tie to reflected samples),
        format_distinguishes / hole_distinguishes
tie   : extracted Pattern.pretty model vs the implementation's pretty() with the REAL shipped Notation objects
oracle: (a) on the implementation: nt(args) and nt(args') with one argument the definition depends on rendered
        differently must print differently; static holes-vs-metavariables scan of every reflected format string
        (b) .pretty-{gamma,claim,proof} vs .ml-{gamma,claim,proof} of shipped and generated modules, both optimize
        settings: one pretty step per binary instruction, same order, same operands (byte decoder in this file)
"""
import json
import os
import re
import subprocess

import common as C
import notations as NT
import pycodec as PC
import pygen as G
import pyside as PS

CID = 'C19'
LISTS = ['eFresh', 'sFresh', 'pos', 'neg', 'appctx']


# ------------------------------------------------------------------------------------------------
# pretty file / binary file readers
# ------------------------------------------------------------------------------------------------

class FormatError(Exception):
    pass


def _mv_list(txt, lists):
    m = re.match(r'(eFresh|sFresh|pos|neg|appctx), len=(\d+) (.*)$', txt)
    if not m:
        raise FormatError(f'bad metavar list line {txt!r}')
    items = m.group(3).split()
    if len(items) != int(m.group(2)) or not all(re.fullmatch(r'[xX]\d+', it) for it in items):
        raise FormatError(f'bad metavar list line {txt!r}')
    lists[m.group(1)] = tuple(int(it[1:]) for it in items)


def pretty_steps(text, raw=False):
    """steps of a pretty file; with raw=True also the header text of each step (what the interpreter wrote
    before the newline that ends the step) and the step as a call of the model (token list for EMIT)"""
    lines = text.split('\n')
    steps, raws, calls = [], [], []
    i = 0

    def cps(sx):
        return [str(len(sx))] + [str(ord(c)) for c in sx]
    while i < len(lines):
        line = lines[i]
        i += 1
        if line == '' or line.startswith('\t'):
            continue
        if line.startswith('MetaVar '):
            m = re.match(r'MetaVar (\d+)(.*)$', line)
            if not m:
                raise FormatError(f'bad line {line!r}')
            lists = {}
            hdr = [line]
            if m.group(2):
                _mv_list(m.group(2), lists)
                while i < len(lines) and re.match(r'(eFresh|sFresh|pos|neg|appctx), len=', lines[i]):
                    _mv_list(lines[i], lists)
                    hdr.append(lines[i])
                    i += 1
            ls = tuple(lists.get(k, ()) for k in LISTS)
            steps.append(('MetaVar', int(m.group(1)), ls))
            raws.append('\n'.join(hdr) + ('\n' if m.group(2) else ''))
            calls.append(['MV', m.group(1)] + [t for l in ls for t in [str(len(l))] + [str(x) for x in l]])
            continue
        raws.append(line)
        head, _, arg = line.partition(' ')
        if head in ('EVar', 'SVar', 'Exists', 'Mu', 'Generalization'):
            steps.append((head, int(arg)))
            calls.append([{'EVar': 'EV', 'SVar': 'SV', 'Exists': 'EX', 'Mu': 'MU', 'Generalization': 'GE'}[head], arg])
        elif head == 'Symbol':
            steps.append(('Symbol', arg))
            calls.append(['SY'] + cps(arg))
        elif head in ('ESubst', 'SSubst'):
            m = re.fullmatch(r'id=(\d+)', arg)
            if not m:
                raise FormatError(f'bad line {line!r}')
            steps.append((head, int(m.group(1))))
            calls.append([head[:2].upper(), m.group(1)])
        elif head == 'Instantiate':
            keys = tuple(int(x) for x in arg.split(', ')) if arg else ()
            steps.append(('Instantiate', keys))
            calls.append(['IN', str(len(keys))] + [str(k) for k in keys])
        elif head == 'Load':
            name, idx = arg.rsplit('=', 1)
            steps.append(('Load', int(idx)))
            calls.append(['LO'] + cps(name) + [idx])
        elif head in ('Implies', 'App', 'Prop1', 'Prop2', 'Prop3', 'ModusPonens', 'Quantifier', 'Pop', 'Save', 'Publish') and not arg:
            steps.append((head,))
            calls.append([{'Implies': 'IM', 'App': 'AP', 'Prop1': 'P1', 'Prop2': 'P2', 'Prop3': 'P3', 'ModusPonens': 'MP',
                           'Quantifier': 'QU', 'Pop': 'PO', 'Save': 'SA', 'Publish': 'PU'}[head]])
        else:
            raise FormatError(f'unknown pretty line {line!r}')
    if raw:
        return steps, raws, calls
    return steps


def bin_steps(data, opcodes):
    names = {v: k for k, v in opcodes.items()}
    steps = []
    i = 0

    def byte():
        nonlocal i
        if i >= len(data):
            raise FormatError('truncated instruction')
        b = data[i]
        i += 1
        return b
    while i < len(data):
        op = names.get(byte())
        if op is None:
            raise FormatError(f'unknown opcode {data[i - 1]} at {i - 1}')
        if op in ('EVar', 'SVar', 'Symbol', 'Exists', 'Mu', 'ESubst', 'SSubst', 'Generalization', 'Load'):
            steps.append((op, byte()))
        elif op == 'CleanMetaVar':
            steps.append(('MetaVar', byte(), ((), (), (), (), ())))
        elif op == 'MetaVar':
            ident = byte()
            ls = []
            for _ in range(5):
                n = byte()
                ls.append(tuple(byte() for _ in range(n)))
            if not any(ls):
                raise FormatError('MetaVar instruction with five empty lists (CleanMetaVar expected)')
            steps.append(('MetaVar', ident, tuple(ls)))
        elif op == 'Instantiate':
            n = byte()
            steps.append(('Instantiate', tuple(reversed([byte() for _ in range(n)]))))
        elif op in ('Implies', 'App', 'Prop1', 'Prop2', 'Prop3', 'ModusPonens', 'Quantifier', 'Pop', 'Save', 'Publish'):
            steps.append((op,))
        else:
            raise FormatError(f'instruction {op} is never emitted by the serialiser')
    return steps


def compare_files(res, opcodes):
    """res = {'plain'|'opt': {phase: {bin, pretty}}} -> list of (where, what)"""
    problems = []
    nsteps = 0
    for mode in ('plain', 'opt'):
        symtab = {}
        for ph in ('gamma', 'claim', 'proof'):
            try:
                ps = pretty_steps(res[mode][ph]['pretty'])
                bs = bin_steps(bytes.fromhex(res[mode][ph]['bin']), opcodes)
            except FormatError as e:
                problems.append((f'{mode}/{ph}', f'unreadable: {e}'))
                continue
            nsteps += len(bs)
            if len(ps) != len(bs):
                problems.append((f'{mode}/{ph}', f'{len(ps)} pretty steps vs {len(bs)} instructions'))
            for j, (p, b) in enumerate(zip(ps, bs)):
                if p[0] == 'Symbol' and b[0] == 'Symbol':
                    want = symtab.setdefault(p[1], len(symtab))
                    if want != b[1]:
                        problems.append((f'{mode}/{ph}#{j}', f'symbol {p[1]!r} numbered {b[1]}, first-occurrence order gives {want}'))
                elif p != b:
                    problems.append((f'{mode}/{ph}#{j}', f'pretty {p} vs binary {b}'))
                    break
    return problems, nsteps


# ------------------------------------------------------------------------------------------------
# module generation for the file correspondence
# ------------------------------------------------------------------------------------------------

def gen_module(rng, gen):
    def T(depth=2, **kw):
        return PC.show(gen.term(depth, raw_inst=0.0, **kw))
    nax = rng.randrange(0, 3)
    axioms = []
    for _ in range(nax):
        a, b = gen.term(1, raw_inst=0.0), gen.term(1, raw_inst=0.0)
        axioms.append((a, b))
    ax_terms = []
    for a, b in axioms:
        ax_terms += [PC.show(('i', a, b)), PC.show(a)]

    def spec(d):
        c = rng.random()
        if d > 0 and c < 0.15:
            return ['gen', ['imp_refl', T(1)], gen.var()]
        if d > 0 and c < 0.3:
            return ['imp_provable', T(1), spec(d - 1)]
        if axioms and c < 0.45:
            k = rng.randrange(len(axioms))
            return ['mp_axioms', 2 * k, 2 * k + 1]
        if axioms and c < 0.55:
            return ['axiom', rng.randrange(2 * len(axioms))]
        return rng.choice([['imp_refl', T()], ['dneg_intro', T()], ['bot_elim', T()], ['prop1_inst', T(1), T(1)], ['top_intro']])
    proofs = []
    seen = set()
    if rng.random() < 0.4:
        # a lemma re-used through the static ProofExp.instantiate, with an EMPTY substitution (it must still be one
        # instruction and one step) or, rarely, a non-empty one (D10: the interpreters reject it; counted as not serialisable)
        base = rng.choice([['imp_refl', T(1)], ['dneg_intro', T(1)], ['top_intro'], ['prop1_inst', T(1), T(1)]])
        delta = {} if rng.random() < 0.85 else {'0': T(1)}
        proofs.append(['sinst', base, delta])
        seen.add(json.dumps(base))
    for _ in range(rng.randrange(1, 4)):
        s = spec(2)
        key = json.dumps(s)
        if key not in seen:      # ProofExp asserts claims are distinct; equal specs give equal claims
            seen.add(key)
            proofs.append(s)
    return dict(axioms=ax_terms, proofs=proofs)


def run_modules(lines):
    """run harness/impl/module_runner.py on the request lines (in parallel chunks), one JSON answer per line"""
    from concurrent.futures import ThreadPoolExecutor
    env = {**os.environ, **C.py_env('0')}

    def one(part):
        p = subprocess.run([C.PY, os.path.join(C.VERIF, 'harness', 'impl', 'module_runner.py')],
                           input='\n'.join(part) + '\n', capture_output=True, text=True, timeout=1500, env=env)
        out = []
        for l in p.stdout.split('\n'):
            if l.strip():
                try:
                    out.append(json.loads(l))
                except ValueError:
                    out.append(dict(ok=False, err='unreadable answer'))
        if len(out) != len(part):
            out += [dict(ok=False, err=f'runner died: {p.stderr[-500:]}')] * (len(part) - len(out))
        return out[:len(part)]
    nproc = 1 if len(lines) < 30 else min(C.NCPU, 12)
    k = (len(lines) + nproc - 1) // nproc
    parts = [lines[i:i + k] for i in range(0, len(lines), k)]
    with ThreadPoolExecutor(max_workers=len(parts)) as ex:
        outs = list(ex.map(one, parts))
    return [x for o in outs for x in o]


# ------------------------------------------------------------------------------------------------
# the check
# ------------------------------------------------------------------------------------------------

def pr_req(simp, ids, t):
    return ('PR', ' '.join(['1' if simp else '0', str(len(ids))] + [str(i) for i in ids] + [PC.show(t)]))


def _txt(o):
    return ''.join(chr(int(c)) for c in o.split()[1:]) if o.startswith('S') else o


def pri_witness(sides, nt, args, d, simp, ids, impl_out):
    """implementation only: nt(*args).instantiate(d) printed `impl_out`; look for a permutation of the instantiated arguments whose DIRECT
    application prints the same text although it denotes a different pattern and differs in a position whose renderings differ"""
    import itertools
    inst = sides.impl([('I', PC.show(a) + ' ' + PC.showd(d)) for a in args])
    try:
        args1 = [PC.parse(x) for x in inst]
    except Exception:  # noqa: BLE001
        return None
    shown = [_txt(o) for o in sides.impl([pr_req(simp, ids, a) for a in args1])]
    perms = [p for p in itertools.permutations(range(nt.arity)) if any(args1[p[i]] != args1[i] and shown[p[i]] != shown[i] for i in range(nt.arity))]
    if not perms:
        return None
    outs = sides.impl([pr_req(simp, ids, nt(*[args1[i] for i in p])) for p in perms])
    for p, o in zip(perms, outs):
        if o != impl_out:
            continue
        a2 = [args1[i] for i in p]
        x = sides.impl([('X', PC.show(nt(*args1))), ('X', PC.show(nt(*a2)))])
        if x[0] != x[1] and 'RAISE' not in x and 'CRASH' not in x[0]:
            return dict(notation=nt.expr, label=getattr(nt, 'label', None) or nt.expr, schema_args=[PC.show(a) for a in args], delta=PC.showd(d),
                        args2=[PC.show(a) for a in a2], simplify=simp, ids=list(ids), text=_txt(impl_out), kind='instantiated-application')
    return None


def run(tier, seed):
    R = C.Report(CID, tier, seed)
    PS.drop_stale_known(R, PS.MY_PROPS)
    rng = C.rng_for(seed, CID)
    quick = tier == 'quick'

    # 0. translator: regenerate coq/Gen/Notations.v from the current tree
    sides = PS.Sides()
    okT, msgT = NT.regenerate(sides.reflect)
    if not okT:
        R.notes.append(f'translator failed closed: {msgT}')
    P = PS.proof_stage(R)
    proof_broken = not P['ok']
    cfg = PS.expected_config()
    det = sides.detect_config()
    for fl in PS.FLAGS:
        if det[fl] is True and not cfg[fl]:
            cfg[fl] = True

    # generated notations, registered under ids after the shipped ones
    gen = G.Gen(rng, notations=[nt for nt in sides.shipped if nt.family is None and nt.chunks is not None],
                syms=(1, 2, 3) + tuple(k for k in PS.BRACE_SYMS if k not in PS.TAB_SYMS))
    generated = []
    for j in range(12):
        nt = gen.random_notation(2, f'g{j}')
        sides.register(nt, len(sides.shipped) + j)
        generated.append(nt)
    gen.notations += generated
    allnots = [nt for nt in sides.shipped if nt.chunks is not None] + generated

    # 1. tie: pretty() model vs implementation
    reqs = []
    npretty = 6000 if quick else 150000
    for _ in range(npretty):
        c = rng.random()
        if c < 0.5:
            nt = rng.choice(allnots)
            t = nt(*[gen.term(rng.choice([0, 1, 2])) for _ in range(nt.arity)])
            ids = {nt.nid} if rng.random() < 0.85 else set()
        else:
            t = gen.term(rng.choice([1, 2, 3]), notation=0.45)
            ids = set()
        for nt2 in rng.sample(allnots, rng.randrange(0, 8)):
            ids.add(nt2.nid)
        ids = sorted(ids)
        rng.shuffle(ids)
        reqs.append(pr_req(rng.random() < 0.15, ids, t))
    # pretty(schema.instantiate(delta)): a notation applied to a mix of open and closed arguments (a lemma schema), then instantiated --
    # the printed holes are filled from the REBUILT inst mapping, so its key order is visible here and nowhere in equality / the bytes
    pri_meta = {}
    for _ in range(npretty // 6):
        nt = rng.choice(allnots)
        args = [gen.term(rng.choice([0, 1]), notation=0.2) if rng.random() < 0.5 else PC.mv(rng.randrange(0, 4)) for _ in range(nt.arity)]
        t = nt(*args)
        if rng.random() < 0.3:
            t = ('i', t, gen.term(1))
        d = tuple((k, gen.term(rng.choice([0, 1]))) for k in rng.sample(range(5), rng.randrange(1, 4)))
        ids = [nt.nid] if rng.random() < 0.9 else []
        ids += [n2.nid for n2 in rng.sample(allnots, rng.randrange(0, 4)) if n2.nid not in ids]
        simp = rng.random() < 0.15
        reqs.append(('PRI', ' '.join(['1' if simp else '0', str(len(ids))] + [str(i) for i in ids] + [PC.show(t), PC.showd(d)])))
        if t[0] == 'I' and t[1] is nt.definition and nt in sides.shipped and nt.nid in ids and 2 <= nt.arity <= 4:
            pri_meta[reqs[-1]] = (nt, args, d, simp, ids)
    m = sides.model(reqs, cfg)
    im = sides.impl(reqs)
    mismatches = []
    for rq, a, b in zip(reqs, m, im):
        R.case(rq, True, ('pretty-inst:' if rq[0] == 'PRI' else 'pretty:') + ('raise' if b == 'RAISE' else 'string'))
        if a != b:
            mismatches.append(dict(op=rq[0], args=rq[1], model=a, impl=b))
    for rq in reqs[:4]:
        R.sample(f'{rq[0]} {rq[1][:150]}')
    # failing-input search for a disagreement on pretty(schema.instantiate(delta)): a DIRECTLY built application of the same notation that
    # denotes a different pattern, whose arguments are printed differently, and which prints as the same text (the property's own shape)
    searched = 0
    for mm in mismatches:
        rq = (mm['op'], mm['args'])
        if rq not in pri_meta or searched >= 12 or not mm['impl'].startswith('S'):
            continue
        searched += 1
        w = pri_witness(sides, *pri_meta[rq], mm['impl'])
        if w:
            R.violation(f'C19:instantiated-application-prints-as-another:{w["label"]}',
                        f'{w["notation"]} at {w["schema_args"]} instantiated with {w["delta"]} prints {w["text"]!r}, the text of the same notation at '
                        f'{w["args2"]}, which denotes a different pattern and whose arguments are printed differently', w)
            break

    # 2a. static scan of the reflected table: holes vs metavariables of the expanded definition
    drop = not cfg['f_mv_keep_subst']
    for n in sides.reflect['notations']:
        d = PC.parse(n['definition'])
        mvs = G.ref_metavars(G.ref_expand(d, drop))
        try:
            holes = {v for k, v in PC.fmt_chunks(n['format_str']) if k == 'H'}
        except ValueError as e:
            R.violation(f'C19:format-unsupported:{n["label"]}', f'format string of {n["expr"]} is not a plain positional one: {e}',
                        dict(notation=n['expr'], format_str=n['format_str']))
            continue
        R.case(('scan', n['expr']), True, 'scan')
        missing = sorted(mvs - holes)
        if missing:
            a1 = [('e', 10 + j) for j in range(n['arity'])]
            a2 = list(a1)
            a2[missing[0]] = ('e', 99)
            R.violation(f'C19:format-drops-argument:{n["label"]}',
                        f'{n["expr"]}: format {n["format_str"]!r} has no hole for argument(s) {missing} the definition depends on',
                        dict(notation=n['expr'], format_str=n['format_str'], missing=missing,
                             args=[PC.show(a) for a in a1], args2=[PC.show(a) for a in a2]))

    # 2b. dynamic: two applications of one notation that denote different patterns and whose arguments are printed
    #     differently must be printed differently.  Argument pool: variables, symbols incl. brace-named ones, and
    #     applications of the notation ITSELF (left/right nesting).  One differing position = the scope of
    #     C19_hole_distinguishes ('format-drops-argument'); several = 'ambiguous-rendering'.
    import itertools
    atoms = [('e', 10), ('e', 11), ('e', 12), ('y', 201), ('y', 200), ('y', 1),
             ('y', 210), ('y', 211), ('y', 212), ('y', 214)]      # ... and names differing only in white space
    dreqs, djobs = [], []
    for nt in allnots:
        if nt.arity < 1:
            continue
        nested = [nt(*[atoms[(s0 + j) % 3] for j in range(nt.arity)]) for s0 in (0, 1)]
        pool = atoms + nested
        nestk = (len(atoms), len(atoms) + 1)
        if len(pool) ** nt.arity <= 200:
            tuples = list(itertools.product(range(len(pool)), repeat=nt.arity))
        else:
            tuples = {tuple(rng.randrange(len(pool)) for _ in range(nt.arity)) for _ in range(150 if quick else 600)}
            for pos in range(nt.arity):           # self-nesting, brace-named and white-space variants are always there
                for k in nestk + (3, 4, 6, 7, 8, 9):
                    for base in (0, 1, 2):
                        t = [base] * nt.arity
                        t[pos] = k
                        tuples.add(tuple(t))
            tuples = sorted(tuples)
        ids = [nt.nid]
        start = len(dreqs)
        dreqs += [pr_req(False, ids, a) for a in pool] + [pr_req(False, ids, nt(*[pool[k] for k in t])) for t in tuples]
        djobs.append((nt, pool, tuples, start))
    dres = sides.impl(dreqs)
    npairs = 0
    for nt, pool, tuples, start in djobs:
        rend = dres[start:start + len(pool)]
        outs = dres[start + len(pool):start + len(pool) + len(tuples)]
        groups = {}
        for t, o in zip(tuples, outs):
            if o.startswith('S'):
                groups.setdefault(o, []).append(t)
        R.case(('distinguish', nt.label, nt.arity, len(tuples)), True, 'distinguish')
        for o, ts in groups.items():
            if len(ts) < 2:
                continue
            exp = {t: G.ref_expand(nt(*[pool[k] for k in t]), drop) for t in ts}
            for t1, t2 in itertools.combinations(ts, 2):
                npairs += 1
                diff = [p for p in range(nt.arity) if rend[t1[p]] != rend[t2[p]]]
                if not diff or exp[t1] == exp[t2]:
                    continue        # arguments printed alike, or the same pattern (an ignored argument differs)
                kind = 'format-drops-argument' if len(diff) == 1 else 'ambiguous-rendering'
                text = ''.join(chr(int(c)) for c in o.split()[1:])
                R.violation(f'C19:{kind}:{nt.label}',
                            f'notation {nt.label}: two applications that denote different patterns, with arguments rendered differently '
                            f'at position(s) {diff}, are both printed {text!r}',
                            dict(notation=nt.expr or nt.label, positions=diff, args=[PC.show(pool[k]) for k in t1],
                                 args2=[PC.show(pool[k]) for k in t2], rendering=text))
    dmeta = [None] * npairs

    # 3. pretty files vs binary files, shipped + generated modules, both optimize settings (in batches: the
    #    pretty files with their stack dumps are large)
    mgen = G.Gen(C.rng_for(seed, CID + ':modules'), notations=[nt for nt in sides.shipped if nt.family is None and nt.chunks is not None],
                 syms=(1, 2, 3))
    specs = [gen_module(mgen.rng, mgen) for _ in range(40 if quick else 600)]
    all_lines = [f'SHIPPED {n}' for n in ('propositional', 'small_theory', 'substitution', 'kore', 'definedness')]
    all_lines += ['GEN ' + json.dumps(s) for s in specs]
    opcodes = (run_modules(['OPCODES'])[0].get('res') or {})
    total_steps = rejected = emit_jobs_n = emit_bad = 0
    BATCH = 48
    for b0 in range(0, len(all_lines), BATCH):
        lines = all_lines[b0:b0 + BATCH]
        outs = run_modules(lines)
        emit_jobs = []
        for line, o in zip(lines, outs):
            if not o.get('ok'):
                rejected += 1
                R.hist['module:not-serialisable'] = R.hist.get('module:not-serialisable', 0) + 1
                if line.startswith('SHIPPED'):
                    R.violation(f'C19:module-crash:{line}', f'{line}: {o.get("err")}', dict(module=line, error=o.get('err'), tb=o.get('tb')))
                continue
            problems, nsteps = compare_files(o['res'], opcodes)
            total_steps += nsteps
            for mode in ('plain', 'opt'):      # model of the two interpreters (Py/Serial.v) on the same call sequence
                try:
                    calls, raws, blob = [], [], b''
                    for ph in ('gamma', 'claim', 'proof'):
                        _, rw, cl = pretty_steps(o['res'][mode][ph]['pretty'], raw=True)
                        calls += cl
                        raws += rw
                        blob += bytes.fromhex(o['res'][mode][ph]['bin'])
                    emit_jobs.append((line, mode, calls, raws, blob))
                except FormatError:
                    pass
            R.case(line, True, 'module:' + ('shipped' if line.startswith('SHIPPED') else 'generated'))
            if problems:
                where, what = problems[0]
                kind = ('step-count' if ' pretty steps vs ' in what else 'symbol-numbering' if what.startswith('symbol ') else
                        'unreadable' if what.startswith('unreadable') else 'step-mismatch')
                R.violation('C19:lines-vs-opcodes:' + kind,
                            f'{line[:60]}: {where}: {what}', dict(module=line, where=where, what=what, all=problems[:10]))
        ereqs = [('EMIT', ' '.join([str(len(calls))] + [t for c in calls for t in c])) for _, _, calls, _, _ in emit_jobs]
        eans = sides.model(ereqs, cfg)
        for (line, mode, calls, raws, blob), a in zip(emit_jobs, eans):
            R.case(('emit', line, mode), True, 'serial-model')
            emit_jobs_n += 1
            ok = False
            if a.startswith('B 1 ') and ' | ' in a:
                bs, _, st = a[4:].partition(' | ')
                mbytes = bytes(int(x) for x in bs.split()) if bs.strip() else b''
                msteps = [''.join(chr(int(x)) for x in part.split()) for part in st.split(' ; ')] if calls else []
                ok = (mbytes == blob and msteps == raws)
            elif a.startswith('B 1') and not calls:
                ok = (blob == b'')
            if not ok:
                emit_bad += 1
                if len(mismatches) < 50:
                    mismatches.append(dict(op='EMIT', args=line[:200] + ' ' + mode, model=a[:300], impl=blob.hex()[:300]))
        del outs, emit_jobs, ereqs, eans
    R.notes.append({'serial_model_jobs': emit_jobs_n, 'serial_model_mismatches': emit_bad})
    R.notes.append({'modules': len(all_lines), 'modules_not_serialisable': rejected, 'instructions_compared': total_steps,
                    'pretty_tie_mismatches': len(mismatches), 'distinguish_pairs': len(dmeta)})

    if proof_broken and not R.violations:
        R.violation('proof-broken', 'Coq proof stage failed (Gen/Notations.v regenerated from the tree no longer satisfies Props/C19.v)',
                    {'no_failing_input_found': True, 'theorem_or_correspondence': f'Props/{CID}.v', 'translator': msgT, 'log': P['log']})
    if mismatches and not R.violations:
        R.violation('correspondence-broken', 'model (Py/Pretty.v, Py/Serial.v) and the implementation disagree',
                    {'no_failing_input_found': True, 'theorem_or_correspondence': 'correspondence mlref_py pretty/emits/pretty_step vs Pattern.pretty, SerializingInterpreter, PrettyPrintingInterpreter',
                     'first_mismatches': mismatches[:5]})
    R.coverage['rule'] = ('pretty(): every shipped notation (real objects) + families + 12 generated notations at random argument '
                          'tuples and random patterns, random notation subsets registered, simplify on/off; pretty-inst: pretty(schema.instantiate(delta)) for notation applications with open and closed arguments; distinguish: per notation '
                          'and per argument the definition depends on, two tuples differing there; modules: 5 shipped + generated '
                          'ProofExp modules (propositional lemmas, axioms, generalisation) x optimize on/off x 3 phases, every '
                          'instruction compared with its pretty step')
    return R.finish(level='proof', trusted_base=C.TRUSTED_COMMON + [
        'harness/notations.py translator (reflection -> Gen/Notations.v) and harness/impl/notation_reflect.py',
        'byte decoder and pretty-file reader in harness/c19.py (operand arities as documented in docs/proof-language.md)',
        'Python repr() of strings is modelled for printable strings only; dict lookup of a notation by its definition is '
        'modelled as structural identity'])


def replay(path):
    d = json.load(open(path))
    rp = d.get('replay', d)
    sides = PS.Sides()
    if 'args2' in rp and 'notation' in rp:
        nt = next((n for n in sides.shipped if n.expr == rp['notation']), None)
        if nt is None:
            print('notation not found in the current tree:', rp['notation'])
            return 1
        if rp.get('kind') == 'instantiated-application':
            a1 = [PC.parse(a) for a in rp['schema_args']]
            a2 = [PC.parse(a) for a in rp['args2']]
            simp = bool(rp.get('simplify'))
            ids = [i for i in rp.get('ids', [nt.nid]) if i < len(sides.shipped)]
            out = sides.impl([('PRI', ' '.join(['1' if simp else '0', str(len(ids))] + [str(i) for i in ids] + [PC.show(nt(*a1)), rp['delta']])), pr_req(simp, ids, nt(*a2)),
                              ('I', PC.show(nt(*a1)) + ' ' + rp['delta']), ('X', PC.show(nt(*a2)))])
            x1 = sides.impl([('X', out[2])])[0] if not out[2].startswith(('RAISE', 'CRASH', 'BAD')) else out[2]
            print(rp['notation'], 'at', rp['schema_args'], 'instantiated with', rp['delta'], '->', _txt(out[0]))
            print(rp['notation'], 'at', rp['args2'], '->', _txt(out[1]))
            bad = out[0] == out[1] and x1 != out[3]
            print('VIOLATED (same text, different patterns)' if bad else 'HOLDS')
            return 1 if bad else 0
        a1 = [PC.parse(a) for a in rp['args']]
        a2 = [PC.parse(a) for a in rp['args2']]
        out = sides.impl([pr_req(False, [nt.nid], nt(*a1)), pr_req(False, [nt.nid], nt(*a2))])
        s = [''.join(chr(int(c)) for c in o.split()[1:]) if o.startswith('S') else o for o in out]
        print(rp['notation'], 'at', rp['args'], '->', s[0])
        print(rp['notation'], 'at', rp['args2'], '->', s[1])
        print('VIOLATED (same text)' if s[0] == s[1] else 'HOLDS (different text)')
        return 1 if s[0] == s[1] else 0
    if 'module' in rp:
        outs = run_modules(['OPCODES', rp['module']])
        if not outs[1].get('ok'):
            print(outs[1])
            return 1
        problems, n = compare_files(outs[1]['res'], outs[0]['res'])
        print(rp['module'][:200], '->', problems[:5] or 'files correspond', f'({n} instructions)')
        return 1 if problems else 0
    print(json.dumps(d, indent=1)[:4000])
    return 0

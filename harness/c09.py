"""C09 — The tautology prover is a correct decision procedure.

proof stage : coq/Props/C09.v (model coq/Taut/Model.v; stage, soundness, completeness theorems)
tie stage   : extracted model (ocaml/mlref_taut) vs generation/src/proof_generation/tautology.py
              (harness/impl/taut_runner.py) on: exhaustive formulas over 3 variables up to a size bound,
              random larger formulas (<=4 vars, depth <=4, equiv nesting capped), random ConjForm trees per
              stage, random clause lists for the resolution loop, resolvable / simplify_clause calls;
              every stage output, the final clause list, the hint dictionary and the verdict are compared.
oracle      : truth tables computed here (independent of model and implementation) for the verdict and
              for every stage output (equivalence + shape); proof layer: every returned ProofThunk is run
              under StatefulInterpreter and its conclusion compared literally (runner command Q).
"""
import itertools
import json
import os
from concurrent.futures import ThreadPoolExecutor

import common as C

CID = 'C09'
CORPUS = os.path.join(C.VERIF, 'harness', 'corpus', CID)

D6_WITNESS = 'i i a v1 v0 n v1 i i v0 b n v0'


# ------------------------------------------------------------------------------------------------
# formulas (prefix token strings), truth tables
# ------------------------------------------------------------------------------------------------
ATOMS3 = ['b', 't', 'v0', 'v1', 'v2']
BIN = ['i', 'a', 'o', 'e']


def forms_of_size(n, memo, atoms):
    if n in memo:
        return memo[n]
    if n == 1:
        out = list(atoms)
    else:
        out = ['n ' + f for f in forms_of_size(n - 1, memo, atoms)]
        for k in range(1, n - 1):
            for a in forms_of_size(k, memo, atoms):
                for b in forms_of_size(n - 1 - k, memo, atoms):
                    for op in BIN:
                        out.append(f'{op} {a} {b}')
    memo[n] = out
    return out


def rand_form(rng, depth, nvars, equiv_budget):
    """equiv_budget: how many nested `e` are still allowed on this path"""
    if depth == 0 or rng.random() < 0.15:
        r = rng.random()
        if r < 0.08:
            return 'b'
        if r < 0.14:
            return 't'
        return f'v{rng.randrange(nvars)}'
    r = rng.random()
    if r < 0.2:
        return 'n ' + rand_form(rng, depth - 1, nvars, equiv_budget)
    ops = ['i', 'i', 'a', 'o'] + (['e'] if equiv_budget > 0 else [])
    op = rng.choice(ops)
    eb = equiv_budget - 1 if op == 'e' else equiv_budget
    return f'{op} {rand_form(rng, depth - 1, nvars, eb)} {rand_form(rng, depth - 1, nvars, eb)}'


def ev_form(toks, v):
    t = toks.pop(0)
    if t == 'b':
        return False
    if t == 't':
        return True
    if t[0] in 'vc':
        return v[int(t[1:])]
    if t == 'n':
        return not ev_form(toks, v)
    a = ev_form(toks, v)
    b = ev_form(toks, v)
    if t == 'i':
        return (not a) or b
    if t == 'a':
        return a and b
    if t == 'o':
        return a or b
    return a == b


def ev_cf(toks, v):
    t = toks.pop(0)
    k, n = t[0], t[1] == '1'
    if k == 'B':
        x = False
    elif k == 'V':
        x = v.get(int(t[3:]), False)
    else:
        a = ev_cf(toks, v)
        b = ev_cf(toks, v)
        x = (a or b) if k == 'O' else (a and b)
    return x != n


def ev_clauses(s, v):
    body = s[1:]
    if not body:
        return True
    for cl in body[1:-1].split(']['):
        lits = [int(x) for x in cl.split(',')] if cl else []
        if not any((v.get(abs(x) - 1, False) if x > 0 else not v.get(abs(x) - 1, False)) for x in lits):
            return False
    return True


def cf_shape(toks):
    """returns (is_nnf, is_cnf, is_clause) of a cf token string"""
    t = toks.pop(0)
    k, n = t[0], t[1] == '1'
    if k == 'B':
        return (False, False, False)
    if k == 'V':
        return (True, True, True)
    a = cf_shape(toks)
    b = cf_shape(toks)
    if k == 'O':
        return ((not n) and a[0] and b[0], (not n) and a[2] and b[2], (not n) and a[2] and b[2])
    return ((not n) and a[0] and b[0], (not n) and a[1] and b[1], False)


def form_vars(f):
    return sorted({int(t[1:]) for t in f.split() if t[0] in 'vc' and t[1:].isdigit()})


def assignments(vs):
    for bits in itertools.product([False, True], repeat=len(vs)):
        yield dict(zip(vs, bits))


def classify(f):
    vals = set()
    for v in assignments(form_vars(f)):
        vals.add(ev_form(f.split(), v))
    return 'T' if vals == {True} else ('F' if vals == {False} else 'N')


# ------------------------------------------------------------------------------------------------
# random ConjForm trees and clause lists
# ------------------------------------------------------------------------------------------------
def rand_cf(rng, depth, kind):
    """kind: 'or' (to_conj_form-shaped), 'nnf', 'cnf', 'any' (malformed allowed)"""
    def var():
        return f'V{rng.randrange(2)}:{rng.randrange(4)}'
    if depth == 0 or rng.random() < 0.2:
        if kind == 'any' and rng.random() < 0.15:
            return f'B{rng.randrange(2)}'
        return var()
    if kind == 'or':
        return f'O{rng.randrange(2)} {rand_cf(rng, depth - 1, kind)} {rand_cf(rng, depth - 1, kind)}'
    if kind == 'nnf':
        k = rng.choice('OA')
        return f'{k}0 {rand_cf(rng, depth - 1, kind)} {rand_cf(rng, depth - 1, kind)}'
    if kind == 'cnf':
        if rng.random() < 0.5:
            return f'A0 {rand_cf(rng, depth - 1, "cnf")} {rand_cf(rng, depth - 1, "cnf")}'
        return f'O0 {rand_cf(rng, depth - 1, "clause")} {rand_cf(rng, depth - 1, "clause")}'
    if kind == 'clause':
        return f'O0 {rand_cf(rng, depth - 1, "clause")} {rand_cf(rng, depth - 1, "clause")}'
    k = rng.choice('OA')
    return f'{k}{1 if rng.random() < 0.3 else 0} {rand_cf(rng, depth - 1, kind)} {rand_cf(rng, depth - 1, kind)}'


def rand_clauses(rng, nvars):
    n = rng.randrange(0, 8)
    out = []
    for _ in range(n):
        k = rng.choice([1, 1, 2, 2, 2, 3, 3, 4]) if rng.random() > 0.02 else 0
        cl = []
        for _ in range(k):
            x = rng.randrange(1, nvars + 1)
            cl.append(x if rng.random() < 0.5 else -x)
        out.append(cl)
    return 'L' + ''.join('[' + ','.join(map(str, c)) + ']' for c in out)


def unsat_biased_clauses(rng, nvars):
    """clause sets that are more often unsatisfiable: all sign patterns over a few variables, shuffled,
    with some dropped / widened — exercises long saturation runs and every clause ordering"""
    k = rng.randrange(1, min(3, nvars) + 1)
    vs = rng.sample(range(1, nvars + 1), k)
    cls = []
    for signs in itertools.product([1, -1], repeat=k):
        cl = [s * x for s, x in zip(signs, vs)]
        rng.shuffle(cl)
        if rng.random() < 0.25:
            y = rng.randrange(1, nvars + 1)
            cl.append(y if rng.random() < 0.5 else -y)
        cls.append(cl)
    if rng.random() < 0.3 and cls:
        cls.pop(rng.randrange(len(cls)))
    rng.shuffle(cls)
    return 'L' + ''.join('[' + ','.join(map(str, c)) + ']' for c in cls)


# ------------------------------------------------------------------------------------------------
# running
# ------------------------------------------------------------------------------------------------
def run_impl(lines, timeout_case=20, chunks=None, _retry=True):
    """run the implementation runner in parallel processes; returns answers in order"""
    if not lines:
        return []
    chunks = chunks or C.NCPU
    n = max(1, (len(lines) + chunks - 1) // chunks)
    # interleave so that expensive cases are spread over the workers
    parts = [lines[i::chunks] for i in range(chunks)] if len(lines) >= chunks else [lines]

    def one(part):
        if not part:
            return []
        out, err = C.run_py('taut_runner.py', part, timeout=timeout_case * len(part) + 120, args=(str(timeout_case),))
        if len(out) != len(part):
            out = out + ['<missing> ' + err[-300:].replace('\n', ' ')] * (len(part) - len(out))
        return out
    with ThreadPoolExecutor(max_workers=len(parts)) as ex:
        outs = list(ex.map(one, parts))
    if len(parts) == 1:
        res = outs[0]
    else:
        res = [None] * len(lines)
        for k, o in enumerate(outs):
            for idx, a in enumerate(o):
                res[k + idx * chunks] = a
    # a runner process that died leaves `<missing>` answers: retry those lines once, in fresh processes
    miss = [k for k, a in enumerate(res) if a is None or a.startswith('<missing>')]
    if miss and _retry:
        again = run_impl([lines[k] for k in miss], timeout_case, chunks, _retry=False)
        for k, a in zip(miss, again):
            res[k] = a
    return res


def run_model(mlref, lines, pinned=False):
    args = ('--pinned',) if pinned else ()
    if len(lines) < 400:
        return C.run_lines(mlref, lines, args=args)
    chunks = C.NCPU
    parts = [lines[i::chunks] for i in range(chunks)]
    with ThreadPoolExecutor(max_workers=chunks) as ex:
        outs = list(ex.map(lambda p: C.run_lines(mlref, p, args=args) if p else [], parts))
    res = [None] * len(lines)
    for k, o in enumerate(outs):
        o = o + ['<missing>'] * (len(parts[k]) - len(o))
        for idx, a in enumerate(o):
            res[k + idx * chunks] = a
    miss = [k for k, a in enumerate(res) if a is None or a.startswith('<missing>')]
    if miss:      # a driver process died: retry those lines once
        again = C.run_lines(mlref, [lines[k] for k in miss], args=args)
        again = again + ['<missing>'] * (len(miss) - len(again))
        for k, a in zip(miss, again):
            res[k] = a
    return res


def norm(ans):
    if ans is None:
        return '<none>'
    if ans.startswith('ERR'):
        return 'ERR'
    return ans


def fields(ans):
    d = {}
    for part in ans.split(' ; '):
        if part.startswith('res='):
            for kv in part.split(' ', 3):
                pass
            # res=X l=... hint=... build=...
            i_l = part.index(' l=')
            i_h = part.index(' hint=')
            i_b = part.rindex(' build=')
            d['res'] = part[4:i_l]
            d['l'] = part[i_l + 3:i_h]
            d['hint'] = part[i_h + 6:i_b]
            d['build'] = part[i_b + 7:]
        elif '=' in part:
            k, _, v = part.partition('=')
            d[k] = v
    return d


def recursion_signature(line, impl_ans, model_ans):
    """signature of a RecursionError answer `ERR RecursionError origin=<pattern|file:func> clauses=<n|None> loop=<T|F|?>`
    and whether the part of the verdict layer that had been reached agrees with the model / the truth table.
    D17 is identified by the exception type and by where the limit is hit (inside pattern.py / a dataclass __eq__),
    not by any size bucket: the error can occur in any stage that compares large patterns (to_cnf, to_clauses,
    build_proof_from_hint, ...).  A RecursionError that originates elsewhere gets a different signature."""
    origin, loop = '?', '?'
    for tok in impl_ans.split():
        if tok.startswith('origin='):
            origin = tok[7:]
        if tok.startswith('loop='):
            loop = tok[5:]
    sig = 'prove_tautology/RecursionError' if origin == 'pattern' else 'prove_tautology/RecursionError/origin:' + origin
    ok = True
    if model_ans:
        d = fields(model_ans) if ' ; ' in model_ans else fields('x=0 ; ' + model_ans)
        if loop in 'TF' and 'res' in d and d['res'] in 'FN':
            ok = (loop == 'T') == (d['res'] == 'F')
        if line[0] == 'P' and 'entry' in d and d['entry'] != classify(line[2:]):
            ok = False
    return sig, ok


def regen_gen():
    """regenerate coq/Gen/TautVerdict.v from the current source of the verdict layer (translators/taut_verdict.py)"""
    import sys
    sys.path.insert(0, os.path.join(C.VERIF, 'translators'))
    import importlib
    import taut_verdict
    importlib.reload(taut_verdict)
    try:
        text = taut_verdict.generate(C.REPO)
        C.write_if_changed(os.path.join(C.COQ, 'Gen', 'TautVerdict.v'), text)
        return True, ''
    except SystemExit as e:
        return False, str(e)
    except Exception as e:  # noqa: BLE001
        return False, f'taut_verdict: {e!r}'


def build_model():
    """like common.build_mlref, but links the `unix` library (the driver uses alarm() for per-case
    timeouts, because the modelled to_cnf is exponential exactly like the implementation)"""
    ok, log = C.coq_make(['Taut/Model.vo'])
    if not ok:
        return False, log[-4000:], None
    gen = os.path.join(C.OCAML, 'gen')
    os.makedirs(gen, exist_ok=True)
    with C.BuildLock():
        srcs = [os.path.join(C.COQ, 'Extract/ExtractTaut.v'), os.path.join(C.COQ, 'Taut/Model.v'),
                os.path.join(C.OCAML, 'taut_driver.ml')]
        exe = os.path.join(C.OCAML, 'mlref_taut')
        stamp = max(os.path.getmtime(s) for s in srcs)
        if os.path.exists(exe) and os.path.getmtime(exe) >= stamp:
            return True, 'up to date', exe
        rc, o, e = C.sh(f'timeout 300 coqc -Q {C.COQ} Pi2 -w -all {srcs[0]}', cwd=gen, timeout=330)
        if rc != 0:
            return False, (o + e)[-4000:], None
        rc, o, e = C.sh('ocamlfind ocamlopt -O3 -w -a -package unix -linkpkg -I gen gen/taut_model.mli gen/taut_model.ml '
                        'taut_driver.ml -o mlref_taut', cwd=C.OCAML, timeout=300)
        if rc != 0:
            return False, (o + e)[-4000:], None
        return True, 'built', exe


def setup():
    build_model()


# ------------------------------------------------------------------------------------------------
# oracle on one pipeline answer of the implementation
# ------------------------------------------------------------------------------------------------
def oracle_pipeline(form, ans):
    """returns list of (signature, description) for property failures visible in `ans` (implementation's
    answer to `P form`), judged by truth tables / shape predicates only"""
    bad = []
    if ans.startswith('TIMEOUT') or ans.startswith('<missing>'):
        return bad
    if ans.startswith('ERR RecursionError'):
        return []      # reported by the tie stage under signature prove_tautology/RecursionError (D17)
    if ans.startswith('ERR'):
        return [('prove_tautology/raises', f'prove_tautology pipeline raised {ans} on a propositional pattern')]
    d = fields(ans)
    cls = classify(form)
    vs = form_vars(form)
    for key in ('verdict', 'entry'):
        if key in d and d[key] != cls:
            what = {'T': 'tautology', 'F': 'unsatisfiable', 'N': 'contingent'}[cls]
            got = {'T': 'proved', 'F': 'refuted', 'N': 'inconclusive'}[d[key]]
            bad.append((f'prove_tautology/verdict/{cls}->{d[key]}', f'{what} pattern judged {got}'))
    # stages: conj == neg form, each later stage equivalent to the previous, shapes
    prev = None
    for name in ('conj', 'neg', 'cnf', 'cls'):
        if name not in d:
            break
        for v in assignments(vs):
            if name == 'cls':
                val = ev_clauses(d[name], v)
            else:
                val = ev_cf(d[name].split(), v)
            want = (not ev_form(form.split(), v)) if prev is None else prev_vals[tuple(sorted(v.items()))]
            if val != want:
                bad.append((f'stage/{name}/not-equivalent', f'stage {name} output not equivalent to its input'))
                break
        prev_vals = {}
        for v in assignments(vs):
            prev_vals[tuple(sorted(v.items()))] = ev_clauses(d[name], v) if name == 'cls' else ev_cf(d[name].split(), v)
        prev = name
        if name == 'neg' and not cf_shape(d[name].split())[0]:
            bad.append(('stage/neg/shape', 'propag_neg output has a negated inner node'))
        if name == 'cnf' and not cf_shape(d[name].split())[1]:
            bad.append(('stage/cnf/shape', 'to_cnf output is not in CNF'))
    return bad


# ------------------------------------------------------------------------------------------------
# the check
# ------------------------------------------------------------------------------------------------
def gen_cases(tier, seed):
    """returns list of (line, kind)"""
    rng = C.rng_for(seed, CID)
    cases = []
    # corpus first
    if os.path.isdir(CORPUS):
        for fn in sorted(os.listdir(CORPUS)):
            if fn.endswith('.txt'):
                for line in open(os.path.join(CORPUS, fn)):
                    line = line.strip()
                    if line and not line.startswith('#'):
                        cases.append((line, 'corpus'))
    memo = {}
    bound = 4 if tier == 'quick' else 5
    for n in range(1, bound + 1):
        for f in forms_of_size(n, memo, ATOMS3):
            cases.append(('P ' + f, f'exh{n}'))
    # a seeded sample of the next size
    nxt = forms_of_size(bound + 1, memo, ATOMS3)
    k = 300 if tier == 'quick' else 5000
    for f in rng.sample(nxt, min(k, len(nxt))):
        cases.append(('P ' + f, f'smp{bound + 1}'))
    nrand = 450 if tier == 'quick' else 7000
    for _ in range(nrand):
        nv = rng.choice([2, 3, 3, 4, 4])
        d = rng.choice([2, 3, 3, 4])
        cases.append(('P ' + rand_form(rng, d, nv, 1 if d >= 3 else 2), 'rand'))
    nst = 150 if tier == 'quick' else 2500
    for _ in range(nst):
        cases.append(('N ' + rand_cf(rng, rng.randrange(1, 5), rng.choice(['or', 'or', 'or', 'any'])), 'stageN'))
        cases.append(('C ' + rand_cf(rng, rng.randrange(1, 4), rng.choice(['nnf', 'nnf', 'nnf', 'any'])), 'stageC'))
        cases.append(('L ' + rand_cf(rng, rng.randrange(1, 5), rng.choice(['cnf', 'cnf', 'cnf', 'nnf', 'any'])), 'stageL'))
    nres = 600 if tier == 'quick' else 10000
    for _ in range(nres):
        nv = rng.choice([2, 3, 3, 4])
        if rng.random() < 0.5:
            cases.append(('R ' + rand_clauses(rng, nv), 'res'))
        else:
            cases.append(('R ' + unsat_biased_clauses(rng, nv), 'resU'))
    nv_ = 200 if tier == 'quick' else 2500
    for _ in range(nv_):
        def cl():
            return '{' + ','.join(str(rng.choice([1, -1]) * rng.randrange(1, 5)) for _ in range(rng.randrange(0, 4))) + '}'
        cases.append((f'V {cl()} {cl()}', 'resolvable'))
        c = [rng.choice([1, -1]) * rng.randrange(1, 4) for _ in range(rng.randrange(1, 6))]
        x = rng.choice(c) if rng.random() < 0.8 else rng.randrange(1, 5)
        cases.append((f'S [{",".join(map(str, c))}] {x}', 'simplify'))
        if _ % 2 == 0:
            l = [rng.choice([1, -1]) * rng.randrange(1, 5) for _k in range(rng.randrange(1, 6))]
            r = [rng.choice([1, -1]) * rng.randrange(1, 5) for _k in range(rng.randrange(1, 4))]
            cases.append((f'MC [{",".join(map(str, l))}] [{",".join(map(str, r))}]', 'merge'))
            cases.append((f'SC [{",".join(map(str, c))}] {x}', 'simplify_pf'))
            t = [rng.choice([1, -1]) * rng.randrange(1, 5) for _k in range(rng.randrange(0, 4))]
            y = rng.randrange(1, 5)
            t.insert(rng.randrange(len(t) + 1), y)
            t.insert(rng.randrange(len(t) + 1), -y)
            cases.append((f'TC [{",".join(map(str, t))}]', 'trivial_pf'))
            n = rng.randrange(1, 8)
            ps = sorted(rng.sample(range(n), rng.randrange(0, n + 1)))
            cases.append((f'OM [{",".join(map(str, ps))}] {n}', 'move_to_front'))
    return cases


def proof_cases(tier, seed):
    """formulas whose returned proofs are executed (expensive): all of size <= 2, a sample of size 3/4,
    the D6 witness"""
    rng = C.rng_for(seed, CID + ':proofs')
    memo = {}
    out = []
    for n in (1, 2):
        out += forms_of_size(n, memo, ATOMS3)
    s3 = forms_of_size(3, memo, ATOMS3)
    s4 = forms_of_size(4, memo, ATOMS3)
    if tier == 'quick':
        out += rng.sample(s3, 30) + rng.sample(s4, 14)
        out += [rand_form(rng, 2, 3, 1) for _ in range(10)]
    else:
        out += s3 + rng.sample(s4, 80)
        out += [rand_form(rng, 3, 3, 1) for _ in range(60)]
    out.append(D6_WITNESS)
    # D16: metavariables carrying constraints (the stages identify a metavariable by its id only)
    out += ['c0', 'i c0 c0', 'i c0 t', 'i b c0', 'o c0 n c0', 'a c0 n c0', 'i a c0 v1 c0', 'e c0 c0']
    for _ in range(4 if tier == 'quick' else 40):
        out.append(rand_form(rng, 2, 3, 1).replace('v0', 'c0'))
    return out


def nontrivial(line, ans):
    cmd = line[0]
    if cmd == 'P':
        return ' ; neg=' in ans
    if cmd == 'R':
        return ans.count('=I') >= 2
    if cmd == 'V':
        return ans != 'None'
    return not ans.startswith('ERR')


def run(tier, seed):
    R = C.Report(CID, tier, seed)

    # 0. tie by translation: regenerate coq/Gen/TautVerdict.v from the CURRENT tautology.py (fail closed)
    ok_tr, tr_msg = regen_gen()
    # 1. proof stage
    P = R.proof_stage()
    if not ok_tr:
        P['ok'] = False
        P['log'] = 'translator failed closed: ' + tr_msg
        P['discharged'] = 0     # the regenerated model could not be produced: nothing is proved about the current source
    proof_broken = not P['ok']
    if proof_broken:
        R.notes.append('proof stage failed: ' + P['log'][-1500:])
    coqchk = None
    if tier == 'thorough' and not proof_broken:
        rc, o, e = C.sh('timeout 900 coqchk -silent -o -Q . Pi2 Pi2.Props.C09', cwd=C.COQ, timeout=930)
        coqchk = (o + e)[-600:]
        if rc != 0 or '* Axioms: <none>' not in (o + e):
            proof_broken = True
            R.notes.append('coqchk failed or reports axioms: ' + coqchk)

    # 2. tie stage
    ok, log, mlref = build_model()
    cases = gen_cases(tier, seed)
    lines = [c[0] for c in cases]
    mismatches = []
    impl = None
    timeouts = 0
    if not ok:
        R.notes.append('model build failed: ' + log)
        mismatches.append(('build', log[-500:], ''))
        impl = run_impl(lines)
    else:
        ncorp = sum(1 for c in cases if c[1] == 'corpus')       # corpus lines come first
        with ThreadPoolExecutor(max_workers=3) as ex:
            # corpus cases (refutation witnesses, known-finding replays) get a generous timeout so that what they
            # reproduce does not depend on machine load
            f_corp = ex.submit(run_impl, lines[:ncorp], 180)
            f_impl = ex.submit(run_impl, lines[ncorp:])
            f_model = ex.submit(run_model, mlref, lines)
            impl = f_corp.result() + f_impl.result()
            model = f_model.result()
        for (line, kind), m, i in zip(cases, model, impl):
            if (i is not None and i.startswith('TIMEOUT')) or (m is not None and m.startswith('TIMEOUT')):
                timeouts += 1
                R.case(line, False, kind + ':timeout')
                continue
            if i is not None and i.startswith('ERR RecursionError') and not (m or '').startswith('ERR'):
                # D17: CPython's C recursion limit hit inside Pattern.__eq__ during proof reconstruction; the
                # model has no such limit.  The verdict layer is still compared: what the implementation's
                # saturation loop had answered (loop=) must agree with the model, and the model's verdict
                # with the truth table.
                R.case(line, False, kind + ':recursion')
                sig, ok_layer = recursion_signature(line, i, m)
                if not ok_layer:
                    mismatches.append((line, m, i))
                R.violation(sig, f'implementation raises RecursionError ({i}) on input {line}; model answers {m[-40:]}',
                            {'input': line, 'got': i, 'model': m})
                continue
            R.case(line, nontrivial(line, i or ''), kind)
            if norm(m) != norm(i):
                mismatches.append((line, m, i))
        for (line, kind) in cases[:3] + cases[len(cases) // 2: len(cases) // 2 + 3]:
            R.sample(line)
    R.hist['timeouts'] = timeouts
    # verdict histogram
    for (line, kind), i in zip(cases, impl):
        if line[0] == 'P' and i and 'entry=' in i:
            R.hist['verdict_' + i.rsplit('entry=', 1)[1]] = R.hist.get('verdict_' + i.rsplit('entry=', 1)[1], 0) + 1
        elif line[0] == 'P' and i and 'verdict=' in i:
            R.hist['verdict_early_' + i.rsplit('verdict=', 1)[1][0]] = R.hist.get('verdict_early_' + i.rsplit('verdict=', 1)[1][0], 0) + 1
        elif line[0] == 'R' and i and i.startswith('res='):
            R.hist['res_' + i[4]] = R.hist.get('res_' + i[4], 0) + 1

    # which configuration does the implementation follow on the D6 witness?
    if ok:
        w = 'P ' + D6_WITNESS
        iw = run_impl([w])[0]
        ms = C.run_lines(mlref, [w])[0]
        mp = C.run_lines(mlref, [w], args=('--pinned',))[0]
        if norm(iw) == norm(mp) and norm(iw) != norm(ms):
            R.violation('resolution_algorithm/loop-variable-swap',
                        'D6: resolution_algorithm reassigns its loop variables (cl1, cl2 = cl2, cl1); the tautology '
                        '((phi1 /\\ phi0) -> ~phi1) -> ((phi0 -> bot) -> ~phi0) is judged inconclusive '
                        '(implementation follows the model configuration g_resolution_no_shadow=false, '
                        'for which Props/C09.v proves C09_refuted_shadow)',
                        {'input': w, 'expected': ms, 'got': iw})

    # 3. oracle on the implementation (truth tables; always on every pipeline case — it is cheap)
    n_oracle = 0
    for (line, kind), i in zip(cases, impl):
        if line[0] != 'P' or i is None:
            continue
        n_oracle += 1
        for sig, desc in oracle_pipeline(line[2:], i):
            R.violation(sig, desc + f' (input {line[2:]})', {'input': line, 'got': i, 'class': classify(line[2:])})
    # resolution verdict oracle on clause lists (all clauses non-empty): F iff unsat, T iff all trivial
    for (line, kind), i in zip(cases, impl):
        if line[0] == 'R' and i is not None and i.startswith('ERR') and not i.startswith('ERR RecursionError'):
            body = line[2:].strip()[1:]
            cl0 = [] if not body else [[int(x) for x in c.split(',')] if c else [] for c in body[1:-1].split('][')]
            if cl0 and all(len(c) > 0 and 0 not in c for c in cl0):
                R.violation('start_resolution_algorithm/raises:' + i.split()[-1],
                            f'start_resolution_algorithm raised {i} on the well-formed clause list {line[2:]}',
                            {'input': line, 'got': i})
            continue
        if line[0] != 'R' or i is None or not i.startswith('res='):
            continue
        s = line[2:].strip()
        body = s[1:]
        cls = [] if not body else [[int(x) for x in c.split(',')] if c else [] for c in body[1:-1].split('][')]
        if any(len(c) == 0 for c in cls):
            continue      # outside the precondition (to_clauses never produces an empty clause)
        vs = sorted({abs(x) - 1 for c in cls for x in c})
        sat = any(ev_clauses(s, v) for v in assignments(vs))
        valid = all(ev_clauses(s, v) for v in assignments(vs))
        want = 'T' if valid else ('N' if sat else 'F')
        n_oracle += 1
        if i[4] != want:
            R.violation(f'start_resolution_algorithm/verdict/{want}->{i[4]}',
                        f'clause conjunction {s}: expected {want}, got {i[4]}', {'input': line, 'got': i})
    # proof layer: run the returned proofs, compare conclusions literally
    pcs = proof_cases(tier, seed)
    pans = run_impl(['Q ' + f for f in pcs], timeout_case=40 if tier == 'quick' else 60)
    n_pf = 0
    for f, a in zip(pcs, pans):
        if a is None or a.startswith('TIMEOUT') or a.startswith('<missing>'):
            R.hist['proof_timeouts'] = R.hist.get('proof_timeouts', 0) + 1
            continue
        constrained = any(t[0] == 'c' for t in f.split())
        R.case('Q ' + f, True, 'proofs_constrained' if constrained else 'proofs')
        if a.startswith('ERR RecursionError'):
            R.violation(recursion_signature('Q ' + f, a, None)[0], f'implementation raises RecursionError ({a}; input Q {f})',
                        {'input': 'Q ' + f, 'got': a})
            continue
        if a.startswith('ERR'):
            sig = 'proof-layer/constrained-metavar/raises:' + a.split()[-1] if constrained else 'proof-layer/raises'
            R.violation(sig, f'proof construction raised {a} (input {f})', {'input': 'Q ' + f, 'got': a})
            continue
        parts = a.split(' ')
        n_pf += int(parts[1].split('=')[1])
        if parts[0] != classify(f):
            R.violation(f'prove_tautology/verdict/{classify(f)}->{parts[0]}', f'wrong verdict (input {f})',
                        {'input': 'Q ' + f, 'got': a})
        if parts[2] != 'OK':
            names = sorted({x.split(':')[0].rstrip('12') + ':' + x.split(':')[1] for x in parts[3].split(',')})
            sig = 'proof-layer/constrained-metavar/stage-conclusions' if constrained else 'proof-layer/' + '+'.join(names)
            R.violation(sig, f'returned proof has the wrong conclusion or fails to run: {a} (input {f})',
                        {'input': 'Q ' + f, 'got': a})
    R.hist['proofs_executed'] = n_pf
    # proof layer per stage on larger well-shaped ConjForm trees (long clause lists exercise the
    # and/or-assoc shifting of to_clauses and the distribution steps of to_cnf)
    rngs = C.rng_for(seed, CID + ':stageproofs')
    qs = []
    for _ in range(40 if tier == 'quick' else 500):
        qs.append('QS N ' + rand_cf(rngs, rngs.randrange(1, 5), 'or'))
        qs.append('QS C ' + rand_cf(rngs, rngs.randrange(1, 4), 'nnf'))
        qs.append('QS L ' + rand_cf(rngs, rngs.randrange(2, 6), 'cnf'))
    qans = run_impl(qs, timeout_case=40)
    for q, a in zip(qs, qans):
        if a is None or a.startswith('TIMEOUT') or a.startswith('<missing>'):
            R.hist['proof_timeouts'] = R.hist.get('proof_timeouts', 0) + 1
            continue
        R.case(q, True, 'stageproofs' + q[3])
        if a.startswith('ERR RecursionError'):
            R.violation(recursion_signature(q, a, None)[0], f'implementation raises RecursionError ({a}; input {q})', {'input': q, 'got': a})
        elif a != 'OK':
            R.violation(f'proof-layer/stage-{q[3]}', f'stage proof has the wrong conclusion or fails: {a} (input {q})',
                        {'input': q, 'got': a})
    # run-time check of the helper specs assumed by the glue theorem (Taut/Glue.v: H_simplify / H_merge / H_trivial)
    rngp = C.rng_for(seed, CID + ':pieces')
    qp = ['QP S [1,2] 1', 'QP S [2,1,1] 1', 'QP S [1,2] 3', 'QP M [1] [2]', 'QP M [1,-2] [3,4]', 'QP T [1,-1]', 'QP T [2,1,-2]']
    nS, nM, nT = (4, 8, 6) if tier == 'quick' else (40, 80, 50)
    def rcl(lo, hi, nv=3):
        return [rngp.choice([1, -1]) * rngp.randrange(1, nv + 1) for _ in range(rngp.randrange(lo, hi + 1))]
    def scl(c):
        return '[' + ','.join(map(str, c)) + ']'
    for _ in range(nS):
        c = rcl(1, 3 if tier == 'quick' else 4)
        qp.append(f'QP S {scl(c)} {rngp.choice(c) if rngp.random() < 0.8 else 4}')
    for _ in range(nM):
        qp.append(f'QP M {scl(rcl(1, 4, 4))} {scl(rcl(1, 3, 4))}')
    for _ in range(nT):
        c = rcl(0, 2 if tier == 'quick' else 3)
        x = rngp.randrange(1, 4)
        c = c + [x, -x] if rngp.random() < 0.5 else [-x] + c + [x]
        rngp.shuffle(c)
        qp.append(f'QP T {scl(c)}')
    qpa = run_impl(qp, timeout_case=60 if tier == 'quick' else 120)
    for q, a in zip(qp, qpa):
        if a is None or a.startswith('TIMEOUT') or a.startswith('<missing>'):
            R.hist['proof_timeouts'] = R.hist.get('proof_timeouts', 0) + 1
            continue
        R.case(q, True, 'pieces' + q[3])
        if a != 'OK':
            name = {'S': 'H_simplify', 'M': 'H_merge', 'T': 'H_trivial'}[q[3]]
            R.violation(f'proof-layer/helper-spec/{name}', f'helper spec {name} of Taut/Glue.v fails at run time: {a} (input {q})',
                        {'input': q, 'got': a})
    R.hist['oracle_cases'] = n_oracle

    # mismatching helper-conclusion cases: execute the helper's proof and compare with its spec (concrete failing input)
    if mismatches:
        conv = {'SC': 'QP S ', 'TC': 'QP T ', 'MC': 'QP M '}
        qx = [conv[m[0].split()[0]] + m[0].split(' ', 1)[1] for m in mismatches if m[0].split()[0] in conv][:16]
        for q, a in zip(qx, run_impl(qx, timeout_case=120) if qx else []):
            if a and a.startswith(('BAD', 'ERR')) and not a.startswith('ERR RecursionError'):
                name = {'S': 'H_simplify', 'M': 'H_merge', 'T': 'H_trivial'}[q[3]]
                R.violation(f'proof-layer/helper-spec/{name}', f'helper spec {name} fails at run time: {a} (input {q})',
                            {'input': q, 'got': a})
    # bigger oracle budget when something broke
    if proof_broken or mismatches:
        rng = C.rng_for(seed, CID + ':search')
        extra = [rand_form(rng, rng.choice([3, 4]), rng.choice([3, 4]), 1) for _ in range(800 if tier == 'quick' else 6000)]
        ans = run_impl(['O ' + f for f in extra])
        for f, a in zip(extra, ans):
            if a and len(a) == 3 and a[0] != a[2]:
                R.violation(f'prove_tautology/verdict/{a[0]}->{a[2]}', f'truth table says {a[0]}, prover says {a[2]} (input {f})',
                            {'input': 'O ' + f, 'got': a})

    # 4. broken proof / correspondence without failing input
    if proof_broken and not R.violations:
        R.violation('proof-broken', 'Coq proof stage failed',
                    {'no_failing_input_found': True, 'theorem_or_correspondence': f'Props/{CID}.v', 'log': P['log'][-3000:]})
    if mismatches and not R.violations:
        R.violation('correspondence-broken', 'model and implementation disagree',
                    {'no_failing_input_found': True, 'theorem_or_correspondence': 'correspondence Taut/Model.v vs tautology.py',
                     'first_mismatches': [list(m) for m in mismatches[:5]]})
    elif mismatches:
        R.notes.append({'correspondence_mismatches': len(mismatches), 'first': [list(m) for m in mismatches[:3]]})

    R.coverage['rule'] = ('P: formula over {bot, top, v0..v3, ->, not, and, or, equiv} (exhaustive by node count over 3 variables, '
                          'then seeded samples); non-trivial = pipeline reaches propag_neg/CNF/resolution (not decided by constant folding). '
                          'N/C/L: random ConjForm trees (well-shaped and malformed); non-trivial = no exception. '
                          'R: random clause lists; non-trivial = at least two non-trivial distinct clauses enter the loop. '
                          'V/S: resolvable / simplify_clause calls. Q: proofs executed under StatefulInterpreter. '
                          'Compared per case: expansion, every stage output, final clause list, hint dictionary, build result, verdict.')
    return R.finish(level='proof', extra={'coqchk': coqchk} if coqchk else None, trusted_base=C.TRUSTED_COMMON + [
        'translators/taut_verdict.py (Python-ast, fail closed): regenerates coq/Gen/TautVerdict.v from the current tautology.py on every run; '
        'PROJECTION: proof objects (ProofThunk values, proof-only statements, build_proof_from_hint / prove_trivial_clause) are dropped; '
        'coq/Taut/GenPrelude.v fixes the reading of the Python data model (expanded patterns, ConjForm objects, frozensets, dicts, list iteration)',
        'ocaml/taut_driver.ml (parser/printer of the line protocol)',
        'harness/impl/taut_runner.py: spies on resolution_algorithm/build_proof_from_hint by subclassing (no change to behaviour)',
        'fuel: model functions to_cnf/res_loop/build_term take explicit fuel; theorems exclude the out-of-fuel result; the driver uses 200000',
    ])


def replay(path):
    d = json.load(open(path))
    rp = d.get('replay', d)
    line = rp.get('input')
    print(json.dumps(d, indent=1)[:3000])
    if not line:
        return 0
    ok, log, mlref = build_model()
    print('implementation :', run_impl([line], timeout_case=120)[0])
    if ok and line.split()[0] in ('P', 'N', 'C', 'L', 'R', 'V', 'S', 'MC', 'SC', 'TC', 'OM'):
        print('model (sound)  :', C.run_lines(mlref, [line])[0])
        print('model (pinned) :', C.run_lines(mlref, [line], args=('--pinned',))[0])
    if line[0] in 'PQO':
        print('truth table    :', classify(line[2:]))
    return 0

"""Helpers shared by c14.py / c04.py / c03.py: building the extracted model, running both sides of the
request grammar, parsing answers."""
from __future__ import annotations

import os
import re
import subprocess

import common as C
import interp_gen as G

RUNNER = 'interp_runner.py'


def build_model():
    return C.build_mlref('interp', 'Extract/ExtractInterp.v', 'interp_model', 'interp_driver.ml', 'mlref_interp',
                         ['Interp/Calls.vo', 'Interp/Module.vo'])


def run_impl(lines, chunks=None):
    """run request lines through the real code (parallel chunks); returns list of answer lines"""
    if not lines:
        return []
    chunks = chunks or min(C.NCPU, max(1, len(lines) // 150))
    n = (len(lines) + chunks - 1) // chunks
    parts = [lines[i:i + n] for i in range(0, len(lines), n)]
    from concurrent.futures import ThreadPoolExecutor

    def one(part):
        env = {**os.environ, **C.py_env('0', False)}
        env['PYTHONPATH'] = os.path.join(C.VERIF, 'harness', 'impl') + os.pathsep + env['PYTHONPATH']
        p = subprocess.run([C.PY, os.path.join(C.VERIF, 'harness', 'impl', RUNNER)], input='\n'.join(part) + '\n',
                           capture_output=True, text=True, timeout=900, env=env)
        out = p.stdout.split('\n')
        if out and out[-1] == '':
            out.pop()
        if len(out) != len(part):
            out += ['CRASH runner died: ' + p.stderr[-300:].replace('\n', ' // ')] * (len(part) - len(out))
        return out

    with ThreadPoolExecutor(max_workers=len(parts)) as ex:
        outs = list(ex.map(one, parts))
    return [x for o in outs for x in o]


def run_model(exe, lines):
    if not lines:
        return []
    out = C.run_lines_parallel(exe, lines)
    if len(out) != len(lines):
        out += ['<missing>'] * (len(lines) - len(out))
    return out


XRE = re.compile(r' X\[(.*?)\] K\[(.*?)\]$')
KRE = re.compile(r' K\[(.*?)\]$')


def split_impl(ans):
    """-> (body without X/K, expanded calls text or None, exception kind)"""
    m = XRE.search(ans)
    if m:
        return ans[:m.start()], m.group(1), m.group(2)
    m = KRE.search(ans)
    if m:
        return ans[:m.start()], None, m.group(1)
    return ans, None, ''


HEAD = re.compile(r'^(OK|REJECT (\d+)) tbl\[(.*?)\] G\[(.*?)\] C\[(.*?)\] P\[(.*?)\] ([GCP]) S\[(.*?)\] M\[(.*?)\] C\[(.*?)\]')


def parse_ser(body):
    """parse the head of a SER/TRACE answer"""
    m = HEAD.match(body)
    if not m:
        return None
    tbl = [] if m.group(3) in ('-', '') else m.group(3).split(',')
    return dict(ok=m.group(1) == 'OK', fail=int(m.group(2)) if m.group(2) else None, tbl=tbl,
                G=m.group(4), C=m.group(5), P=m.group(6), phase=m.group(7),
                S=m.group(8), M=m.group(9), Cl=m.group(10), head=m.group(0))


REC = re.compile(r'([GCP]) S\[(.*?)\] M\[(.*?)\] C\[(.*?)\](?: R\[(.*?)\])? n=(\d+)(?: w=(\d+) m=(.*))?$')


def parse_records(body):
    """records of a TRACE answer -> list of dicts"""
    parts = body.split(' | ')[1:]
    out = []
    for p in parts:
        m = REC.match(p.strip())
        if not m:
            out.append(None)
            continue
        out.append(dict(phase=m.group(1), S=m.group(2), M=m.group(3), Cl=m.group(4), marks=m.group(5),
                        n=int(m.group(6)), w=int(m.group(7)) if m.group(7) is not None else None, mach=m.group(8),
                        tracker=f'{m.group(1)} S[{m.group(2)}] M[{m.group(3)}] C[{m.group(4)}]'))
    return out


def rename(p, f):
    t = p[0]
    if t == 'y':
        return ('y', f(p[1]))
    if t in ('i', 'a'):
        return (t, rename(p[1], f), rename(p[2], f))
    if t in ('x', 'm'):
        return (t, p[1], rename(p[2], f))
    if t in ('E', 'S'):
        return (t, rename(p[1], f), p[2], rename(p[3], f))
    return p


def numbering(tbl):
    idx = {int(n): i for i, n in enumerate(tbl)}
    return lambda name: idx.get(name, len(tbl))


def claims_txt(claims):
    return ';'.join(G.show(c) for c in claims) if claims else '-'


def call_name(c):
    return c.split(':')[0]


def build_rust():
    """scratch copy of the CURRENT lib.rs + harness/rust/interp_harness.rs -> line-protocol binary
    (requests: X <G|C|P> hexG hexC hexP = state after the files up to that phase; V g c p = verify)"""
    d = C.scratch_dir('pi2rsI.')
    lib = open(os.path.join(C.REPO, 'rust', 'src', 'lib.rs')).read()
    har = open(os.path.join(C.VERIF, 'harness', 'rust', 'interp_harness.rs')).read()
    with open(os.path.join(d, 'lib.rs'), 'w') as f:
        f.write(lib + '\n' + har)
    base = 'rustc +stable --edition 2021 -O --cap-lints allow'
    rc, o, e = C.sh(f'{base} --crate-type rlib --crate-name checker lib.rs', cwd=d, timeout=300)
    if rc != 0:
        return None, 'rlib: ' + e[-3000:]
    rc, o, e = C.sh(f'{base} --extern checker=libchecker.rlib -L . {C.VERIF}/harness/rust/interp_main.rs -o rsinterp',
                    cwd=d, timeout=300)
    if rc != 0:
        return None, 'rsinterp: ' + e[-3000:]
    return os.path.join(d, 'rsinterp'), ''


HEADLESS = re.compile(r'^S\[(.*?)\] M\[(.*?)\] C\[(.*?)\]$')


def regen_gen():
    """regenerate coq/Gen/PySerial.v from the CURRENT instruction.py / serializing_interpreter.py /
    deserialize.py with translators/py_serial.py (fail closed) -> (ok, message)"""
    import sys
    tdir = os.path.join(C.VERIF, 'translators')
    if tdir not in sys.path:
        sys.path.insert(0, tdir)
    try:
        import importlib
        import py_serial
        importlib.reload(py_serial)
        text = py_serial.generate(C.REPO)
        C.write_if_changed(os.path.join(C.COQ, 'Gen', 'PySerial.v'), text)
        return True, ''
    except SystemExit as e:
        return False, str(e)
    except Exception as e:  # noqa: BLE001
        return False, f'py_serial: {e!r}'


def proof_stage_with_translation(R):
    """regenerate, then the usual proof stage; a translator that fails closed breaks the proof stage"""
    ok_tr, msg = regen_gen()
    P = R.proof_stage()
    if not ok_tr:
        P['ok'] = False
        P['log'] = 'translator failed closed: ' + msg
        P['discharged'] = 0      # nothing is proved about the current source
    return P


TRANSLATOR_TRUST = ('translators/py_serial.py (Python-ast, fail closed): instruction.py enum, every method of '
                    'SerializingInterpreter and the dispatch loop of deserialize_instructions are translated statement by '
                    'statement into coq/Gen/PySerial.v on every run; coq/Interp/SerialLib.v gives the meaning of the Python '
                    'primitives it maps onto (bytes([...]) range check, dict, len/sum/reversed/keys, list.index, stack '
                    'peeks, zip strict, dict(...)); the three byte readers and the loop head are compared with a reference '
                    'AST (alpha-normalised) instead of being translated')

"""Regenerate the defects table inside DESIGN.md (between the FINDINGS markers) from KNOWN_FINDINGS.json."""
import json, os, subprocess
V = os.path.dirname(os.path.dirname(os.path.abspath(__file__)))
items = json.load(open(os.path.join(V, 'KNOWN_FINDINGS.json')))['findings']
cl = lambda s, n: ' '.join(str(s).split())[:n].replace('|', '/')
fixed = [k for k in items if k.get('kind') == 'fixed']
found = [k for k in items if k.get('kind') == 'finding']
seen = {}
for k in fixed:
    seen.setdefault(k.get('commit', '?')[:7], []).append(k)
rows = ['### 0.3 Genuine defects of the pinned tree: repaired (`fix:` commits in /repo) and recorded (known findings)', '',
        'Generated from `KNOWN_FINDINGS.json` (= merge of `known_findings/*.json`). A `fixed` entry suppresses nothing; a `finding` entry suppresses exactly the violation with its `signature`. '
        'Ids are local to a property (builders numbered independently: e.g. "D16" denotes different defects under C05, C12 and C16).', '',
        '**Repaired (%d commits):**' % len(seen), '', '| commit | properties | what failed |', '|---|---|---|']
log = subprocess.run(['git', '-C', '/repo', 'log', '--format=%h %s', '0facd6a..HEAD'], capture_output=True, text=True).stdout.strip().split('\n')
subj = {l.split()[0][:7]: ' '.join(l.split()[1:]) for l in log if l}
for c, ks in seen.items():
    rows.append('| %s | %s | %s |' % (c, ', '.join(sorted({k['property'] + ':' + str(k.get('id')) for k in ks})), cl(subj.get(c, '') + ' — ' + ks[0].get('what', ''), 300)))
unlisted = [c for c in subj if c not in seen]
if unlisted:
    rows.append('')
    rows.append('Fix commits not referenced by a `fixed` entry (listed for completeness): ' + ', '.join('%s (%s)' % (c, cl(subj[c], 80)) for c in unlisted))
rows += ['', '**Recorded as known findings (%d signatures):**' % len(found), '', '| property | id | signature | what fails |', '|---|---|---|---|']
for k in sorted(found, key=lambda k: (k['property'], str(k.get('id')))):
    rows.append('| %s | %s | `%s` | %s |' % (k['property'], k.get('id'), cl(k['signature'], 90), cl(k.get('what', ''), 260)))
p = os.path.join(V, 'DESIGN.md')
s = open(p).read()
b, e = '<!-- FINDINGS-BEGIN -->', '<!-- FINDINGS-END -->'
block = b + '\n' + '\n'.join(rows) + '\n' + e
if b in s:
    s = s[:s.index(b)] + block + s[s.index(e) + len(e):]
else:
    marker = '<!-- SEEDED-BEGIN -->'
    s = s.replace(marker, block + '\n\n' + marker, 1)
open(p, 'w').write(s)
print(len(seen), 'fix commits,', len(found), 'findings,', len(unlisted), 'unlisted fix commits:', unlisted)

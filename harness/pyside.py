"""Shared machinery of the Py checks (C06-Python, C07, C11-Python, C12, C13, C19): builds the extracted model
(ocaml/mlref_py), reflects the shipped notation table, runs request batches on the model and on the
implementation (harness/impl/pat_runner.py), knows the model's defect flags and which configuration the
tree is expected to implement."""
from __future__ import annotations

import json
import os
import subprocess
from concurrent.futures import ThreadPoolExecutor

import common as C
import pycodec as PC
import pygen as G

FLAGS = ['f_fresh_simplify', 'f_inst_extend', 'f_mv_keep_subst', 'f_match_list_none', 'f_assert_none',
         'f_match_simplify']
FLAG_DEFECT = {'f_fresh_simplify': 'D3', 'f_inst_extend': 'D5', 'f_mv_keep_subst': 'D9d',
               'f_match_list_none': 'D4a', 'f_assert_none': 'D4b', 'f_match_simplify': 'D4c'}
SOUND = {f: True for f in FLAGS}
PINNED = {f: False for f in FLAGS}
MY_PROPS = ('C06', 'C07', 'C11', 'C12', 'C13', 'C19')


def flagstr(cfg):
    return ''.join('1' if cfg[f] else '0' for f in FLAGS)


def expected_config():
    """sound, except the flags whose defect is recorded as an (unrepaired) finding (entries carrying a "flag"
    field).  The per-property fragments known_findings/*.json are the authority; the merged KNOWN_FINDINGS.json is
    only consulted for flags no fragment mentions (it may lag behind the fragments)."""
    cfg = dict(SOUND)
    kd = os.path.join(C.VERIF, 'known_findings')
    frag_paths = [os.path.join(kd, f) for f in sorted(os.listdir(kd)) if f.endswith('.json')] if os.path.isdir(kd) else []

    def entries(paths):
        for path in paths:
            try:
                data = json.load(open(path))
            except (FileNotFoundError, ValueError):
                continue
            for k in data.get('findings', []):
                if k.get('flag') in cfg:
                    yield k
    mentioned = set()
    for k in entries(frag_paths):
        mentioned.add(k['flag'])
        if k.get('kind') == 'finding':
            cfg[k['flag']] = False
    for k in entries([os.path.join(C.VERIF, 'KNOWN_FINDINGS.json')]):
        if k['flag'] not in mentioned and k.get('kind') == 'finding':
            cfg[k['flag']] = False
    return cfg


def build_model():
    ok, log, exe = C.build_mlref('py', 'Extract/ExtractPy.v', 'py_model', 'py_driver.ml', 'mlref_py',
                                 ['Py/Pattern.vo', 'Py/Pretty.vo', 'Py/Serial.vo'])
    if not ok:
        raise RuntimeError('mlref_py build failed:\n' + log)
    return exe


def reflect():
    """notation table of the current tree by runtime reflection"""
    p = subprocess.run([C.PY, os.path.join(C.VERIF, 'harness', 'impl', 'notation_reflect.py')],
                       capture_output=True, text=True, timeout=120, env={**os.environ, **C.py_env('0')})
    if p.returncode != 0:
        raise RuntimeError('notation_reflect failed:\n' + p.stderr[-3000:])
    return json.loads(p.stdout)


def _chunks(xs, n):
    k = max(1, (len(xs) + n - 1) // n)
    return [xs[i:i + k] for i in range(0, len(xs), k)]


BRACE_SYMS = {200: '{0}', 201: '{1}', 202: '}{', 203: '{', 204: '}', 205: '{{0}}', 206: '{2}',
              # names that differ only in white space (Kore domain values become Symbol(str(value)) verbatim)
              210: 'hello  world', 211: 'hello world', 212: ' hello world', 213: 'hello world ', 214: 'hello\tworld'}
TAB_SYMS = (214,)       # not used where Python's repr() is rendered (the model covers printable strings only)


class Sides:
    """reqs are (op, args) pairs; args is the token string after the flags field"""

    def __init__(self, with_notations=True):
        self.exe = build_model()
        self.reflect = reflect() if with_notations else {'symtab': {}, 'notations': []}
        self.symtab = self.reflect['symtab']
        self.shipped = G.shipped_notations(self.reflect)
        self.pre_model, self.pre_impl = [], []
        for name, i in sorted(self.symtab.items(), key=lambda kv: kv[1]):
            line = f'SYM {i} {len(name)} ' + ' '.join(str(ord(c)) for c in name)
            self.pre_model.append(line)
            self.pre_impl.append(line)
        # symbols whose names look like format placeholders (symbol names are arbitrary strings)
        for i, name in BRACE_SYMS.items():
            line = f'SYM {i} {len(name)} ' + ' '.join(str(ord(c)) for c in name)
            self.pre_model.append(line)
            self.pre_impl.append(line)
        self.not_ids = {}
        self.notn_by_id = {}
        for j, nt in enumerate(self.shipped):
            self.register(nt, j)

    def register(self, nt, j):
        """make notation nt known under id j to both sides (pretty-printing requests refer to ids)"""
        self.not_ids[id(nt)] = j
        self.notn_by_id[j] = nt
        nt.nid = j
        if nt.chunks is not None:
            self.pre_model.append(f'NOT {j} ' + ' '.join(nt.toks()))
        if nt.expr is not None:
            self.pre_impl.append(f'NOTREF {j} {nt.expr}')
        elif nt.chunks is not None:
            self.pre_impl.append(f'NOT {j} ' + ' '.join(nt.toks()))

    def _run(self, cmd, pre, lines, env=None, par=C.NCPU):
        if not lines:
            return []
        parts = _chunks(lines, par if len(lines) >= 400 else 1)

        def one(part):
            p = subprocess.run(cmd, input='\n'.join(pre + part) + '\n', capture_output=True, text=True,
                               timeout=1500, env=env)
            out = p.stdout.split('\n')
            if out and out[-1] == '':
                out.pop()
            out = out[len(pre):]
            if len(out) != len(part):
                out = out + [f'<missing rc={p.returncode} {p.stderr[-300:]!r}>'] * (len(part) - len(out))
            return out
        with ThreadPoolExecutor(max_workers=len(parts)) as ex:
            outs = list(ex.map(one, parts))
        return [x for o in outs for x in o]

    def model(self, reqs, cfg):
        fs = flagstr(cfg)
        return self._run([self.exe], self.pre_model, [f'{op} {fs} {args}' for op, args in reqs])

    def impl(self, reqs):
        env = {**os.environ, **C.py_env('0')}
        return self._run([C.PY, os.path.join(C.VERIF, 'harness', 'impl', 'pat_runner.py')], self.pre_impl,
                         [f'{op} - {args}' for op, args in reqs], env=env)

    def detect_config(self):
        """which flag configuration does the implementation exhibit on the refutation witnesses?"""
        cfg = {}
        for fl, (req, sound_ans, pinned_ans) in WITNESS.items():
            got = self.impl([req])[0]
            cfg[fl] = True if got == sound_ans else (False if got == pinned_ans else None)
        return cfg


phi0, phi1 = PC.mv(0), PC.mv(1)
bot_t = ('I', ('m', 0, ('s', 0)), ())
neg_def = ('i', phi0, bot_t)


def neg_t(a):
    return ('I', neg_def, ((0, a),))


and_def = neg_t(('i', phi0, neg_t(phi1)))


def and_t(a, b):
    return ('I', and_def, ((0, a), (1, b)))


# one distinguishing request per flag: (request, answer of the repaired code, answer of the pinned code)
WITNESS = {
    'f_fresh_simplify': (('FR', PC.show(and_t(('e', 1), ('e', 2))) + ' 1'), '0', '1'),
    'f_inst_extend': (('I', PC.show(('I', ('i', phi0, phi1), ((0, ('e', 7)),))) + ' ' + PC.showd(((1, phi0),))),
                      PC.show(('I', ('i', phi0, phi1), ((0, ('e', 7)), (1, phi0)))),
                      PC.show(('I', ('i', phi0, phi0), ((0, ('e', 7)),)))),
    'f_mv_keep_subst': (('ES', PC.show(PC.mv(0, ef=(1,))) + ' 1 ' + PC.show(('e', 2))),
                        PC.show(('E', PC.mv(0, ef=(1,)), 1, ('e', 2))), PC.show(PC.mv(0, ef=(1,)))),
    'f_match_list_none': (('ML', '1 ' + PC.show(('e', 0)) + ' ' + PC.show(('e', 0))), '0', 'NONE'),
    'f_assert_none': (('NA', ' '.join(PC.notation_toks(0, ('m', 0, ('s', 0)), [('L', 'bot')])) + ' ' + PC.show(bot_t)),
                      '0', 'RAISE'),
    'f_match_simplify': (('MS', PC.show(('I', phi0, ((0, phi1),))) + ' ' + PC.show(('e', 3)) + ' 0'),
                         '1 1 e 3', 'NONE'),
}


def explain(sides, pred_reqs, verdict, cfg):
    """Which single defect flag explains an oracle failure?  `pred_reqs` are model requests, `verdict(answers)`
    says whether the property holds on the model's answers.  Returns the first flag (in FLAGS order) that is
    off in cfg and whose repair alone makes the property hold in the model; 'multi' if only the fully sound
    model satisfies it; None if even the sound model violates it."""
    for fl in FLAGS:
        if cfg[fl]:
            continue
        c2 = dict(cfg)
        c2[fl] = True
        if verdict(sides.model(pred_reqs, c2)):
            return fl
    if verdict(sides.model(pred_reqs, SOUND)):
        return 'multi'
    return None


# ------------------------------------------------------------------------------------------------
# transparency oracles: a request (op, args) plus what the property says its answer must be
# ------------------------------------------------------------------------------------------------

class Case:
    """spec(drop) = value the property demands (computed with the reference functions of pygen on full
    expansions); post(answer, drop) = canonical value of an answer line.  `drop` = whether the tree's
    MetaVar.apply_esubst drops substitutions on declared-fresh variables (the notation-free semantics the
    expansion is taken in)."""
    __slots__ = ('op', 'args', 'spec', 'post', 'kind', 'nontrivial', 'terms')

    def __init__(self, op, args, spec, post, kind, nontrivial, terms):
        self.op, self.args, self.spec, self.post = op, args, spec, post
        self.kind, self.nontrivial, self.terms = kind, nontrivial, terms

    @property
    def req(self):
        return (self.op, self.args)


class BadAnswer(Exception):
    pass


def _bool(ans, drop):
    if ans not in ('0', '1'):
        raise BadAnswer(ans)
    return ans == '1'


def _term(ans):
    try:
        r = PC.Reader(ans)
        t = r.term()
        if not r.done():
            raise BadAnswer(ans)
        return t
    except (ValueError, IndexError):
        raise BadAnswer(ans)


def _read_notation(r, nots):
    """(arity, definition) of an inline notation or of `#id` (looked up in nots: id -> pygen.Notn)"""
    if r.a[r.i].startswith('#'):
        nt = nots[int(r.next()[1:])]
        return nt.arity, nt.definition
    ar = r.int()
    d = r.term()
    PC.read_chunks(r)
    return ar, d


def _seqmatch(eqs, drop):
    E = G.ref_expand
    m = {}
    for p, i in eqs:
        m = G.ref_match(E(p, drop), E(i, drop), m)
        if m is None:
            return None
    return m


def make_case(op, args, nots=None):
    """build the oracle for a request from its text (so that replay files need only op and args)"""
    E = G.ref_expand
    r = PC.Reader(args)
    if op == 'HIST':
        subs = []
        for _ in range(r.int()):
            kind = r.next()
            start = r.i
            if kind == 'MS':
                r.term()
                r.term()
                r.delta()
            else:
                for _j in range(r.int()):
                    r.term()
                    r.term()
            subs.append(make_case(kind, ' '.join(r.a[start:r.i])))

        def post(ans, drop):
            parts = [x.strip() for x in ans.split(' | ')]
            if len(parts) != len(subs):
                raise BadAnswer(ans)        # includes the ALIASED marker of the runner
            return tuple(c.post(a, drop) for c, a in zip(subs, parts))
        return Case(op, args, lambda drop: tuple(c.spec(drop) for c in subs), post, 'match-history', True,
                    tuple(t for c in subs for t in c.terms))
    if op in ('ML', 'MLI'):
        eqs = []
        for _ in range(r.int()):
            p = r.term()
            eqs.append((p, r.term()))
        nontriv = any(PC.has_kind(p, 'v') for p, _ in eqs) or not eqs
        terms = tuple(t for e in eqs for t in e)
        if op == 'MLI':
            return Case(op, args, lambda drop: 'NONE' if _seqmatch(eqs, drop) is None else '1',
                        lambda ans, drop: ans, 'match-list-rebuild', True, terms)

        def spec(drop):
            m = _seqmatch(eqs, drop)
            return None if m is None else tuple(m.items())

        def post(ans, drop):
            if ans == 'NONE':
                return None
            try:
                rr = PC.Reader(ans)
                d = rr.delta()
                if not rr.done():
                    raise BadAnswer(ans)
                return tuple((k, E(v, drop)) for k, v in d)
            except (ValueError, IndexError):
                raise BadAnswer(ans)
        return Case(op, args, spec, post, 'match-list', True, terms)
    if op == 'MSI':
        p = r.term()
        i = r.term()
        seed = r.delta()
        return Case(op, args,
                    lambda drop: 'NONE' if G.ref_match(E(p, drop), E(i, drop), {k: E(v, drop) for k, v in seed}) is None else '1',
                    lambda ans, drop: ans, 'match-rebuild', True, (p, i))
    if op == 'RT':
        ar, d = _read_notation(r, nots)
        targs = r.tuple()

        def spec(drop):
            ed = E(d, drop)
            if not G.subst_free(ed):
                return ('skip',)
            if len(targs) != ar:
                return 'RAISE'
            mvs = G.ref_metavars(ed)
            return (True, tuple(E(a, drop) if j in mvs else None for j, a in enumerate(targs)))

        def post(ans, drop):
            ed = E(d, drop)
            if not G.subst_free(ed):
                return ('skip',)
            if ans == 'RAISE':
                return 'RAISE'
            try:
                rr = PC.Reader(ans)
                b = rr.next()
                res = rr.tuple()
                if not rr.done() or b not in '01':
                    raise BadAnswer(ans)
            except (ValueError, IndexError):
                raise BadAnswer(ans)
            mvs = G.ref_metavars(ed)
            return (b == '1', tuple(E(a, drop) if j in mvs else None for j, a in enumerate(res)))
        return Case(op, args, spec, post, 'roundtrip', True, targs)
    if op in ('NM', 'NA'):
        ar, d = _read_notation(r, nots)
        t = r.term()

        def spec(drop):
            m = G.ref_match(E(d, drop), E(t, drop), {})
            if m is None:
                return None
            return tuple(m[j] if j in m else PC.mv(j) for j in range(ar))

        def post(ans, drop):
            if ans in ('NONE', 'RAISE'):
                return None
            try:
                rr = PC.Reader(ans)
                res = rr.tuple()
                if not rr.done():
                    raise BadAnswer(ans)
                return tuple(E(a, drop) for a in res)
            except (ValueError, IndexError):
                raise BadAnswer(ans)
        return Case(op, args, spec, post, 'notation-match', True, (t,))
    if op == 'EQ':
        a, b = r.term(), r.term()
        return Case(op, args, lambda drop: E(a, drop) == E(b, drop), _bool, 'eq', PC.has_kind(a, 'I') or PC.has_kind(b, 'I'), (a, b))
    if op == 'FR':
        p = r.term()
        x = r.int()
        return Case(op, args, lambda drop: G.ref_fresh(E(p, drop), x), _bool, 'fresh', PC.has_kind(p, 'I'), (p,))
    if op == 'MV':
        p = r.term()

        def post(ans, drop):
            if not ans.startswith('MV'):
                raise BadAnswer(ans)
            return frozenset(int(x) for x in ans.split()[1:])
        return Case(op, args, lambda drop: frozenset(G.ref_metavars(E(p, drop))), post, 'metavars', PC.has_kind(p, 'I'), (p,))
    if op in ('MP', 'MPS', 'MPX'):
        l, rr = r.term(), r.term()

        def spec(drop):
            e = E(l, drop)
            if e[0] == 'i' and e[1] == E(rr, drop):
                return e[2]
            return 'RAISE'
        return Case(op, args, spec, lambda ans, drop: 'RAISE' if ans == 'RAISE' else E(_term(ans), drop),
                    'modus-ponens', True, (l, rr))
    if op in ('GEN', 'GENS'):
        c = r.term()
        x = r.int()

        def spec(drop):
            e = E(c, drop)
            if e[0] == 'i' and G.ref_fresh(e[2], x):
                return ('i', ('x', x, e[1]), e[2])
            return 'RAISE'
        return Case(op, args, spec, lambda ans, drop: 'RAISE' if ans == 'RAISE' else E(_term(ans), drop),
                    'generalization', True, (c,))
    if op in ('I', 'BI', 'BIS'):
        p = r.term()
        d = r.delta()
        return Case(op, args, lambda drop: G.ref_inst(E(p, drop), {k: E(v, drop) for k, v in d}, drop),
                    lambda ans, drop: E(_term(ans), drop), 'inst', PC.has_kind(p, 'I') and len(d) > 0, (p,))
    if op in ('ES', 'SS'):
        p = r.term()
        x = r.int()
        g = r.term()
        fn = G.ref_esubst if op == 'ES' else G.ref_ssubst
        return Case(op, args, lambda drop: fn(E(p, drop), x, E(g, drop), drop),
                    lambda ans, drop: E(_term(ans), drop), 'subst', PC.has_kind(p, 'I'), (p, g))
    if op in ('UW', 'UE'):
        code = r.int()
        p = r.term()
        CODE = {'e': 0, 's': 1, 'y': 2, 'i': 3, 'a': 4, 'x': 5, 'm': 6, 'v': 7, 'E': 8, 'S': 9}
        miss = None if op == 'UW' else 'RAISE'

        def spec(drop):
            e = E(p, drop)
            if code != 11 and code != CODE[e[0]]:
                return miss
            k = e[0]
            if k in 'ia':
                return (e[1], e[2])
            if k in 'xm':
                return (e[2],)
            if k in 'ES':
                return (e[1], e[3], ('e' if k == 'E' else 's', e[2]))
            return ()

        def post(ans, drop):
            if ans in ('NONE', 'RAISE'):
                return None if ans == 'NONE' else 'RAISE'
            try:
                rr = PC.Reader(ans)
                res = rr.tuple()
                if not rr.done():
                    raise BadAnswer(ans)
                return tuple(E(a, drop) for a in res)
            except (ValueError, IndexError):
                raise BadAnswer(ans)
        return Case(op, args, spec, post, 'unwrap-any-class', p[0] == 'I', (p,))
    if op in ('DN', 'DNP'):
        ts = [r.term()] + ([r.term()] if op == 'DNP' else [])

        def spine(e):
            args = []
            while e[0] == 'a':
                args.append(e[2])
                e = e[1]
            return (e, tuple(reversed(args)))

        def one(ans, drop):
            try:
                rr = PC.Reader(ans)
                if rr.next() != 'H':
                    raise BadAnswer(ans)
                h = rr.term()
                args = rr.tuple()
                if not rr.done():
                    raise BadAnswer(ans)
                return (E(h, drop), tuple(E(a, drop) for a in args))
            except (ValueError, IndexError):
                raise BadAnswer(ans)
        return Case(op, args, lambda drop: tuple(spine(E(t, drop)) for t in ts),
                    lambda ans, drop: tuple(one(part.strip(), drop) for part in ans.split(' | ')),
                    'nary-spine', True, tuple(ts))
    if op in ('SIMP', 'HNF'):
        p = r.term()
        return Case(op, args, lambda drop: E(p, drop), lambda ans, drop: E(_term(ans), drop), 'simplify',
                    p[0] == 'I', (p,))
    if op in ('UI', 'UA', 'DX', 'DM', 'DE', 'DS', 'DY'):
        p = r.term()
        head = {'UI': 'i', 'UA': 'a', 'DX': 'x', 'DM': 'm', 'DE': 'e', 'DS': 's', 'DY': 'y'}[op]

        def spec(drop):
            e = E(p, drop)
            if e[0] != head:
                return None
            return tuple(e[1:])

        def post(ans, drop):
            if ans == 'NONE':
                return None
            try:
                rr = PC.Reader(ans)
                if op in ('UI', 'UA'):
                    out = (E(rr.term(), drop), E(rr.term(), drop))
                elif op in ('DX', 'DM'):
                    out = (rr.int(), E(rr.term(), drop))
                else:
                    out = (rr.int(),)
                if not rr.done():
                    raise BadAnswer(ans)
                return out
            except (ValueError, IndexError):
                raise BadAnswer(ans)
        return Case(op, args, spec, post, 'destructure', p[0] == 'I', (p,))
    if op == 'MS':
        p = r.term()
        i = r.term()
        seed = r.delta()

        def spec(drop):
            m = G.ref_match(E(p, drop), E(i, drop), {k: E(v, drop) for k, v in seed})
            return None if m is None else tuple(m.items())

        def post(ans, drop):
            if ans == 'NONE':
                return None
            try:
                rr = PC.Reader(ans)
                d = rr.delta()
                if not rr.done():
                    raise BadAnswer(ans)
                return tuple((k, E(v, drop)) for k, v in d)
            except (ValueError, IndexError):
                raise BadAnswer(ans)
        return Case(op, args, spec, post, 'match', PC.has_kind(p, 'I') or PC.has_kind(i, 'I'), (p, i))
    raise ValueError(f'no oracle for {op}')


def _targets_and_constraints(t, se, ss, cons):
    k = t[0]
    if k == 'v':
        cons.append((set(t[2]), set(t[3])))
    elif k in 'ia':
        _targets_and_constraints(t[1], se, ss, cons)
        _targets_and_constraints(t[2], se, ss, cons)
    elif k in 'xm':
        _targets_and_constraints(t[2], se, ss, cons)
    elif k in 'ES':
        (se if k == 'E' else ss).add(t[2])
        _targets_and_constraints(t[1], se, ss, cons)
        _targets_and_constraints(t[3], se, ss, cons)
    elif k == 'I':
        _targets_and_constraints(t[1], se, ss, cons)
        for _, v in t[2]:
            _targets_and_constraints(v, se, ss, cons)


def corner_free_inputs(terms, evars=(), svars=()):
    """Py/Bridge.v [corner_free se ss] for all inputs of an operation, with se/ss = every ESubst/SSubst target of
    the inputs plus the operation's own variables: no metavariable declares one of them e_fresh / s_fresh"""
    se, ss, cons = set(evars), set(svars), []
    for t in terms:
        _targets_and_constraints(t, se, ss, cons)
    return all(not (ef & se) and not (sf & ss) for ef, sf in cons)


def case_inputs(op, args, nots=None):
    """(input terms, element variables substituted by the operation, set variables substituted by the operation)"""
    r = PC.Reader(args)
    if op in ('EQ', 'MP', 'MPS', 'MPX'):
        return [r.term(), r.term()], (), ()
    if op in ('FR', 'GEN', 'GENS', 'MV', 'SIMP', 'HNF', 'UI', 'UA', 'DE', 'DS', 'DY', 'DX', 'DM', 'DN'):
        return [r.term()], (), ()
    if op == 'DNP':
        return [r.term(), r.term()], (), ()
    if op in ('UW', 'UE'):
        r.int()
        return [r.term()], (), ()
    if op in ('I', 'BI', 'BIS'):
        p = r.term()
        return [p] + [v for _, v in r.delta()], (), ()
    if op in ('ES', 'SS'):
        p = r.term()
        x = r.int()
        return [p, r.term()], ((x,) if op == 'ES' else ()), ((x,) if op == 'SS' else ())
    if op in ('MS', 'MSI'):
        p = r.term()
        i = r.term()
        return [p, i] + [v for _, v in r.delta()], (), ()
    if op in ('ML', 'MLI'):
        out = []
        for _ in range(r.int()):
            out += [r.term(), r.term()]
        return out, (), ()
    if op == 'HIST':
        out = []
        for _ in range(r.int()):
            if r.next() == 'MS':
                out += [r.term(), r.term()] + [v for _, v in r.delta()]
            else:
                for _j in range(r.int()):
                    out += [r.term(), r.term()]
        return out, (), ()
    if op == 'RT':
        _, d = _read_notation(r, nots)
        return [d] + list(r.tuple()), (), ()
    if op in ('NM', 'NA'):
        _, d = _read_notation(r, nots)
        return [d, r.term()], (), ()
    raise ValueError(op)


def bridge_cross_check(R, sides, cases, cfg, model_answers, nots=None):
    """runtime cross-check of Py/Bridge.v: on corner-free inputs the model in the configuration of the current
    code and the model in the sound configuration give the same answer line.  Returns the disagreements."""
    if cfg == SOUND:
        return []
    idx = []
    for j, c in enumerate(cases):
        try:
            terms, ev, sv = case_inputs(c.op, c.args, nots)
        except (ValueError, KeyError, IndexError):
            continue
        if corner_free_inputs(terms, ev, sv):
            idx.append(j)
    R.hist['bridge:corner-free'] = R.hist.get('bridge:corner-free', 0) + len(idx)
    R.hist['bridge:not-corner-free'] = R.hist.get('bridge:not-corner-free', 0) + len(cases) - len(idx)
    sound = sides.model([cases[j].req for j in idx], SOUND)
    bad = []
    for j, a in zip(idx, sound):
        if a != model_answers[j]:
            bad.append(dict(op='BRIDGE:' + cases[j].op, args=cases[j].args, model=model_answers[j], impl='flags_sound model: ' + a))
    return bad


def check_cases(R, sides, cases, cfg, cid, sigfun=None, kindfun=None):
    """tie (model in configuration cfg vs implementation, literal answer lines) and property oracle on the
    implementation.  Returns (mismatches, failures); failures are classified by the defect flag that explains
    them (pyside.explain logic, batched) and reported through R.violation."""
    reqs = [c.req for c in cases]
    impl = sides.impl(reqs)
    model = sides.model(reqs, cfg)
    drop = not cfg['f_mv_keep_subst']
    mismatches, failing = [], []
    mismatches += bridge_cross_check(R, sides, cases, cfg, model, getattr(sides, 'notn_by_id', None))
    for c, m, i in zip(cases, model, impl):
        R.case((c.op, c.args), c.nontrivial, kindfun(c, i) if kindfun else f'{c.op}')
        if m != i:
            mismatches.append(dict(op=c.op, args=c.args, model=m, impl=i))
        try:
            got = c.post(i, drop)
            ok = (got == c.spec(drop))
        except BadAnswer:
            got, ok = i, False
        R.hist[f'{c.op}:{"holds" if ok else "fails"}'] = R.hist.get(f'{c.op}:{"holds" if ok else "fails"}', 0) + 1
        if not ok:
            failing.append((c, i, got))
    # classify the failures: which single repair makes the model satisfy the property on this input?
    sigs = {}
    if failing:
        explained = [None] * len(failing)
        freqs = [c.req for c, _, _ in failing]
        off = [fl for fl in FLAGS if not cfg[fl]]
        # (a) one repair alone; (b) repairs accumulated in FLAGS order (attributed to the last one needed)
        # (0) the model in the expected configuration already satisfies the property on this input: the
        #     implementation deviates from the model, no recorded defect explains it;
        # (a) one repair alone; (b) repairs accumulated in FLAGS order (attributed to the last one needed)
        trials = [(set(), 'implementation-deviates')]
        trials += [({fl}, fl) for fl in off] + [(set(off[:k + 1]), off[k]) for k in range(1, len(off))]
        trials.append((set(FLAGS), 'sound-only'))
        for on, label in trials:
            todo = [j for j in range(len(failing)) if explained[j] is None]
            if not todo:
                break
            c2 = dict(cfg)
            for fl in on:
                c2[fl] = True
            d2 = not c2['f_mv_keep_subst']
            ans = sides.model([freqs[j] for j in todo], c2)
            for j, a in zip(todo, ans):
                c = failing[j][0]
                try:
                    if c.post(a, d2) == c.spec(d2):
                        explained[j] = label
                except BadAnswer:
                    pass
        for (c, i, got), fl in zip(failing, explained):
            if sigfun is not None:
                sig = sigfun(c, i, got, fl, drop)
            else:
                sig = None
            if sig is None:
                sig = f'{cid}:{FLAG_DEFECT[fl]}:{fl}' if fl in FLAG_DEFECT else f'{cid}:{c.op}:{fl or "unexplained"}'
            if sig not in sigs:
                sigs[sig] = (c, i, got)
            R.hist['fail:' + sig] = R.hist.get('fail:' + sig, 0) + 1
        for sig, (c, i, got) in sigs.items():
            R.violation(sig, f'{c.op} on a pattern and on its expansion disagree (implementation answer {i[:200]!r})',
                        dict(op=c.op, args=c.args, implementation=i, expected=repr(c.spec(drop))[:2000],
                             got=repr(got)[:2000], drop_semantics=drop))
    return mismatches, failing


def regen_pypattern():
    """regenerate coq/Gen/PyPattern.v from the CURRENT pattern.py / basic_interpreter.py (translators/pypattern.py,
    fail closed).  Returns (ok, message, changed)."""
    import sys
    sys.path.insert(0, os.path.join(C.VERIF, 'translators'))
    import pypattern
    path = os.path.join(C.COQ, 'Gen', 'PyPattern.v')
    try:
        text = pypattern.generate(C.REPO)
    except SystemExit as e:
        # never leave a stale table behind: the file must not satisfy the agreement proofs
        changed = C.write_if_changed(path, '(* translation failed: ' + str(e)[:300].replace('*)', '* )').replace('(*', '( *')
                                     + ' *)\nTranslation failed.\n')
        return False, str(e), changed
    except Exception as e:  # noqa: BLE001
        return False, f'pypattern: {e!r}', False
    return True, '', C.write_if_changed(path, text)


def proof_stage(R):
    """regenerate Gen/PyPattern.v, then R.proof_stage() with the discharged count corrected when the build failed (a
    stale Props/Cxx.vo from an earlier successful build must not be counted)"""
    ok_tr, msg, _ = regen_pypattern()
    P = R.proof_stage()
    if not ok_tr:
        P['ok'] = False
        P['log'] = 'translator translators/pypattern.py failed closed: ' + msg + '\n' + P.get('log', '')[-2000:]
        R.notes.append('translator failed closed: ' + msg)
    if not P['ok']:
        P['discharged'] = max(0, min(P['discharged'], P['obligations']) - len(P['theorems']))
    return P


def check_in_batches(R, sides, cfg, cid, first_cases, gen_fn, total, batch=40000, **kw):
    """corpus cases first, then `total` generated cases in batches (bounded memory); gen_fn(k) -> list of k cases.
    Returns (mismatches (at most 50 kept), number of oracle failures, number of mismatches)"""
    mism, nfail, nmis = [], 0, 0
    pending = list(first_cases)
    done = 0
    while True:
        k = min(batch, total - done)
        if k > 0:
            pending += gen_fn(k)
            done += k
        if not pending:
            break
        m, f = check_cases(R, sides, pending, cfg, cid, **kw)
        nmis += len(m)
        nfail += len(f)
        mism += m[:max(0, 50 - len(mism))]
        pending = []
        if done >= total:
            break
    return mism, nfail, nmis


def drop_stale_known(R, cids):
    """the per-property fragments known_findings/<Cxx>.json are the authority for these properties: an entry they
    record as "fixed" must not be suppressed by a stale copy in the merged KNOWN_FINDINGS.json"""
    fixed = set()
    for cid in cids:
        try:
            for k in json.load(open(os.path.join(C.VERIF, 'known_findings', f'{cid}.json'))).get('findings', []):
                if k.get('kind') == 'fixed':
                    fixed.add(k['signature'])
        except (FileNotFoundError, ValueError):
            pass
    R.known = [k for k in R.known if k['signature'] not in fixed]

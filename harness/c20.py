"""C20 -- K execution traces become chained, checkable rewrite proofs.

proof stage : coq/Props/C20.v (model coq/K/Kore.v, Exec.v; proofs KoreProofs.v, ExecProofs.v)
tie stage   : extracted model (ocaml/mlref_k) vs the real LanguageSemantics / get_proof_hints /
              ExecutionProofExp (harness/impl/kore_runner.py, through the pyk shim) on generated
              signatures, rules, ground substitutions and traces; every produced module is serialised by
              the real SerializingInterpreter and verified by the real Rust checker.
oracle      : independent of the model: each claim must equal the real conversion of the rule with
              the substitution applied at the KORE level by this file, consecutive claims must chain
              (checked on the printed expansion by a parser of this file), accepted/refused must agree
              with what the construction of the trace implies.
"""
import json
import os
import sys

import common as C

CID = 'C20'
HERE = os.path.dirname(os.path.abspath(__file__))


# ------------------------------------------------------------------------------------------------
# Kore terms on the harness side: ('E', name, sort) | ('N', op, [sorts], [args]); sort = ('v'|'a', name)
# ------------------------------------------------------------------------------------------------

def hx(s):
    b = s.encode('utf-8')
    return b.hex() if b else '-'


def tok_sort(s):
    return f'{s[0]} {hx(s[1])}'


def tok_op(op):
    if isinstance(op, tuple):
        return f'{op[0]}:{hx(op[1])}'
    return op


def tok(k):
    if k[0] == 'E':
        return f'E {hx(k[1])} {tok_sort(k[2])}'
    _, op, ss, args = k
    return ' '.join(['N', tok_op(op), str(len(ss))] + [tok_sort(s) for s in ss] + [str(len(args))] + [tok(a) for a in args])


def tok_sig(sig):
    sorts, syms = sig
    out = [str(len(sorts))] + [hx(s) for s in sorts] + [str(len(syms))]
    for y in syms:
        out += [hx(y['name']), str(y['npar']), str(y['narg']), str(int(y['fn'])), str(int(y['cell'])), str(int(y['ctor']))]
    return ' '.join(out)


def tok_item(it):
    if it[0] == 'R':
        return ' '.join(['R', str(it[1]), str(len(it[2]))] + [f'{hx(x)} {tok(v)}' for x, v in it[2]])
    if it[0] == 'C':
        return 'C ' + tok(it[1])
    return 'O'


def gen_line(case):
    cmd = 'GEN2' if case.get('two') else 'GEN'
    return ' '.join([cmd, tok_sig(case['sig']), str(len(case['axioms']))] + [tok(a) for a in case['axioms']]
                    + [tok(case['init']), str(len(case['items']))] + [tok_item(i) for i in case['items']])


def conv_line(sig, k):
    return f'CONV {tok_sig(sig)} {tok(k)}'


def app(f, args=(), sorts=()):
    return ('N', ('app', f), list(sorts), list(args))


def ksubst(theta, k):
    """textbook substitution of element variables by name (values are ground: no capture)"""
    if k[0] == 'E':
        return theta.get(k[1], k)
    _, op, ss, args = k
    if op == 'ex':
        inner = {x: v for x, v in theta.items() if x != args[0][1]}
        return ('N', op, ss, [args[0], ksubst(inner, args[1])])
    return ('N', op, ss, [ksubst(theta, a) for a in args])


def evars(k, acc=None):
    acc = [] if acc is None else acc
    if k[0] == 'E':
        if k[1] not in acc:
            acc.append(k[1])
    else:
        for a in k[3]:
            evars(a, acc)
    return acc


def kmatch(pat, term, theta):
    """first-order matching of a rule side against a ground term"""
    if pat[0] == 'E':
        if pat[1] in theta:
            return theta if theta[pat[1]] == term else None
        theta[pat[1]] = term
        return theta
    if term[0] != 'N' or pat[1] != term[1] or pat[2] != term[2] or len(pat[3]) != len(term[3]):
        return None
    for a, b in zip(pat[3], term[3]):
        if kmatch(a, b, theta) is None:
            return None
    return theta


def size(k):
    return 1 if k[0] == 'E' else 1 + sum(size(a) for a in k[3])


# ------------------------------------------------------------------------------------------------
# generators
# ------------------------------------------------------------------------------------------------

SORT_POOL = ['SortTop', 'SortK', 'SortFoo', 'SortBar', 'SortInt', 'S', 'ksym_S', 'Sórt']
SYM_POOL = ['a', 'b', 'c', 'd', 'f', 'g', 'h', 'top', 'k', 'inj', 'dotk', 'pair', 'node', 'ksym_a', 'σ', 'x y']


def gen_sig(rng):
    sorts = rng.sample(SORT_POOL, rng.randint(1, 4))
    names = rng.sample(SYM_POOL, rng.randint(4, 9))
    syms = []
    # always at least two functional constants and one functional unary symbol, so that ground
    # functional terms exist
    shapes = [(0, 0), (0, 0), (0, 1)] + [(rng.choice([0, 0, 0, 1, 2]), rng.choice([0, 1, 1, 2, 3])) for _ in names[3:]]
    for i, (n, (npar, narg)) in enumerate(zip(names, shapes)):
        syms.append(dict(name=n, npar=npar, narg=narg, fn=(i < 3 or rng.random() < 0.75),
                         cell=rng.random() < 0.2, ctor=rng.random() < 0.5))
    if rng.random() < 0.5:
        syms.append(dict(name='kseq', npar=0, narg=2, fn=True, cell=False, ctor=True))
    rng.shuffle(syms)
    return sorts, syms


def gen_sortapp(rng, sig):
    return ('a', rng.choice(sig[0]))


def gen_ground(rng, sig, depth, functional_head=False, only_app=False):
    """ground term: applications, with a few domain values / connectives inside"""
    sorts, syms = sig
    r = rng.random()
    if not functional_head and not only_app and depth <= 2 and r < 0.08:
        return ('N', ('dv', rng.choice(['0', '1', '42', 'ksym_a', 'héllo', ''])), [gen_sortapp(rng, sig)], [])
    if not functional_head and not only_app and r < 0.12:
        s = gen_sortapp(rng, sig)
        op = rng.choice(['top', 'bot', 'not', 'and', 'or', 'next'])
        if op in ('top', 'bot'):
            return ('N', op, [s], [])
        if op in ('not', 'next'):
            return ('N', op, [s], [gen_ground(rng, sig, depth - 1)])
        return ('N', op, [s], [gen_ground(rng, sig, depth - 1), gen_ground(rng, sig, depth - 1)])
    cands = [y for y in syms if (y['fn'] and y['name'] != 'kseq') or not functional_head]
    if depth <= 0:
        cands = [y for y in cands if y['narg'] == 0] or cands
    y = rng.choice(cands)
    ss = [gen_sortapp(rng, sig) for _ in range(y['npar'])]
    args = [gen_ground(rng, sig, depth - 1, only_app=only_app) for _ in range(y['narg'])] if depth > -3 else []
    if len(args) != y['narg']:
        args = [app(next(z['name'] for z in syms if z['narg'] == 0 and z['npar'] == 0)) for _ in range(y['narg'])]
    return app(y['name'], args, ss)


def subterm_paths(k, path=()):
    yield path, k
    if k[0] == 'N':
        for i, a in enumerate(k[3]):
            yield from subterm_paths(a, path + (i,))


def replace_at(k, path, new):
    if not path:
        return new
    _, op, ss, args = k
    args = list(args)
    args[path[0]] = replace_at(args[path[0]], path[1:], new)
    return ('N', op, ss, args)


def functional_headed(sig, k):
    if k[0] != 'N' or not isinstance(k[1], tuple) or k[1][0] != 'app' or k[1][1] == 'kseq':
        return False
    y = next((z for z in sig[1] if z['name'] == k[1][1]), None)
    return bool(y and y['fn'])


def abstract(rng, sig, cur, fresh, vsort=None):
    """anti-unify: replace some functional-headed proper subterms of `cur` by fresh variables"""
    theta = {}
    lhs = cur
    # substitution values must be GROUND (the property's quantifier; a value with a variable would extend the rule's
    # cached scope and put a metavariable under functional(.), which the checker rejects -- notes/C20.md)
    paths = [(p, t) for p, t in subterm_paths(cur) if p and functional_headed(sig, t) and not evars(t)]
    rng.shuffle(paths)
    for p, t in paths[:rng.choice([0, 1, 1, 2, 2, 3])]:
        # the path must still exist and hold the same subterm
        node = lhs
        ok = True
        for i in p:
            if node[0] != 'N' or i >= len(node[3]):
                ok = False
                break
            node = node[3][i]
        if not ok or node != t:
            continue
        same = [y for y, v in theta.items() if v == t]
        if same and rng.random() < 0.7:
            x = same[0]                        # non-linear left-hand side: the same variable twice
        else:
            x = fresh()
            theta[x] = t
        lhs = replace_at(lhs, p, ('E', x, vsort(x) if vsort else gen_sortapp(rng, sig)))
    return lhs, theta


def gen_rhs(rng, sig, xs, depth, top=True, vsort=None):
    """term over the variables xs"""
    vsort = vsort or (lambda x: gen_sortapp(rng, sig))
    if top and rng.random() < 0.04:
        # an existential on the right-hand side (fresh ?-variable of a K rule): the bound variable joins the
        # rule's scope and is left uninstantiated by the trace
        v = ('E', 'Fresh', vsort('Fresh'))
        return ('N', 'ex', [v[2], gen_sortapp(rng, sig)], [v, gen_rhs(rng, sig, xs + ['Fresh'], depth, top=False, vsort=vsort)])
    if xs and rng.random() < 0.35:
        x = rng.choice(xs)
        return ('E', x, vsort(x))
    sorts, syms = sig
    cands = syms if depth > 0 else ([y for y in syms if y['narg'] == 0] or syms)
    y = rng.choice(cands)
    ss = [gen_sortapp(rng, sig) for _ in range(y['npar'])]
    if depth <= -2:
        args = [app(next(z['name'] for z in syms if z['narg'] == 0 and z['npar'] == 0)) for _ in range(y['narg'])]
    else:
        args = [gen_rhs(rng, sig, xs, depth - 1, top=False, vsort=vsort) for _ in range(y['narg'])]
    return app(y['name'], args, ss)


def rule_axiom(rng, sig, s, lhs, rhs):
    side = lambda: rng.choice([('N', 'top', [s], []), ('N', 'top', [gen_sortapp(rng, sig)], []),
                               ('N', 'eq', [s, s], [app('nonexistent'), ('E', 'SideVar', s)])])
    return ('N', 'rw', [s], [('N', 'and', [s], [lhs, side()]), ('N', 'and', [s], [rhs, side()])])


def other_axiom(rng, sig):
    s = gen_sortapp(rng, sig)
    g = lambda: gen_ground(rng, sig, 1, only_app=True)
    r = rng.random()
    if r < 0.4:   # equational rule
        return 'eq', ('N', 'imp', [s], [('N', 'top', [s], []), ('N', 'eq', [s, s], [g(), ('N', 'and', [s], [g(), ('N', 'top', [s], [])])])])
    if r < 0.55:  # equational: And containing an Equals
        return 'eq', ('N', 'imp', [s], [('N', 'top', [s], []), ('N', 'and', [s], [('N', 'eq', [s, s], [g(), g()]), ('N', 'top', [s], [])])])
    if r < 0.75:  # rewrites without the And/And shape: neither -> ordinal consumed, never converted
        return 'other', ('N', 'rw', [s], [g(), app('not-even-declared')])
    return 'other', rng.choice([('N', 'top', [s], []), ('N', 'imp', [s], [g(), g()]), ('N', 'un1', [s], [g()])])


def gen_trace_case(rng, idx):
    """a definition, an initial configuration and an LLVM-style trace; plus what the construction implies"""
    sig = gen_sig(rng)
    # variable names recur from rule to rule (as in K-generated definitions), one sort per name, unique within a rule
    pool = ['X', 'Y', 'Var', 'K', 'Rest', 'Vé', 'X1', 'X2']
    used = set()
    vs = {}

    def fresh():
        cands = [v for v in pool if v not in used]
        x = rng.choice(cands) if cands else 'V%d' % len(used)
        used.add(x)
        return x

    def vsort(x):
        if x not in vs:
            vs[x] = gen_sortapp(rng, sig)
        return vs[x]

    s = gen_sortapp(rng, sig)
    if rng.random() < 0.1:
        s = ('v', 'SRule')                      # sort-parametric rule (sort variable -> metavariable 100)
    n = rng.choice([0, 1, 1, 2, 2, 3, 3, 4, 5, 6, 7, 8])
    axioms, kinds, rules = [], [], {}           # rules: ordinal -> (lhs, rhs)
    steps = []                                   # (ordinal, theta(list of pairs), config_after)
    cur = gen_ground(rng, sig, rng.randint(1, 3), functional_head=True, only_app=rng.random() < 0.8)
    init = cur
    for _ in range(rng.randint(0, 2)):
        kind, ax = other_axiom(rng, sig)
        axioms.append(ax)
        kinds.append(kind)
    cyc = rng.random() < 0.12 and n >= 3
    for i in range(n):
        use = None
        cands = list(rules.items())
        rng.shuffle(cands)
        if cyc or rng.random() < 0.3:
            for o, (l, r) in cands:
                th = kmatch(l, cur, {})
                if th is not None and set(evars(r)) <= set(th) and not any(evars(v) for v in th.values()):
                    use = (o, th)
                    break
        if use is None:
            if cyc and i == 1:
                lhs, th = cur, {}
                rhs = init                      # b -> a : closes the cycle a -> b -> a -> b ...
            else:
                used.clear()
                lhs, th = abstract(rng, sig, cur, fresh, vsort)
                rhs = gen_rhs(rng, sig, list(th), rng.randint(0, 2), vsort=vsort)
            o = len(axioms)
            axioms.append(rule_axiom(rng, sig, s, lhs, rhs))
            kinds.append('rw')
            rules[o] = (lhs, rhs)
            use = (o, th)
            if rng.random() < 0.25:
                kind, ax = other_axiom(rng, sig)
                axioms.append(ax)
                kinds.append(kind)
        o, th = use
        order = list(th.items())
        rng.shuffle(order)
        nxt = ksubst(th, rules[o][1])
        steps.append([o, order, nxt])
        cur = nxt
    case = dict(idx=idx, sig=sig, axioms=axioms, kinds=kinds, init=init, mutation='none',
                two=rng.random() < 0.25)
    # ---- deliberate perturbations
    r = rng.random()
    mut = 'none'
    if steps and r < 0.6:
        j = rng.randrange(len(steps))
        o, order, nxt = steps[j]
        choice = rng.choice(['wrong-value', 'wrong-value', 'wrong-rule', 'drop-step', 'swap', 'init', 'unknown-var',
                             'missing-var', 'nonfunctional-value', 'dv-value', 'equational', 'unknown-ordinal',
                             'noise-other', 'config-lie', 'dup-key', 'extra-config'])
        mut = choice
        if choice == 'wrong-value' and order:
            k = rng.randrange(len(order))
            new = gen_ground(rng, sig, 1, functional_head=True, only_app=True)
            if new == order[k][1]:
                mut = 'none'
            order[k] = (order[k][0], new)
        elif choice == 'wrong-rule' and len(rules) > 1:
            steps[j][0] = rng.choice([x for x in rules if x != o])
        elif choice == 'drop-step' and len(steps) > 1:
            del steps[j]
        elif choice == 'swap' and len(steps) > 1:
            k = (j + 1) % len(steps)
            steps[j], steps[k] = steps[k], steps[j]
        elif choice == 'init':
            case['init'] = gen_ground(rng, sig, 2, functional_head=True, only_app=True)
        elif choice == 'unknown-var':
            order.append(('Unknown', gen_ground(rng, sig, 0, functional_head=True, only_app=True)))
        elif choice == 'missing-var' and order:
            del order[rng.randrange(len(order))]
        elif choice == 'nonfunctional-value' and order:
            nf = [y for y in sig[1] if not y['fn'] or y['name'] == 'kseq']
            if nf:
                y = rng.choice(nf)
                v = app(y['name'], [gen_ground(rng, sig, 0, only_app=True) for _ in range(y['narg'])],
                        [gen_sortapp(rng, sig) for _ in range(y['npar'])])
                order[rng.randrange(len(order))] = (order[0][0], v)
            else:
                mut = 'none'
        elif choice == 'dv-value' and order:
            k = rng.randrange(len(order))
            order[k] = (order[k][0], ('N', ('dv', '7'), [gen_sortapp(rng, sig)], []))
        elif choice == 'equational' and 'eq' in kinds:
            steps[j][0] = kinds.index('eq')
        elif choice == 'unknown-ordinal':
            steps[j][0] = len(axioms) + rng.randint(0, 3) if rng.random() < 0.5 else (kinds.index('other') if 'other' in kinds else len(axioms))
        elif choice == 'config-lie':
            steps[j][2] = gen_ground(rng, sig, 1, only_app=True)
        elif choice == 'dup-key' and order:
            # duplicate key in the substitution tuple: dict() keeps the first position, the last value
            k = rng.randrange(len(order))
            order.insert(0, (order[k][0], gen_ground(rng, sig, 0, functional_head=True, only_app=True)))
        elif choice in ('noise-other', 'extra-config'):
            pass
        else:
            mut = 'none'
    case['mutation'] = mut
    items = []
    for j, (o, order, nxt) in enumerate(steps):
        items.append(('R', o, order))
        if mut == 'noise-other' and rng.random() < 0.4:
            items.append(('O',))
        items.append(('C', nxt))
        if mut == 'extra-config' and rng.random() < 0.4:
            items.append(('C', gen_ground(rng, sig, 1, only_app=True)))
        if mut == 'noise-other' and rng.random() < 0.3:
            items.append(('O',))
    if rng.random() < 0.05:
        items.insert(0, ('C', init))
    case['items'] = items
    case['rules'] = rules
    return case


def gen_shared_case(rng, idx):
    """Several rules that SHARE NON-GROUND application subterms, the shared variables at different first-occurrence
    positions: rule 0 is  C[extras.., D0] => D0,  rule i is  D(i-1) => Di  with Di over the variables of D(i-1); the
    trace applies them in turn with one ground substitution, so it chains by construction.  The axioms appear in the
    definition in a random order (ordinals follow), so rule i may be converted before or after rule i-1: conversion of
    an axiom must not depend on which axioms the same LanguageSemantics converted before."""
    sig = gen_sig(rng)
    sorts, syms = sig
    for name, narg in (('sh1', 1), ('sh2', 2), ('sh3', 3)):
        syms.append(dict(name=name, npar=0, narg=narg, fn=True, cell=rng.random() < 0.2, ctor=True))
    rng.shuffle(syms)
    const = next(z['name'] for z in syms if z['narg'] == 0 and z['npar'] == 0 and z['fn'])
    V = rng.sample(['X', 'Y', 'Z', 'W', 'K'], rng.randint(2, 4))
    vs = {v: gen_sortapp(rng, sig) for v in V}

    def var(v):
        return ('E', v, vs[v])

    def term_over(xs, depth):
        for _ in range(20):
            name, narg = rng.choice([('sh1', 1), ('sh2', 2), ('sh2', 2), ('sh3', 3)])
            args = []
            for _ in range(narg):
                r = rng.random()
                if depth > 0 and r < 0.35:
                    args.append(term_over(xs, depth - 1))
                elif r < 0.88:
                    args.append(var(rng.choice(xs)))
                else:
                    args.append(app(const))
            t = app(name, args)
            if evars(t):
                return t
        return app('sh1', [var(xs[0])])

    n = rng.randint(2, 5)
    inner = rng.sample(V, rng.randint(1, len(V)))
    D = [term_over(inner, rng.randint(0, 2))]
    extras = [var(v) for v in rng.sample(V, rng.randint(1, min(2, len(V))))]
    ctx_args = extras + [D[0]]
    if rng.random() < 0.3:
        rng.shuffle(ctx_args)
    rules_lr = [(app('sh%d' % len(ctx_args), ctx_args), D[0])]
    for i in range(1, n):
        xs = evars(D[i - 1])
        xs = list(reversed(xs)) if rng.random() < 0.6 else rng.sample(xs, len(xs))
        D.append(term_over(xs, rng.randint(0, 1)))
        rules_lr.append((D[i - 1], D[i]))
    theta0 = {v: gen_ground(rng, sig, rng.randint(0, 1), functional_head=True, only_app=True) for v in V}
    s = gen_sortapp(rng, sig)
    # axioms in a random order, other axioms interleaved
    pos = list(range(n))
    rng.shuffle(pos)
    slots = [('rw', i) for i in pos]
    for _ in range(rng.randint(0, 2)):
        slots.insert(rng.randint(0, len(slots)), ('other', None))
    axioms, kinds, rules, ordinal = [], [], {}, {}
    for kind, i in slots:
        if kind == 'rw':
            ordinal[i] = len(axioms)
            rules[len(axioms)] = rules_lr[i]
            axioms.append(rule_axiom(rng, sig, s, rules_lr[i][0], rules_lr[i][1]))
            kinds.append('rw')
        else:
            k2, ax = other_axiom(rng, sig)
            axioms.append(ax)
            kinds.append(k2)
    init = ksubst(theta0, rules_lr[0][0])
    items = []
    for i in range(n):
        th = [(x, theta0[x]) for x in evars(rules_lr[i][0])]
        rng.shuffle(th)
        items.append(('R', ordinal[i], th))
        items.append(('C', ksubst(theta0, rules_lr[i][1])))
    return dict(idx=idx, sig=sig, axioms=axioms, kinds=kinds, init=init, items=items, rules=rules,
                mutation='shared-subterms', two=rng.random() < 0.25)


def gen_long_case(rng, idx, n=None):
    """A LONG valid trace that keeps re-using one substitution: rules u(X)=>v(X), v(X)=>u(X) applied n times on u(c),
    then a third rule used for the first time at the very end.  The module has 4 own axioms whatever n is (the
    functional assumption of `c` and the three rules), so every Load index stays small; the serialisation must exist and
    be accepted.  Cheap: three rules, tiny patterns."""
    n = n or rng.choice([300, 300, 260, 340])
    n -= n % 2
    names = rng.sample(['c', 'f', 'g', 'h', 'u', 'v', 'w', 'k'], 4)
    cn, fn_, gn, hn = names
    sorts = [rng.choice(SORT_POOL[:6])]
    syms = [dict(name=cn, npar=0, narg=0, fn=True, cell=False, ctor=True)] + \
           [dict(name=x, npar=0, narg=1, fn=True, cell=rng.random() < 0.3, ctor=True) for x in (fn_, gn, hn)]
    rng.shuffle(syms)
    sig = (sorts, syms)
    s = ('a', sorts[0])
    X = ('E', 'X', s)
    c = app(cn)
    rules_lr = [(app(fn_, [X]), app(gn, [X])), (app(gn, [X]), app(fn_, [X])), (app(fn_, [X]), app(hn, [X]))]
    order = [0, 1, 2]
    rng.shuffle(order)
    axioms, kinds, rules, ordinal = [], [], {}, {}
    for i in order:
        ordinal[i] = len(axioms)
        rules[len(axioms)] = rules_lr[i]
        axioms.append(rule_axiom(rng, sig, s, rules_lr[i][0], rules_lr[i][1]))
        kinds.append('rw')
    items = []
    for i in range(n):
        items.append(('R', ordinal[i % 2], [('X', c)]))
        items.append(('C', app(gn if i % 2 == 0 else fn_, [c])))
    items.append(('R', ordinal[2], [('X', c)]))
    items.append(('C', app(hn, [c])))
    return dict(idx=idx, sig=sig, axioms=axioms, kinds=kinds, init=app(fn_, [c]), items=items, rules=rules,
                mutation='long-trace-%d' % (n + 1), two=False)


def krename(k, ren):
    if k[0] == 'E':
        return ('E', ren.get(k[1], k[1]), k[2])
    return ('N', k[1], k[2], [krename(a, ren) for a in k[3]])


def rename_case(case, ren, idx):
    """the same definition and trace with the rule variables renamed (a permutation of the names): valid whenever
    `case` is, but every rule's scope numbers the names differently"""
    c = dict(case)
    c['idx'] = idx
    c['axioms'] = [krename(a, ren) for a in case['axioms']]
    c['rules'] = {o: (krename(l, ren), krename(r, ren)) for o, (l, r) in case['rules'].items()}
    c['items'] = [('R', it[1], [(ren.get(x, x), v) for x, v in it[2]]) if it[0] == 'R' else it for it in case['items']]
    c['mutation'] = case['mutation'] + '/renamed'
    return c


def def_line(ident, case):
    return ' '.join(['DEF2' if case.get('two') else 'DEF', ident, tok_sig(case['sig']), str(len(case['axioms']))]
                    + [tok(a) for a in case['axioms']])


def use_line(ident, case):
    return ' '.join(['USE', ident, tok(case['init']), str(len(case['items']))] + [tok_item(i) for i in case['items']])


def gen_session(rng, sid):
    """2-3 definitions alive in ONE runner process, built and used interleaved (build A, build B, use A, ...): every
    answer must be what the definition gives alone.  B is A with the rule variables permuted, so that the same ordinals
    carry the same names in a different numbering; C is unrelated."""
    a = gen_shared_case(rng, 0)
    names = sorted({x for ax, k in zip(a['axioms'], a['kinds']) if k == 'rw' for x in evars(rule_of_axiom(ax))})
    perm = names[1:] + names[:1] if rng.random() < 0.5 else list(reversed(names))
    b = rename_case(a, dict(zip(names, perm)), 1)
    defs = {'A': a, 'B': b}
    script = [('DEF', 'A'), ('DEF', 'B'), ('USE', 'A'), ('USE', 'B')]
    if rng.random() < 0.5:
        defs['C'] = gen_trace_case(rng, 2) if rng.random() < 0.5 else gen_shared_case(rng, 2)
        script += [('DEF', 'C'), ('USE', 'A'), ('USE', 'C'), ('USE', 'B')]
    if rng.random() < 0.3:
        script += [('DEF', 'A'), ('USE', 'B'), ('USE', 'A')]
    out = []
    for cmd, d in script:
        ident = 's%d%s' % (sid, d)
        out.append((cmd, defs[d], def_line(ident, defs[d]) if cmd == 'DEF' else use_line(ident, defs[d])))
    return out


def rules_line(sig, axioms, two=False):
    return ' '.join(['RULES2' if two else 'RULES', tok_sig(sig), str(len(axioms))] + [tok(a) for a in axioms])


def parse_rules(res):
    """'OK n [o K pat | names | sorts ; ...]' -> {ordinal: 'K pat | names | sorts'}"""
    if not res.startswith('OK '):
        return None
    body = res[res.index('[') + 1:res.rindex(']')].strip()
    out = {}
    for part in (body.split(' ; ') if body else []):
        o, rest = part.split(' ', 1)
        out[int(o)] = rest.strip()
    return out


CONNECTIVES = ['rw', 'and', 'or', 'in', 'not', 'next', 'imp', 'ceil', 'floor', 'iff', 'eq', 'top', 'bot', 'ex', 'dv', 'app', 'var', 'un']
SHAPE = {'rw': (1, 2), 'and': (1, 2), 'or': (1, 2), 'in': (2, 2), 'not': (1, 1), 'next': (1, 1), 'imp': (1, 2), 'ceil': (2, 1),
         'floor': (2, 1), 'iff': (1, 2), 'eq': (2, 2), 'top': (1, 0), 'bot': (1, 0)}


def gen_conv_term(rng, sig, depth, st):
    """arbitrary Kore term for the conversion tie: every constructor, variables with clashing names and
    different sorts, sort variables, binders, malformed stream (unknown names, wrong arities)"""
    sorts, syms = sig

    def srt():
        r = rng.random()
        if r < 0.25:
            return ('v', rng.choice(['S0', 'S1', 'S2', 'X']))
        if r < 0.27 and st['malformed']:
            return ('a', 'UnknownSort')
        return ('a', rng.choice(sorts))

    def var():
        return ('E', rng.choice(st['names']), srt())

    op = rng.choice(CONNECTIVES) if depth > 0 else rng.choice(['var', 'var', 'app', 'top', 'dv', 'bot'])
    if op in ('rw', 'iff', 'eq', 'in', 'floor', 'ceil') and depth > 2:
        op = 'app'
    if op == 'var':
        return var()
    if op == 'un':
        if not st['malformed']:
            return var()
        return ('N', 'un%d' % rng.randint(0, 3), [srt()], [gen_conv_term(rng, sig, depth - 1, st)])
    if op == 'dv':
        return ('N', ('dv', rng.choice(['0', 'abc', 'ksym_a', 'inhabitant', ''])), [srt()], [])
    if op == 'ex':
        v = var()
        return ('N', 'ex', [v[2], srt()], [v, gen_conv_term(rng, sig, depth - 1, st)])
    if op == 'app':
        y = rng.choice(syms)
        name, npar, narg = y['name'], y['npar'], y['narg']
        if st['malformed'] and rng.random() < 0.1:
            r = rng.random()
            if r < 0.4:
                name = 'unknown_symbol'
            elif r < 0.7:
                narg += rng.choice([-1, 1])
            else:
                npar += 1
        narg = max(narg, 0)
        return app(name, [gen_conv_term(rng, sig, depth - 1, st) for _ in range(narg if depth > 0 else min(narg, 1))] if depth > 0 or narg == 0
                   else [var() for _ in range(narg)], [srt() for _ in range(npar)])
    ns, na = SHAPE[op]
    if op in ('and', 'or') and st['malformed'] and rng.random() < 0.1:
        na = rng.choice([0, 1, 3])
    return ('N', op, [srt() for _ in range(ns)], [gen_conv_term(rng, sig, depth - 1, st) for _ in range(na)])


# ------------------------------------------------------------------------------------------------
# independent reading of printed (expanded) patterns, for the oracle
# ------------------------------------------------------------------------------------------------

def parse_prefix(s):
    toks = s.split()
    pos = [0]

    def go():
        t = toks[pos[0]]
        pos[0] += 1
        if t in ('I', 'A'):
            l = go()
            r = go()
            return (t, l, r)
        if t[0] in 'XU':
            return (t, go())
        return t

    tree = go()
    if pos[0] != len(toks):
        raise ValueError('trailing tokens')
    return tree


BOT = ('U0', 's0')
INH = 'y' + hx('inhabitant')
NEXT = 'y' + hx('kore_next')


def split_rewrites(tree):
    """(sort, lhs, rhs) if `tree` is  ((¬(¬lhs ∧ inh·sort)) → next·rhs)  spelled out, else None"""
    try:
        i0, a, b = tree
        assert i0 == 'I'
        an, nxt, rhs = b
        assert an == 'A' and nxt == NEXT
        i1, c, bot1 = a
        assert i1 == 'I' and bot1 == BOT
        i2, d, bot2 = c
        assert i2 == 'I' and bot2 == BOT
        i3, e, f = d
        assert i3 == 'I'
        i4, lhs, bot3 = e
        assert i4 == 'I' and bot3 == BOT
        i5, g, bot4 = f
        assert i5 == 'I' and bot4 == BOT
        a2, inh, srt = g
        assert a2 == 'A' and inh == INH
        return srt, lhs, rhs
    except (ValueError, AssertionError, TypeError):
        return None


def split_list(res, tag):
    """'<tag> n [a ; b ; c]' part of an OK line -> list of strings"""
    i = res.index(f' {tag} ') if not res.startswith(f'{tag} ') else -1
    rest = res[i + 1:]
    head, _, tail = rest.partition('[')
    depth_end = tail.index(']')
    body = tail[:depth_end].strip()
    n = int(head.split()[1])
    parts = [p.strip() for p in body.split(' ; ')] if body else []
    assert n == len(parts), (n, parts)
    return parts


def processed_steps(items):
    """the (rule, config) pairs get_proof_hints looks at: a rule event immediately followed by a config"""
    out = []
    for a, b in zip(items, items[1:]):
        if a[0] == 'R' and b[0] == 'C':
            out.append((a[1], a[2], b[1]))
    return out


def rule_of_axiom(ax):
    """what from_kore_definition keeps of a rewrite axiom"""
    _, op, ss, args = ax
    return ('N', 'rw', ss, [args[0][3][0], args[1][3][0]])


# ------------------------------------------------------------------------------------------------
# HINTS cases: ExecutionProofExp.from_proof_hints on hint objects whose patterns are given directly
# (expanded patterns as prefix trees: leaves 'm3' 'e0' 's0' 'y<hex>', ('I',l,r) ('A',l,r) ('X<n>',p) ('U<n>',p))
# ------------------------------------------------------------------------------------------------

def Y(name):
    return 'y' + hx(name)


def t_neg(p):
    return ('I', p, BOT)


def t_and(a, b):
    return t_neg(('I', a, t_neg(b)))


def t_or(a, b):
    return ('I', t_neg(a), b)


def t_rw(s, l, r, inh=None, nxt=None, bots=(BOT, BOT, BOT, BOT)):
    """kore_rewrites spelled out; the optional arguments produce near misses"""
    inh = INH if inh is None else inh
    nxt = NEXT if nxt is None else nxt
    b1, b2, b3, b4 = bots
    return ('I', ('I', ('I', ('I', ('I', l, b1), ('I', ('A', inh, s), b2)), b3), b4), ('A', nxt, r))


def t_inst(d, t):
    if isinstance(t, str):
        return d.get(int(t[1:]), t) if t[0] == 'm' else t
    return (t[0],) + tuple(t_inst(d, x) for x in t[1:])


def t_str(t):
    return ' '.join(flatten(t))


def t_paths(t, path=()):
    yield path, t
    if not isinstance(t, str):
        for i, x in enumerate(t[1:]):
            yield from t_paths(x, path + (i + 1,))


def t_replace(t, path, new):
    if not path:
        return new
    l = list(t)
    l[path[0]] = t_replace(l[path[0]], path[1:], new)
    return tuple(l)


def t_head(t):
    while not isinstance(t, str) and t[0] == 'A':
        t = t[1]
    return t


def t_functional(sig, t):
    h = t_head(t)
    if not isinstance(h, str) or h[0] != 'y':
        return False
    name = bytes.fromhex(h[1:]).decode('utf-8') if h[1:] != '-' else ''
    if not name.startswith('ksym_'):
        return False
    y = next((z for z in sig[1] if z['name'] == name[5:]), None)
    return bool(y and y['fn'])


def gen_gtree(rng, sig, depth, functional_head=True):
    syms = sig[1]
    cands = [y for y in syms if y['fn'] or not functional_head]
    if depth <= 0:
        cands = [y for y in cands if y['narg'] == 0] or cands
    y = rng.choice(cands)
    t = Y('kore_kseq') if y['name'] == 'kseq' else Y('ksym_' + y['name'])
    for _ in range(y['npar']):
        t = ('A', t, Y('ksort_' + rng.choice(sig[0])))
    for _ in range(y['narg']):
        t = ('A', t, gen_gtree(rng, sig, depth - 1 if depth > -2 else -2, functional_head=depth > -2 and rng.random() < 0.7))
    return t


def gen_hints_case(rng, idx):
    sig = gen_sig(rng)
    n = rng.choice([0, 1, 2, 2, 3, 3, 4, 5, 6, 8])
    srt = rng.choice([Y('ksort_' + sig[0][0]), 'm100', Y('anything')])
    cur = gen_gtree(rng, sig, rng.randint(0, 2))
    before0 = cur
    hints = []          # [before, after, kind, ord, rule, delta(list of pairs)]
    ids = [0, 1, 2, 3, 7, 99, 101, 255]
    for i in range(n):
        theta, lhs = [], cur
        used = set()
        cand = [(p, t) for p, t in t_paths(cur) if p and t_functional(sig, t)]
        rng.shuffle(cand)
        for p, t in cand[:rng.randint(0, 2)]:
            node = lhs
            ok = True
            for j in p:
                if isinstance(node, str) or j >= len(node):
                    ok = False
                    break
                node = node[j]
            if not ok or node != t:
                continue
            k = rng.choice([x for x in ids if x not in used])
            used.add(k)
            theta.append((k, t))
            lhs = t_replace(lhs, p, 'm%d' % k)
        rhs = gen_gtree(rng, sig, rng.randint(0, 2))
        if theta and rng.random() < 0.7:
            ps = [p for p, t in t_paths(rhs) if p and p[-1] == 2]
            if ps:
                rhs = t_replace(rhs, rng.choice(ps), 'm%d' % rng.choice(theta)[0])
            else:
                rhs = 'm%d' % theta[0][0]
        rule = t_rw(srt, lhs, rhs)
        d = dict(theta)
        nxt = t_inst(d, rhs)
        hints.append([cur, nxt, 'R', i, rule, theta])
        cur = nxt
    mut = 'none'
    if hints and rng.random() < 0.55:
        j = rng.randrange(len(hints))
        h = hints[j]
        mut = rng.choice(['near-miss', 'near-miss', 'wrong-delta', 'equational', 'nonfunctional', 'before', 'meta-rule',
                          'extra-delta', 'repeat', 'drop', 'not-a-rewrite', 'after-lie'])
        if mut == 'near-miss':
            _, (_, (_, (_, (_, l, _), _), _), _), (_, _, r) = h[4]
            other = rng.choice([('U1', 's1'), ('U0', 's1'), ('U1', 's0'), Y('bot'), ('I', BOT, BOT)])
            bots = [BOT] * 4
            which = rng.randrange(6)
            if which < 4:
                bots[which] = other
                h[4] = t_rw(srt, l, r, bots=tuple(bots))
            elif which == 4:
                h[4] = t_rw(srt, l, r, inh=Y(rng.choice(['inhabitants', 'kore_next', ''])))
            else:
                h[4] = t_rw(srt, l, r, nxt=Y(rng.choice(['kore-next', 'inhabitant', 'kore_nex'])))
        elif mut == 'wrong-delta' and h[5]:
            k = rng.randrange(len(h[5]))
            new = gen_gtree(rng, sig, 1)
            if new == h[5][k][1]:
                mut = 'none'
            h[5][k] = (h[5][k][0], new)
        elif mut == 'equational':
            h[2] = 'Q'
        elif mut == 'nonfunctional':
            bad = rng.choice(['e3', 's1', 'm42', Y('foo'), Y('kore_kseq'), ('A', Y('kore_dv'), Y('0')), BOT, ('X0', 'e0'),
                              ('A', 'm1', Y('ksym_' + sig[1][0]['name']))])
            nf = [y for y in sig[1] if not y['fn']]
            if nf and rng.random() < 0.5:
                bad = Y('ksym_' + rng.choice(nf)['name'])
            if h[5]:
                h[5][0] = (h[5][0][0], bad)
            else:
                h[5].append((200, bad))
        elif mut == 'before' and j == 0:
            h[0] = gen_gtree(rng, sig, 1)
            if h[0] == before0:
                mut = 'none'
        elif mut == 'meta-rule':
            h[5] = h[5] + [(9, t_inst(dict(h[5]), h[4]))]
            h[4] = 'm9'
        elif mut == 'extra-delta':
            h[5] = h[5] + [(rng.choice([50, 150, 254]), gen_gtree(rng, sig, 1))]
        elif mut == 'repeat':
            hints.insert(j + 1, [h[0], h[1], h[2], h[3], h[4], list(h[5])])
        elif mut == 'drop' and len(hints) > 1:
            del hints[j]
        elif mut == 'not-a-rewrite':
            h[4] = rng.choice(['m0', ('I', h[0], h[1]), t_and(h[0], h[1]), ('A', NEXT, h[1]), Y('ksym_a')])
        elif mut == 'after-lie':
            h[1] = gen_gtree(rng, sig, 1)
        else:
            mut = 'none'
    return dict(idx=idx, sig=sig, hints=hints, mutation=mut)


def hints_line(case):
    out = ['HINTS', tok_sig(case['sig']), str(len(case['hints']))]
    for before, after, kind, o, rule, delta in case['hints']:
        out += [t_str(before), t_str(after), kind, str(o), t_str(rule), str(len(delta))]
        for i, v in delta:
            out += [str(i), t_str(v)]
    return ' '.join(out)


def oracle_hints(case, impl):
    """independent judgement of a HINTS outcome from the hint objects themselves"""
    probs = []
    hs = case['hints']
    exp_claims = [t_str(t_inst(dict(h[5]), h[4])) for h in hs]
    # does the trace chain, are all rules rewriting rules, all values functional?  (reference reading)
    ok, why = True, ''
    cur = hs[0][0] if hs else None
    for h in hs:
        if h[2] != 'R':
            ok, why = False, 'equational rule'
            break
        sp = split_rewrites(t_inst(dict(h[5]), h[4]))
        if sp is None:
            ok, why = False, 'instantiated rule is not a rewrite'
            break
        if sp[1] != cur:
            ok, why = False, 'step does not start from the current configuration'
            break
        if not all(t_functional(case['sig'], v) for _, v in h[5]):
            ok, why = False, 'substituted value is not an application of a functional symbol'
            break
        cur = sp[2]
    if impl['res'].startswith('OK'):
        claims = split_list(impl['res'], 'C')
        if claims != exp_claims:
            probs.append(('claim-differs-from-instantiated-rule', 'claims are not the instantiated rule patterns of the hints, in order'))
        if split_list(impl['res'], 'P') != claims:
            probs.append(('proofs-do-not-conclude-claims', 'conclusions of proof expressions differ from claims'))
        if not ok:
            probs.append(('bad-trace-accepted', 'hint list accepted although: ' + why))
    elif impl['res'] == 'NONE' and ok:
        probs.append(('chained-trace-refused', 'hint list refused although it chains, uses rewriting rules and functional values: '
                      + impl.get('exc', '')))
    return probs, ('accept' if ok else 'refuse'), why


# ------------------------------------------------------------------------------------------------

def regen_gen():
    """regenerate coq/Gen/KoreConv.v from the CURRENT Python source (translators/kore_conv.py, fail closed)"""
    sys.path.insert(0, os.path.join(C.VERIF, 'translators'))
    import kore_conv
    try:
        text = kore_conv.generate(C.REPO)
        C.write_if_changed(os.path.join(C.COQ, 'Gen', 'KoreConv.v'), text)
        return True, ''
    except SystemExit as e:
        return False, str(e)
    except Exception as e:  # noqa: BLE001
        return False, f'kore_conv: {e!r}'


def build():
    ok, log, exe = C.build_mlref('k', 'Extract/ExtractK.v', 'k_model', 'k_driver.ml', 'mlref_k',
                                 ['K/Kore.vo', 'K/Exec.vo'])
    return ok, log, exe


def setup():
    build()


def run_impl(lines, chunks=None):
    """real implementation, in parallel processes"""
    from concurrent.futures import ThreadPoolExecutor
    chunks = chunks or min(C.NCPU, max(1, len(lines) // 40))
    n = (len(lines) + chunks - 1) // chunks
    parts = [lines[i:i + n] for i in range(0, len(lines), n)]
    errs = []

    def one(part):
        out, err = C.run_py('kore_runner.py', part, shims=True)
        if len(out) != len(part):
            errs.append(err[-2000:])
            out = out + ['{"res": "<missing>"}'] * (len(part) - len(out))
        return out

    with ThreadPoolExecutor(max_workers=chunks) as ex:
        outs = list(ex.map(one, parts))
    res = []
    for o in outs:
        for l in o:
            try:
                res.append(json.loads(l))
            except ValueError:
                res.append({'res': '<garbled>', 'raw': l[:200]})
    return res, errs


def short(s, n=300):
    return s if len(s) <= n else s[:n] + '...'


def oracle_trace(case, impl, conv):
    """Independent judgement of one GEN outcome.  `conv(k)` = printed real conversion of a ground Kore
    term (or None).  Returns list of (signature, description) problems and the expectation."""
    probs = []
    steps = processed_steps(case['items'])
    kinds = case['kinds']
    expect, why = 'accept', ''
    cur = conv(case['init'])
    claims_exp = []
    seen = set()
    for (o, order, _cfg) in steps:
        if o >= len(kinds) or kinds[o] != 'rw':
            expect, why = 'refuse', 'no such rewrite rule'
            break
        rule = rule_of_axiom(case['axioms'][o])
        theta = {}
        for x, v in order:
            theta[x] = v                       # dict(): last value wins
        xs = evars(rule)
        if any(x not in xs for x in theta):
            expect, why = 'refuse', 'substitution names a variable the rule does not have'
            break
        if any(not functional_headed(case['sig'], v) for v in theta.values()):
            expect, why = 'refuse', 'substituted value is not an application of a functional symbol'
            break
        if set(xs) - set(theta):
            expect, why = 'unknown', 'partial substitution'
            break
        inst = ksubst(theta, rule)
        want = conv(inst)
        if want is None or cur is None:
            expect, why = 'unknown', 'reference conversion failed'
            break
        sp = split_rewrites(parse_prefix(want))
        if sp is None:
            expect, why = 'unknown', 'reference claim is not a rewrite'
            break
        _, lhs, rhs = sp
        if lhs != parse_prefix(cur):
            expect, why = 'refuse', 'step does not start from the current configuration'
            break
        seen.add(want)
        claims_exp.append(want)
        cur = ' '.join(flatten(rhs))
    if impl['res'].startswith('OK'):
        claims = split_list(impl['res'], 'C')
        concs = split_list(impl['res'], 'P')
        if concs != claims:
            probs.append(('proofs-do-not-conclude-claims', 'conclusions of proof expressions differ from claims'))
        axs = split_list(impl['res'], 'A')
        if len(set(axs)) != len(axs):
            probs.append(('duplicate-axioms-in-module', 'the module publishes the same axiom more than once (%d axioms, %d distinct): '
                          'every published axiom takes one of the 256 memory slots a Load can address' % (len(axs), len(set(axs)))))
        # chaining, judged on the printed claims only
        prev = conv(case['init'])
        prev = parse_prefix(prev) if prev else None
        for i, c in enumerate(claims):
            sp = split_rewrites(parse_prefix(c))
            if sp is None:
                probs.append(('claim-not-a-rewrite', f'claim {i} is not a kore-rewrites pattern'))
                break
            if prev is not None and sp[1] != prev:
                probs.append(('unchained-trace-accepted', f'claim {i} does not start from the configuration reached before'))
                break
            prev = sp[2]
        if expect == 'accept' and claims != claims_exp:
            probs.append(('claim-differs-from-substituted-rule', 'claims are not the conversions of the Kore-level instantiated rules, in order'))
        if expect == 'refuse' and len(claims) > len(claims_exp):
            probs.append(('bad-trace-accepted', f'trace accepted although: {why}'))
    elif impl['res'] == 'NONE':
        if impl.get('stage') == 'run' and expect == 'accept':
            if len(seen) < len(claims_exp) and impl.get('exc', '').strip() == 'AssertionError:':
                probs.append(('duplicate-claim-refused', 'chained trace refused; the same instantiated rewrite occurs twice in it '
                              '(a cycle): ' + impl.get('exc', '')))
            else:
                probs.append(('chained-trace-refused', 'trace refused although every step is a known rewrite rule applied where '
                              'the previous one ended: ' + impl.get('exc', '')))
    if expect == 'accept' and len(seen) < len(claims_exp):
        why = 'repeats-a-step'
    return probs, expect, why


def flatten(tree):
    if isinstance(tree, str):
        return [tree]
    out = [tree[0]]
    for t in tree[1:]:
        out += flatten(t)
    return out


def run(tier, seed):
    R = C.Report(CID, tier, seed)
    rng = C.rng_for(seed, CID)
    n_tr = 220 if tier == 'quick' else 20000
    n_cv = 500 if tier == 'quick' else 50000
    n_hi = 300 if tier == 'quick' else 25000
    n_sh = 80 if tier == 'quick' else 5000
    n_long = 2 if tier == 'quick' else 12
    n_ses = 30 if tier == 'quick' else 1500

    ok_tr, tr_msg = regen_gen()
    P = R.proof_stage()
    if not ok_tr:
        P['ok'] = False
        P['log'] = 'translator failed closed: ' + tr_msg
        P['discharged'] = 0      # the regenerated functions could not be produced: nothing is proved about the current source
    proof_broken = not P['ok']
    if proof_broken:
        R.notes.append('proof stage: ' + P['log'][-1500:])
    elif tier == 'thorough':
        # independent re-check of the compiled closure by coqchk (reports every axiom it meets)
        rc, o, e = C.sh(f'timeout 900 coqchk -silent -o -Q . Pi2 Pi2.Props.{CID}', cwd=C.COQ, timeout=930)
        summary = (o + e)[-900:]
        R.coverage['coqchk'] = summary
        if rc != 0 or '* Axioms: <none>' not in summary:
            proof_broken = True
            P['log'] = 'coqchk: ' + summary
            R.notes.append('coqchk failed or reported axioms: ' + summary)

    ok, log, mlref = build()
    mismatches = []
    tie_broken = False
    if not ok:
        tie_broken = True
        R.notes.append('model build failed: ' + log[-1500:])

    # ---- cases: corpus first
    cases, conv_cases = [], []
    cdir = os.path.join(HERE, 'corpus', CID)
    corpus_lines = []
    if os.path.isdir(cdir):
        for f in sorted(os.listdir(cdir)):
            if f.endswith('.json'):
                d = json.load(open(os.path.join(cdir, f)))
                corpus_lines.append((f, d))
    for i in range(n_tr):
        cases.append(gen_trace_case(rng, i))
    shared = [gen_shared_case(rng, i) for i in range(n_sh)]
    cases += shared
    cases += [gen_long_case(rng, i, 300 if i == 0 else None) for i in range(n_long)]
    # the same axioms through ONE LanguageSemantics in the given order, in reversed order, and each rewrite axiom alone
    rules_reqs = []          # (case, order(list of original positions), line)
    for c in shared:
        n_ax = len(c['axioms'])
        orders = [list(range(n_ax)), list(reversed(range(n_ax)))]
        perm = list(range(n_ax))
        rng.shuffle(perm)
        orders.append(perm)
        orders += [[k] for k in range(n_ax) if c['kinds'][k] == 'rw']
        for od in orders:
            rules_reqs.append((c, od, rules_line(c['sig'], [c['axioms'][k] for k in od], c['two'] and len(od) > 1)))
    for i in range(n_cv):
        sig = gen_sig(rng)
        st = dict(names=rng.sample(['X', 'Y', 'Z', 'X1', 'Var', 'x'], rng.randint(1, 4)), malformed=rng.random() < 0.3)
        conv_cases.append((sig, gen_conv_term(rng, sig, rng.randint(0, 4), st), st['malformed']))

    hcases = [gen_hints_case(rng, i) for i in range(n_hi)]
    lines = ([d['line'] for _, d in corpus_lines] + [gen_line(c) for c in cases] + [conv_line(s, k) for s, k, _ in conv_cases]
             + [hints_line(c) for c in hcases] + [r[2] for r in rules_reqs])
    impl, errs = run_impl(lines)
    for e in errs:
        R.notes.append('runner stderr: ' + e)
    model = C.run_lines(mlref, lines) if ok else ['<no model>'] * len(lines)
    if len(model) != len(lines):
        model = model + ['<missing>'] * (len(lines) - len(model))

    nc = len(corpus_lines)
    # ---- tie: exact agreement of printed results
    for i, (ln, im, mo) in enumerate(zip(lines, impl, model)):
        if im['res'] != mo:
            mismatches.append(dict(line=ln, impl=short(im['res'], 2000), model=short(mo, 2000), exc=im.get('exc')))
    # ---- corpus expectations (refutation witnesses)
    witness_status = {}
    for (f, d), im in zip(corpus_lines, impl[:nc]):
        witness_status[f] = im['res']
        R.case(('corpus', f), True, 'corpus')

    # ---- Rust checker on every serialised module
    rs, _real, rerr = C.build_rust()
    ser_idx = [i for i, im in enumerate(impl) if 'ser' in im]
    rust_out = {}
    if rs:
        outs = C.run_lines(rs, [impl[i]['ser'] for i in ser_idx])
        for i, o in zip(ser_idx, outs + ['<missing>'] * (len(ser_idx) - len(outs))):
            rust_out[i] = o.split(' ')[0]
    else:
        R.notes.append('rust build failed: ' + rerr)

    # ---- oracle: reference conversions of ground terms by the real converter
    want = {}
    for c in cases:
        for (o, order, _cfg) in processed_steps(c['items']):
            if o < len(c['kinds']) and c['kinds'][o] == 'rw':
                theta = dict(order)
                rule = rule_of_axiom(c['axioms'][o])
                if set(evars(rule)) <= set(theta) and all(x in evars(rule) for x in theta):
                    want[conv_line(c['sig'], ksubst(theta, rule))] = None
        want[conv_line(c['sig'], c['init'])] = None
    wl = list(want)
    wres, errs2 = run_impl(wl)
    for l, r in zip(wl, wres):
        want[l] = r['res'][3:].split(' | ')[0] if r['res'].startswith('OK ') else None

    # ---- judge trace cases
    for k, c in enumerate(cases):
        i = nc + k
        im = impl[i]
        conv = lambda t, c=c: want.get(conv_line(c['sig'], t))
        probs, expect, why = oracle_trace(c, im, conv)
        accepted = im['res'].startswith('OK')
        nclaims = len(split_list(im['res'], 'C')) if accepted else 0
        kind = ('accepted-len%d' % nclaims) if accepted else 'refused:' + im.get('stage', '?') + ':' + im.get('exc', '?').split(':')[0]
        R.case(lines[i], accepted and nclaims > 0 or not accepted, kind)
        R.hist['mutation:' + c['mutation']] = R.hist.get('mutation:' + c['mutation'], 0) + 1
        R.hist['expect:' + expect + (':' + why if why else '')] = R.hist.get('expect:' + expect + (':' + why if why else ''), 0) + 1
        if accepted and i in rust_out:
            R.hist['rust:' + rust_out[i]] = R.hist.get('rust:' + rust_out[i], 0) + 1
            if rust_out[i] != 'ACCEPT':
                probs.append(('module-rejected-by-checker', 'serialised module is not accepted by the Rust checker: ' + rust_out[i]))
        if accepted and 'ser_exc' in im:
            R.hist['serialise-failed'] = R.hist.get('serialise-failed', 0) + 1
            probs.append(('module-not-serialisable', 'serialising the produced module raised ' + im['ser_exc']))
        if k < 4:
            R.sample(dict(mutation=c['mutation'], expect=expect, why=why, result=short(im['res'], 160), exc=im.get('exc'),
                          rust=rust_out.get(i), line=short(lines[i], 400)))
        for sig_, desc in probs:
            R.violation(sig_, desc, dict(line=lines[i], mutation=c['mutation'], expectation=expect, why=why,
                                         impl=short(im['res'], 3000), exc=im.get('exc'), rust=rust_out.get(i),
                                         model=short(model[i], 3000)))
    # ---- conversion cases
    for k, (sig, term, malformed) in enumerate(conv_cases):
        i = nc + len(cases) + k
        im = impl[i]
        okc = im['res'].startswith('OK')
        R.case(lines[i], size(term) > 1, ('conv-ok' if okc else 'conv-refused:' + im.get('exc', '?').split(':')[0]) + ('' if not malformed else '/malformed-stream'))
        if '!ids' in im['res']:
            R.violation('scope-ids-not-first-occurrence', 'ConvertionScope ids are not first-occurrence positions',
                        dict(line=lines[i], impl=im['res']))
        if k < 2:
            R.sample(dict(conv=short(lines[i], 300), result=short(im['res'], 200)))

    # ---- hint-object cases
    for k, c in enumerate(hcases):
        i = nc + len(cases) + len(conv_cases) + k
        im = impl[i]
        probs, expect, why = oracle_hints(c, im)
        accepted = im['res'].startswith('OK')
        nclaims = len(split_list(im['res'], 'C')) if accepted else 0
        R.case(lines[i], nclaims > 0 or not accepted,
               'hints-accepted-len%d' % nclaims if accepted else 'hints-refused:' + im.get('exc', '?').split(':')[0])
        R.hist['hints-mutation:' + c['mutation']] = R.hist.get('hints-mutation:' + c['mutation'], 0) + 1
        R.hist['hints-expect:' + expect + (':' + why if why else '')] = R.hist.get('hints-expect:' + expect + (':' + why if why else ''), 0) + 1
        if accepted and i in rust_out:
            R.hist['hints-rust:' + rust_out[i]] = R.hist.get('hints-rust:' + rust_out[i], 0) + 1
            if rust_out[i] != 'ACCEPT':
                probs.append(('module-rejected-by-checker', 'serialised module is not accepted by the Rust checker: ' + rust_out[i]))
        if accepted and 'ser_exc' in im:
            R.hist['hints-serialise-failed:' + im['ser_exc'].split(':')[0]] = R.hist.get('hints-serialise-failed:' + im['ser_exc'].split(':')[0], 0) + 1
        if k < 2:
            R.sample(dict(hints_mutation=c['mutation'], expect=expect, why=why, result=short(im['res'], 160), exc=im.get('exc'),
                          rust=rust_out.get(i), line=short(lines[i], 400)))
        for sig_, desc in probs:
            R.violation(sig_, desc, dict(line=lines[i], mutation=c['mutation'], expectation=expect, why=why,
                                         impl=short(im['res'], 3000), exc=im.get('exc'), rust=rust_out.get(i),
                                         model=short(model[i], 3000)))

    # ---- history independence of rule conversion, judged on the implementation's own answers: an axiom's
    #      converted pattern and scope must be the same whatever was converted before it by the same object
    base = nc + len(cases) + len(conv_cases) + len(hcases)
    seen_rule = {}           # (case idx, original axiom position) -> (answer, request line, ordinal there)
    for k, (c, od, ln) in enumerate(rules_reqs):
        im = impl[base + k]
        got = parse_rules(im['res'])
        R.case(ln, len(od) > 1, 'rules-' + ('multi' if len(od) > 1 else 'single') + ':' + im['res'][:2].strip())
        if got is None:
            continue
        for o_here, ans in got.items():
            key = (c['idx'], od[o_here])
            if key not in seen_rule:
                seen_rule[key] = (ans, ln, o_here)
            elif seen_rule[key][0] != ans:
                R.violation('conversion-depends-on-history',
                            'the same axiom is converted to different patterns/scopes depending on which axioms the same '
                            'LanguageSemantics converted before it (equal variables of the rule no longer map to the '
                            'metavariables of its own scope)',
                            dict(line=ln, ordinal=o_here, answer=short(ans, 1200),
                                 line2=seen_rule[key][1], ordinal2=seen_rule[key][2], answer2=short(seen_rule[key][0], 1200),
                                 model=short(model[base + k], 1500)))

    # ---- sessions: several definitions alive in one runner process, built and used interleaved
    sessions = [gen_session(rng, i) for i in range(n_ses)]
    groups = [[] for _ in range(min(8, max(1, n_ses)))]
    for i, ses in enumerate(sessions):
        groups[i % len(groups)].append(ses)
    from concurrent.futures import ThreadPoolExecutor

    def run_group(g):
        ls = [ln for ses in g for (_, _, ln) in ses]
        out, errs_ = run_impl(ls, chunks=1)
        return out

    with ThreadPoolExecutor(max_workers=len(groups)) as ex:
        gouts = list(ex.map(run_group, groups))
    ses_impl = {}
    for g, out in zip(groups, gouts):
        k = 0
        for ses in g:
            for (_, _, ln) in ses:
                ses_impl[ln] = out[k]
                k += 1
    all_ses_lines = [ln for ses in sessions for (_, _, ln) in ses]
    ses_model = dict(zip(all_ses_lines, C.run_lines(mlref, all_ses_lines))) if ok else {}
    # reference conversions for the oracle, and the same (definition, trace) alone in a FRESH process (a subset)
    want2 = {}
    for ses in sessions:
        for cmd, c, ln in ses:
            if cmd == 'USE':
                for (o, order, _cfg) in processed_steps(c['items']):
                    if o < len(c['kinds']) and c['kinds'][o] == 'rw':
                        theta = dict(order)
                        rule = rule_of_axiom(c['axioms'][o])
                        if set(evars(rule)) <= set(theta) and all(x in evars(rule) for x in theta):
                            want2[conv_line(c['sig'], ksubst(theta, rule))] = None
                want2[conv_line(c['sig'], c['init'])] = None
    w2 = [l for l in want2 if l not in want]
    w2res, _ = run_impl(w2)
    for l, r in zip(w2, w2res):
        want[l] = r['res'][3:].split(' | ')[0] if r['res'].startswith('OK ') else None
    fresh_budget = 24 if tier == 'quick' else 200
    fresh_jobs = []
    for ses in sessions:
        for cmd, c, ln in ses:
            if cmd == 'USE' and len(fresh_jobs) < fresh_budget:
                fresh_jobs.append((ln, gen_line(c)))
    with ThreadPoolExecutor(max_workers=C.NCPU) as ex:
        fresh_out = list(ex.map(lambda j: run_impl([j[1]], chunks=1)[0][0], fresh_jobs))
    fresh = {ln: (gl, o) for (ln, gl), o in zip(fresh_jobs, fresh_out)}
    for ses in sessions:
        lines_ses = [ln for (_, _, ln) in ses]
        for k, (cmd, c, ln) in enumerate(ses):
            im = ses_impl[ln]
            R.case(ln, True, 'session-' + cmd + ':' + im['res'][:2].strip())
            if ok and ses_model.get(ln) != im['res']:
                mismatches.append(dict(line=ln, session=lines_ses[:k + 1], impl=short(im['res'], 2000),
                                       model=short(ses_model.get(ln, ''), 2000), exc=im.get('exc')))
            if cmd != 'USE':
                continue
            probs, expect, why = oracle_trace(c, im, lambda t, c=c: want.get(conv_line(c['sig'], t)))
            if ln in fresh and fresh[ln][1]['res'] != im['res']:
                probs.append(('answer-depends-on-other-definitions',
                              'a definition used after another definition was built in the same process gives a different '
                              'answer than alone in a fresh process'))
            for sig_, desc in probs:
                R.violation(sig_, desc, dict(session=lines_ses[:k + 1], line=ln, mutation='session/' + c['mutation'],
                                             expectation=expect, why=why, impl=short(im['res'], 2500), exc=im.get('exc'),
                                             fresh_line=fresh.get(ln, (None,))[0],
                                             fresh=short(fresh[ln][1]['res'], 2500) if ln in fresh else None,
                                             model=short(ses_model.get(ln, ''), 2500)))

    # ---- refutation witnesses of Props/C20.v replayed on the implementation (known findings / fixed defects)
    judge_witnesses(R, corpus_lines, impl[:nc])

    if mismatches:
        tie_broken = True
    if (proof_broken or tie_broken) and not R.violations:
        # nothing concrete found by the oracle: still a violation
        if proof_broken:
            R.violation('proof-broken', 'Coq proof stage failed',
                        {'no_failing_input_found': True, 'theorem_or_correspondence': f'Props/{CID}.v', 'log': P['log'][-3000:]})
        if tie_broken:
            R.violation('correspondence-broken', 'extracted model and implementation disagree',
                        {'no_failing_input_found': True, 'theorem_or_correspondence': 'mlref_k vs kore_runner.py (CONV/GEN)',
                         'first_mismatches': mismatches[:5], 'count': len(mismatches)})
    elif mismatches:
        R.notes.append(f'{len(mismatches)} model/implementation mismatches, first: {json.dumps(mismatches[0])[:1500]}')

    R.coverage['rule'] = ('LONG: 300-step traces re-using one substitution, a rule first used at the end (module must stay at 4 axioms, serialise, be accepted). SESSION: 2-3 definitions (A, A with permuted variable names, an unrelated one) built and used interleaved in one runner process; answers = model = the definition alone in a fresh process. SHARED: 2-5 rules sharing non-ground application subterms (variables at different first-occurrence positions), axioms in random order, chained trace through all of them; RULES: the same axioms through one LanguageSemantics in 3 orders and singly, answers must agree per axiom. GEN: random signature (1-4 sorts; 4-10 symbols, 0-3 arguments, 0-2 sort parameters, cells, kseq), '
                          'rules obtained by anti-unifying the current configuration, ground substitutions, traces of 0-8 steps, '
                          '45% with one deliberate perturbation; distinct = distinct request line; non-trivial = at least one claim or refused. '
                          'CONV: random Kore terms over every constructor, 30% from a malformed stream; non-trivial = more than one node')
    R.coverage['mismatches'] = len(mismatches)
    R.coverage['rust_verified'] = len(rust_out)
    return R.finish(level='proof', trusted_base=C.TRUSTED_COMMON + TRUSTED)


TRUSTED = [
    'translators/kore_conv.py (Python ast -> coq/Gen/KoreConv.v, fail closed) and its vocabulary coq/K/GenPrims.v: the scope methods, '
    '_convert_sort/_convert_pattern/convert_substitutions, add_axiom(s)/add_assumptions, collect_functional_axioms, '
    'add_assumptions_for_rewrite_step, rewrite_event, from_proof_hints are tied BY TRANSLATION (K/GenKoreAgree.v: generated = model); '
    'the primitives of GenPrims.v (notation definitions, Pattern.instantiate/==/match, get_symbol/get_sort/resolve_to_ksymbol, '
    'load_axiom/dynamic_inst/add_proof_expression) and from_kore_definition/get_proof_hints remain tied differentially only',
    'pyk shim harness/shims/pyk (stand-in dataclasses for pyk.kore.syntax, empty pyk.kllvm): the real pyk is not installed; '
    'the implementation is exercised from parsed Kore objects / LLVM hint objects on (llvm_proof_hint.py binary parsing and the Kore text parser are out of scope)',
    'kore_runner.py builds kore.Definition / LLVMRewriteTrace objects from the request line and prints fully expanded patterns',
    'expansions of the kore notations are hand-transcribed in coq/K/Kore.v and validated against proofs/kore.py only by the tie',
    'acceptance of the serialised module by the Rust checker is established by running the real checker on every generated module (tie), not by a theorem',
]


def judge_witnesses(R, corpus_lines, results):
    """what the implementation does on the witnesses of the `_refuted` theorems (judged on its own output)"""
    for (f, d), im in zip(corpus_lines, results):
        res = im['res']
        R.hist['witness:' + f[:2] + ':' + res[:4].strip()] = 1
        if f.startswith('w1_') and res.startswith('OK '):
            pat = res[3:].split(' | ')[0].split()
            if pat[-1] == pat[-2] and pat[-1].startswith('m'):
                R.violation('scope-keyed-by-name-only',
                            'two distinct Kore variables X:S and X:T are converted to the same metavariable',
                            dict(line=d['line'], impl=res, theorem='C20_scope_injective_by_name_and_sort_refuted'))
        elif f.startswith('w2_') and res.startswith('OK '):
            pat = res[3:].split(' | ')[0].split()
            if pat.count('m100') >= 2:
                R.violation('metavar-id-clash-sortparam-100',
                            'the 101st element variable of a term and its first sort variable are both MetaVar(100)',
                            dict(line=short(d['line'], 600), impl=short(res, 600), theorem='C20_scope_injective_unbounded_refuted'))
        elif f.startswith('w3_'):
            if not res.startswith('OK ') or len(split_list(res, 'C')) != 3:
                R.violation('duplicate-claim-refused', 'the chained trace a => b => a => b is refused (it repeats a step): '
                            + im.get('exc', ''), dict(line=d['line'], impl=short(res, 600), exc=im.get('exc'),
                                                      theorem='C20_chained_accepted_pinned_refuted'))


def replay(path):
    d = json.load(open(path))
    rp = d.get('replay', d)
    line = rp.get('line')
    print(json.dumps({k: v for k, v in d.items() if k != 'replay'}, indent=1)[:2000])
    if not line:
        print(json.dumps(rp, indent=1)[:4000])
        return 0
    ok, log, mlref = build()
    if rp.get('session'):
        # the whole prefix of the session in ONE process, then the same (definition, trace) alone in a fresh one
        impl, _ = run_impl(rp['session'], chunks=1)
        mo = C.run_lines(mlref, rp['session']) if ok else []
        for k, (ln, im) in enumerate(zip(rp['session'], impl)):
            print('session[%d] :' % k, short(ln, 300))
            print('   impl     :', short(json.dumps(im), 1500 if k == len(impl) - 1 else 200))
            if ok:
                print('   model    :', short(mo[k], 1500 if k == len(impl) - 1 else 200))
        if rp.get('fresh_line'):
            fr, _ = run_impl([rp['fresh_line']], chunks=1)
            print('alone, fresh process:', short(json.dumps(fr[0]), 1500))
        return 0
    lines = [line] + ([rp['line2']] if rp.get('line2') else [])
    impl, _ = run_impl(lines, chunks=1)
    for ln, im in zip(lines, impl):
        print('request :', short(ln, 1500))
        print('impl    :', short(json.dumps(im), 3000))
        if ok:
            print('model   :', short(C.run_lines(mlref, [ln])[0], 3000))
    if 'ser' in impl[0]:
        rs, _r, _e = C.build_rust()
        if rs:
            print('rust    :', C.run_lines(rs, [impl[0]['ser']])[0].split(' ')[0])
    return 0

"""C02 -- Every proof the toolkit generates is accepted by the checker.

proof stage : coq/Props/C02.v: compile_correct (stack-compiler correctness of the serialising interpreter against
              ML/Machine.v exec, guards_sound), module_accepted (both optimise settings, any memoisation set),
              wf_for_checker/module_ok = exactly where the generator is laxer than the checker; C02_refuted_* witnesses
              (D9a-f); coq/Gen/C02Shipped.v (REGENERATED from the shipped modules on every run): module_ok and acceptance
              of propositional / small_theory / substitution / tautology by vm_compute.
tie         : random modules (library lemmas composed to depth <= 4, raw DSL, notation) through the REAL
              ProofExp.serialize (both optimize settings) and through the model's serialize on the notation-expanded
              twin; bytes compared; every byte triple goes through the Rust checker built from the current lib.rs.
oracle      : Rust verdict on Python's files (must ACCEPT); a second stream of toolkit-accepted modules with deliberately
              checker-ill-formed operands (D9 family) must be REJECTED by Rust and by the model alike.
"""
import glob
import json
import os

import common as C
import c08

CID = 'C02'
GEN_V = os.path.join(C.COQ, 'Gen', 'C02Shipped.v')

SIGS = {
    'mu': 'D9a:Interpreter.mu/Mu:non-positive-binder-accepted-by-generator',
    'redundant': 'D9b:Interpreter.esubst/ssubst:redundant-substitution-accepted-by-generator',
    'capture': 'D9c:Pattern.apply_esubst/apply_ssubst:capturing-substitution-at-instantiate',
    'constraints': 'D9d:MetaVar.can_be_replaced_by:constraints-ignored-at-instantiate',
    'differs': 'D9d:MetaVar.apply_esubst/apply_ssubst:generator-drops-substitution-checker-keeps',
    'claims': 'D9e:ProofExp.execute_proofs_phase:undischarged-claim-not-detected',
    'holes': 'D9f:Interpreter.metavar:app_ctx_holes-overlap-e_fresh-accepted-by-generator',
}


# ------------------------------------------------------------------------------------------------
# tokens -> Coq syntax (for the regenerated Gen/C02Shipped.v)
# ------------------------------------------------------------------------------------------------

class Tok:
    def __init__(self, s):
        self.t = [int(x) for x in s.split()]
        self.i = 0

    def n(self):
        v = self.t[self.i]
        self.i += 1
        return v


def nlist(tk):
    k = tk.n()
    return '[' + '; '.join(str(tk.n()) for _ in range(k)) + ']'


def coq_pat(tk):
    c = tk.n()
    if c == 0:
        return f'(EVar {tk.n()})'
    if c == 1:
        return f'(SVar {tk.n()})'
    if c == 2:
        return f'(Sym {tk.n()})'
    if c in (3, 4):
        l = coq_pat(tk)
        r = coq_pat(tk)
        return f'({"Imp" if c == 3 else "App"} {l} {r})'
    if c in (5, 6):
        x = tk.n()
        return f'({"Ex" if c == 5 else "Mu"} {x} {coq_pat(tk)})'
    if c == 7:
        i = tk.n()
        ls = [nlist(tk) for _ in range(5)]
        return f'(MVar {i} {" ".join(ls)})'
    if c in (8, 9):
        p = coq_pat(tk)
        x = tk.n()
        q = coq_pat(tk)
        return f'({"ESub" if c == 8 else "SSub"} {p} {x} {q})'
    raise ValueError(c)


def coq_term(tk):
    c = tk.n()
    if c in (10, 11, 12, 13):
        return ['PProp1', 'PProp2', 'PProp3', 'PQuant'][c - 10]
    if c == 14:
        a = coq_term(tk)
        b = coq_term(tk)
        return f'(PMP {a} {b})'
    if c == 15:
        a = coq_term(tk)
        return f'(PGen {a} {tk.n()})'
    if c in (16, 17):
        a = coq_term(tk)
        k = tk.n()
        d = []
        for _ in range(k):
            key = tk.n()
            d.append(f'({key}, {coq_pat(tk)})')
        return f'({"PDynInst" if c == 16 else "PInst"} {a} [{"; ".join(d)}])'
    if c == 18:
        return f'(PLoadAxiom {coq_pat(tk)})'
    raise ValueError(c)


def coq_list(s, f):
    tk = Tok(s)
    k = tk.n()
    return '[' + ';\n    '.join(f(tk) for _ in range(k)) + ']'


def gen_shipped_v(shipped):
    out = ['(** REGENERATED on every run of ./check C02 by harness/c02.py from the shipped modules of',
           '    /repo/generation/src/proof_generation (reified through the real DSL, notation expanded).',
           '    Do not edit. *)',
           'From Coq Require Import NArith List Bool.',
           'From Pi2 Require Import ML.Syntax ML.Subst ML.Machine PTerm.Model PTerm.Facts PTerm.Compile.',
           'Import ListNotations.', 'Open Scope N_scope.', '',
           'Definition accepted (memo:option (list pat)) (m:pmodule) : bool :=',
           '  match serialize memo m with',
           '  | Some (g, c, p) => match verify guards_sound g c p with Some _ => true | None => false end',
           '  | None => false end.', '']
    for name in sorted(shipped):
        md = shipped[name]['model']
        out.append(f'Definition m_{name} : pmodule := mkmod')
        out.append('  ' + coq_list(md['axs'], coq_pat))
        out.append('  ' + coq_list(md['claims'], coq_pat))
        out.append('  ' + coq_list(md['proofs'], coq_term) + '.')
        S = shipped[name]['twin']['opt'].get('S', '0')
        out.append(f'Definition memo_{name} : list pat := {coq_list(S, coq_pat)}.')
        out.append(f'Example {name}_ok : module_ok m_{name} = true /\\ accepted None m_{name} = true /\\ '
                   f'accepted (Some memo_{name}) m_{name} = true.')
        out.append('Proof. vm_compute. repeat split. Qed.')
        out.append('')
    return '\n'.join(out) + '\n'


# ------------------------------------------------------------------------------------------------

def build_model():
    return C.build_mlref('pterm', 'Extract/ExtractPTerm.v', 'pterm_model', 'pterm_driver.ml', 'mlref_pterm',
                         ['PTerm/Model.vo'])


def regen_source():
    """regenerate coq/Gen/PyProofDSL.v from the CURRENT source (statement-level translation, fail closed)"""
    import sys
    tdir = os.path.join(C.VERIF, 'translators')
    if tdir not in sys.path:
        sys.path.insert(0, tdir)
    import py_proofdsl
    try:
        text = py_proofdsl.generate(C.REPO)
        C.write_if_changed(os.path.join(C.COQ, 'Gen', 'PyProofDSL.v'), text)
        return True, ''
    except SystemExit as e:
        return False, str(e)
    except Exception as e:  # noqa: BLE001
        return False, f'py_proofdsl: {e!r}'


def setup():
    build_model()


def model_ser(mlref, entries):
    """entries: list of (memo_tokens | None, model dict) -> list of answers"""
    lines = []
    for memo, md in entries:
        lines.append(f"M {'0' if memo is None else '1 ' + memo} {md['axs']} {md['claims']} {md['proofs']}")
    return C.run_lines_parallel(mlref, lines)


def model_diag(mlref, mds):
    return C.run_lines_parallel(mlref, [f"W {md['axs']} {md['claims']} {md['proofs']}" for md in mds])


def rust_verdicts(rs, triples):
    lines = [f'V {g} {c} {p}' for g, c, p in triples]
    out = C.run_lines_parallel(rs, lines)
    return [o.split(' ')[0] if o else 'REJECT' for o in out] + ['<missing>'] * (len(lines) - len(out))


def check_modules(R, results, mlref, rs, mismatches, label):
    """results: runner answers for modules (built ones)."""
    entries, idx = [], []
    triples, tidx = [], []
    diag_in = []
    for i, r in enumerate(results):
        if not r.get('built') or 'model' not in r:
            continue
        diag_in.append((i, r['model']))
        for opt in ('plain', 'opt'):
            tw = r['twin'][opt]
            if tw.get('ok'):
                entries.append((None if opt == 'plain' else tw['S'], r['model']))
                idx.append((i, opt))
                triples.append((tw['gamma'], tw['claim'], tw['proof']))
                tidx.append((i, opt, 'twin'))
            re_ = r['real'][opt]
            if re_.get('ok'):
                triples.append((re_['gamma'], re_['claim'], re_['proof']))
                tidx.append((i, opt, 'real'))
    answers = model_ser(mlref, entries)
    diags = model_diag(mlref, [md for _, md in diag_in])
    verdicts = rust_verdicts(rs, triples)
    mans = {k: a for k, a in zip(idx, answers)}
    dg = {i: d for (i, _), d in zip(diag_in, diags)}
    rv = {k: v for k, v in zip(tidx, verdicts)}
    for i, r in enumerate(results):
        if r.get('timeout'):
            R.hist['skipped:time-budget'] = R.hist.get('skipped:time-budget', 0) + 1
            continue
        if not r.get('built'):
            R.hist['module-not-built'] = R.hist.get('module-not-built', 0) + 1
            continue
        if 'model' not in r:
            R.hist['twin-not-built'] = R.hist.get('twin-not-built', 0) + 1
            mismatches.append((label, i, 'twin', r.get('twin_exc'), ''))
            continue
        d = dg.get(i, 'BAD')
        fails = d.split()[1:] if d.startswith('WFFAIL') else ([] if d == 'WF' else ['?'])
        wf = d == 'WF'
        if d.startswith('WF-BUT') or not d.startswith('WF'):
            mismatches.append((label, i, 'module_ok vs diagnosis', d, ''))
        nodes = sum(r.get('stats', {}).values())
        # (0) oracle: the optimising pipeline (counting -> finalize -> memoizing serialiser) must serialise exactly the
        #     modules the plain serialiser serialises (finalize() budgets its suggestions by the free memory slots)
        for which in ('real', 'twin'):
            a, b = r[which]['plain'], r[which]['opt']
            if a.get('ok') != b.get('ok'):
                bad = b if a.get('ok') else a
                R.violation(f"optimize-setting-changes-toolkit-verdict:{'opt' if a.get('ok') else 'plain'}-refuses:{bad.get('exc')}",
                            'ProofExp.serialize succeeds with one optimize setting and raises with the other',
                            {'mod': r.get('mod'), 'which': which, 'plain': {k: v for k, v in a.items() if k in ('ok', 'exc', 'msg')},
                             'opt': {k: v for k, v in b.items() if k in ('ok', 'exc', 'msg')}, 'how': './check C02 --replay <this file>'})
        for opt in ('plain', 'opt'):
            tw, re_ = r['twin'][opt], r['real'][opt]
            key = (r['model']['proofs'], r['model']['axs'], opt)
            R.case(key, nontrivial=nodes >= 2)
            # (1) real module and its notation-free twin: same verdict from the toolkit
            if tw.get('ok') != re_.get('ok'):
                mismatches.append((label, i, opt + ':toolkit-verdict notation vs expanded', re_, tw))
            # (2) model bytes == toolkit bytes on the twin
            a = mans.get((i, opt))
            if tw.get('ok'):
                if a is None or not a.startswith('OK'):
                    mismatches.append((label, i, opt + ':model-serialize-fails', a, tw))
                else:
                    _, g, c, p, mv = a.split()
                    if (g, c, p) != (tw['gamma'], tw['claim'], tw['proof']):
                        mismatches.append((label, i, opt + ':bytes', (g, c, p), (tw['gamma'], tw['claim'], tw['proof'])))
                    if mv != rv.get((i, opt, 'twin')):
                        mismatches.append((label, i, opt + ':checker-model-vs-rust', mv, rv.get((i, opt, 'twin'))))
                    if (mv == 'ACCEPT') != wf and wf:
                        mismatches.append((label, i, opt + ':module_ok-but-model-rejects', d, a[:60]))
            # (3) oracle: Rust verdict on the toolkit's own files (with notation as written)
            for which, x in (('real', re_), ('twin', tw)):
                if not x.get('ok'):
                    R.hist['toolkit-rejects'] = R.hist.get('toolkit-rejects', 0) + 1
                    continue
                v = rv.get((i, opt, which))
                R.hist[f'rust-{v}'] = R.hist.get(f'rust-{v}', 0) + 1
                if v != 'ACCEPT':
                    replay = {'mod': r.get('mod'), 'optimize': opt == 'opt', 'files': x, 'rust': v, 'model_wf': d,
                              'how': './check C02 --replay <this file>'}
                    known = [SIGS[f] for f in fails if f in SIGS]
                    if known:
                        for sg in known[:1]:
                            R.violation(sg, 'toolkit accepts the module, checker rejects its serialisation: ' + sg, replay)
                    else:
                        # where the chain toolkit -> bytes -> checker left the model (class of the failing input)
                        ma = mans.get((i, opt))
                        twx = r['twin'][opt]
                        if ma is None or not ma.startswith('OK'):
                            tag = ':toolkit-serialises-what-the-model-refuses'
                        elif twx.get('ok') and tuple(ma.split()[1:4]) != (twx['gamma'], twx['claim'], twx['proof']):
                            tag = ':bytes-differ-from-model-serialiser'
                        elif ma.split()[4] == 'ACCEPT':
                            tag = ':rust-rejects-what-the-checker-model-accepts'
                        else:
                            tag = ''
                        R.violation('toolkit-accepts/checker-rejects:' + (','.join(fails) or 'module_ok') + tag,
                                    'toolkit accepts the module, checker rejects its serialisation', replay)
        R.hist['module_ok' if wf else 'not-module_ok:' + ','.join(sorted(set(fails)))] = \
            R.hist.get('module_ok' if wf else 'not-module_ok:' + ','.join(sorted(set(fails))), 0) + 1
        R.hist['notation' if r.get('notation') else 'notation-free'] = R.hist.get('notation' if r.get('notation') else 'notation-free', 0) + 1
        for k, v in r.get('stats', {}).items():
            R.hist['rule:' + k] = R.hist.get('rule:' + k, 0) + v
        R.sample({'module': r.get('mod'), 'model_wf': d}, limit=3)


def corpus_mods():
    out = []
    for f in sorted(glob.glob(os.path.join(C.VERIF, 'harness', 'corpus', CID, '*.json'))):
        d = json.load(open(f))
        out.append(d['mod'] if 'mod' in d else d['replay']['mod'])
    return out


def run(tier, seed):
    R = C.Report(CID, tier, seed)
    n = 160 if tier == 'quick' else 5000
    mismatches = []

    # 0. regenerate Gen/C02Shipped.v from the shipped modules (translator-style tie of the Examples)
    shipped = c08.runner_batch([{'cmd': 'shipped'}])[0]
    if 'runner_error' in shipped:
        mismatches.append(('shipped', 0, 'runner', shipped['runner_error'][-1500:], ''))
        shipped = None
    else:
        C.write_if_changed(GEN_V, gen_shipped_v(shipped))

    # 1. proof stage
    ok_tr, tr_msg = regen_source()
    P = R.proof_stage()
    if not ok_tr:
        # the model could not be regenerated from the current source: nothing is proved about it
        P['ok'] = False
        P['log'] = 'translator failed closed: ' + tr_msg
        P['discharged'] = 0
    proof_broken = not P['ok']

    ok, log, mlref = build_model()
    rs, real, err = C.build_rust()
    if not ok or rs is None:
        mismatches.append(('build', 0, 'build', (log or '')[-1500:], err))
    else:
        # 2. shipped modules: regenerated files == committed snapshots (optimize) ; all accepted by Rust and by the model
        if shipped:
            triples, names = [], []
            for name, sh in sorted(shipped.items()):
                for opt in ('plain', 'opt'):
                    for which in ('real', 'twin'):
                        x = sh[opt] if which == 'real' else sh['twin'][opt]
                        if not x.get('ok'):
                            R.violation(f'shipped-module-not-serialisable:{name}:{opt}', 'ProofExp.serialize raised on a shipped module',
                                        {'module': name, 'optimize': opt, 'error': x})
                            continue
                        triples.append((x['gamma'], x['claim'], x['proof']))
                        names.append((name, opt, which))
                snap = []
                for ext in ('gamma', 'claim', 'proof'):
                    pth = os.path.join(C.REPO, 'proofs', f'{name}.ml-{ext}')
                    snap.append((open(pth, 'rb').read().hex() or '-') if os.path.exists(pth) else None)
                if all(s is not None for s in snap):
                    triples.append(tuple(snap))
                    names.append((name, 'snapshot', 'committed'))
                    if sh['opt'].get('ok') and tuple(snap) != (sh['opt']['gamma'], sh['opt']['claim'], sh['opt']['proof']) \
                            and tuple(snap) != (sh['plain']['gamma'], sh['plain']['claim'], sh['plain']['proof']):
                        R.notes.append(f'snapshot proofs/{name}.ml-* differs from both regenerated variants')
                        R.hist['snapshot-differs'] = R.hist.get('snapshot-differs', 0) + 1
                    else:
                        R.hist['snapshot-regenerated-identically'] = R.hist.get('snapshot-regenerated-identically', 0) + 1
            for (name, opt, which), v in zip(names, rust_verdicts(rs, triples)):
                R.case(('shipped', name, opt, which), nontrivial=True, kind=f'shipped-rust-{v}')
                if v != 'ACCEPT':
                    R.violation(f'shipped-module-rejected:{name}:{opt}:{which}', 'the checker rejects a shipped module',
                                {'module': name, 'variant': opt, 'which': which, 'rust': v})
            # model bytes == toolkit bytes for the twins of the shipped modules
            ents, keys = [], []
            for name, sh in sorted(shipped.items()):
                for opt in ('plain', 'opt'):
                    tw = sh['twin'][opt]
                    if tw.get('ok'):
                        ents.append((None if opt == 'plain' else tw['S'], sh['model']))
                        keys.append((name, opt, tw))
            for (name, opt, tw), a in zip(keys, model_ser(mlref, ents)):
                if not a.startswith('OK') or tuple(a.split()[1:4]) != (tw['gamma'], tw['claim'], tw['proof']) or a.split()[4] != 'ACCEPT':
                    mismatches.append(('shipped', name, opt + ':bytes/verdict', a[:120], (tw['gamma'][:40], tw['claim'][:40], tw['proof'][:40])))
            if tier == 'thorough':
                # every committed triple under /repo/proofs must be accepted by the checker
                trip, nm = [], []
                for pf in sorted(glob.glob(os.path.join(C.REPO, 'proofs', '**', '*.ml-proof'), recursive=True)):
                    base = pf[:-len('.ml-proof')]
                    if all(os.path.exists(base + e) for e in ('.ml-gamma', '.ml-claim')):
                        trip.append(tuple((open(base + e, 'rb').read().hex() or '-') for e in ('.ml-gamma', '.ml-claim', '.ml-proof')))
                        nm.append(os.path.relpath(base, C.REPO))
                for nme, v in zip(nm, rust_verdicts(rs, trip)):
                    R.case(('snapshot', nme), nontrivial=True, kind=f'snapshot-rust-{v}')
                    if v != 'ACCEPT':
                        R.violation('committed-snapshot-rejected:' + nme, 'the checker rejects a committed proof', {'files': nme})

        # 3. corpus (refutation witnesses), then generated modules: valid stream + ill-formed-operand stream
        cm = corpus_mods()
        corp = c08.runner_batch([{'cmd': 'module', 'mod': m} for m in cm])
        for m, r in zip(cm, corp):
            r['mod'] = m
        chunks = C.NCPU * 2 if tier == 'quick' else C.NCPU * 16
        per = (n + chunks - 1) // chunks
        reqs = [{'cmd': 'gen_modules', 'seed': f'{seed}:{CID}:{i}', 'n': per, 'ill': (i % 4 == 3)} for i in range(chunks)]
        gen = c08.runner_batch(reqs, timeout=3000)
        results = [r for r in corp if 'runner_error' not in r]
        for r in corp:
            if 'runner_error' in r:
                mismatches.append(('corpus', 0, 'runner', r['runner_error'][-800:], ''))
        # modules with memory pressure near the 256 slots (many axioms + repeated sub-patterns)
        gen += c08.runner_batch([{'cmd': 'pressure_modules', 'seed': f'{seed}:{CID}:pressure:{j}', 'n': 2}
                                 for j in range(1 if tier == 'quick' else 8)], timeout=3000)
        for g in gen:
            if isinstance(g, dict):
                mismatches.append(('gen', 0, 'runner', g.get('runner_error', '')[-800:], ''))
            else:
                results += g
        check_modules(R, results, mlref, rs, mismatches, 'modules')

    if proof_broken and not R.violations:
        R.violation('proof-broken', 'Coq proof stage failed',
                    {'no_failing_input_found': True, 'theorem_or_correspondence': f'Props/{CID}.v', 'log': P['log']})
    if mismatches and not R.violations:
        R.violation('correspondence-broken', 'PTerm model (serialize / verify) and the toolkit / Rust checker disagree',
                    {'no_failing_input_found': True,
                     'theorem_or_correspondence': 'correspondence PTerm.Model.serialize vs ProofExp.serialize; ML.Machine.verify vs rust verify',
                     'first_mismatches': [list(map(str, m))[:5] for m in mismatches[:5]]})
    R.notes.append(f'mismatches={len(mismatches)}')
    if os.environ.get('VERIF_DEBUG'):
        json.dump([list(map(str, m)) for m in mismatches[:200]], open(os.path.join(C.OUT, CID + '_mismatches.json'), 'w'), indent=1)
    R.coverage['rule'] = ('one evaluation = one module (axioms, claims, 1-3 proof terms built by the real DSL) serialised by the real '
                          'ProofExp.serialize with one optimize setting, its notation-free twin serialised by the model, both byte '
                          'triples run by the Rust checker; distinct by (expanded proofs, axioms, optimize); non-trivial = >= 2 rule nodes')
    return R.finish(level='proof', trusted_base=C.TRUSTED_COMMON + [
        'translators/py_proofdsl.py (Python-ast statement-level translator of proof.py / basic_interpreter.py / interpreter.py / '
        'interpreter_transformer.py / optimizing_interpreters.py -> coq/Gen/PyProofDSL.v, fail closed) and the reading conventions of '
        'coq/PTerm/PyRt.v (monad of calls reaching the innermost interpreter, objects with open recursion, base_ops)',
        'harness/impl/pterm_runner.py: reifier, notation expansion (the model is about the notation-free twin of a module; the '
        'notation-laden original is tied to it by the Rust verdict and the toolkit verdict only), encoders',
        'harness/rust/harness.rs + rustc build of the current lib.rs (oracle)',
        'coq/Gen/C02Shipped.v generator in harness/c02.py (tokens -> Gallina terms)'])


def replay(path):
    d = json.load(open(path))
    mod = d.get('mod') or d.get('replay', {}).get('mod')
    ok, log, mlref = build_model()
    rs, real, err = C.build_rust()
    if mod is None and d.get('replay', {}).get('module'):
        # a shipped module: regenerate it with the current toolkit and show the checker's verdicts
        name = d['replay']['module']
        sh = c08.runner_batch([{'cmd': 'shipped'}])[0][name]
        for opt in ('plain', 'opt'):
            for which, x in (('real', sh[opt]), ('twin', sh['twin'][opt])):
                if x.get('ok'):
                    v = rust_verdicts(rs, [(x['gamma'], x['claim'], x['proof'])])[0]
                    print(f'{name} optimize={opt == "opt"} {which}: rust {v}; proof bytes {x["proof"][:80]}...')
                else:
                    print(f'{name} optimize={opt == "opt"} {which}: toolkit raises {x}')
        return 0
    if mod is None:
        print(json.dumps(d, indent=1)[:3000])
        return 0
    if 'regenerate' in mod:
        out = c08.runner_batch([mod['regenerate']])[0]
        r = [x for x in out if x['mod']['proofs'] == mod['proofs']][0]
    else:
        r = c08.runner_batch([{'cmd': 'module', 'mod': mod}])[0]
    print('module:', json.dumps(mod)[:1500])
    if not r.get('built'):
        print('toolkit could not build the module:', r)
        return 0
    print('model wf diagnosis:', model_diag(mlref, [r['model']])[0] if 'model' in r else r.get('twin_exc'))
    for opt in ('plain', 'opt'):
        x = r['real'][opt]
        if not x.get('ok'):
            print(opt, 'toolkit raises', x)
            continue
        v = rust_verdicts(rs, [(x['gamma'], x['claim'], x['proof'])])[0]
        print(f'optimize={opt == "opt"}: toolkit OK; gamma={x["gamma"]} claim={x["claim"]} proof={x["proof"]} -> rust {v}')
        if 'model' in r and r['twin'][opt].get('ok'):
            a = model_ser(mlref, [(None if opt == 'plain' else r['twin'][opt]['S'], r['model'])])[0]
            print('   model (expanded twin):', a[:300])
    return 0

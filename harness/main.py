import importlib
import json
import os
import sys

sys.path.insert(0, os.path.dirname(os.path.abspath(__file__)))
import common  # noqa: E402


def setup():
    """Build everything that can be built now (so the checks start warm).  A file that does not compile is NOT a
    setup failure: the check whose closure contains it fails its own proof stage and reports that."""
    common.coq_makefile()
    rc0, o, e = common.sh(f'timeout 3300 make -k -j{min(common.NCPU, 8)}', cwd=common.COQ, timeout=3400)
    print((o + e)[-3000:])
    if rc0 != 0:
        print('setup: WARNING: some Coq files did not compile (see above); the affected checks will report it')
    rc = 0
    for name in sorted(os.listdir(os.path.dirname(os.path.abspath(__file__)))):
        if name.startswith('c') and name[1:3].isdigit() and name.endswith('.py'):
            mod = importlib.import_module(name[:-3])
            if hasattr(mod, 'setup'):
                try:
                    mod.setup()
                except Exception as e:  # noqa: BLE001
                    print(f'setup {name}: WARNING {e!r}')
    print('setup done')
    return rc


def main(argv):
    if len(argv) >= 1 and argv[0] == '--setup':
        return setup()
    if len(argv) < 2:
        print(__doc__ or 'usage: check <Cxx> quick|thorough | --setup')
        return 2
    cid = argv[0].upper()
    mod = importlib.import_module('c' + cid[1:].lower())
    if argv[1] == '--replay':
        return mod.replay(argv[2])
    tier = argv[1]
    if tier not in ('quick', 'thorough'):
        tier = os.environ.get('VERIF_TIER', 'quick')
    return mod.run(tier, common.env_seed())


if __name__ == '__main__':
    sys.exit(main(sys.argv[1:]))

"""Regenerate the seeded-changes table inside DESIGN.md (between the SEEDED markers) from seeded/*/meta.json."""
import json, os
V = os.path.dirname(os.path.dirname(os.path.abspath(__file__)))
rows = []
rp = os.path.join(V, 'seeded', 'RESULTS.json')
latest = json.load(open(rp)) if os.path.exists(rp) else {}
for d in sorted(os.listdir(os.path.join(V, 'seeded'))):
    if not os.path.isdir(os.path.join(V, 'seeded', d)):
        continue
    m = json.load(open(os.path.join(V, 'seeded', d, 'meta.json')))
    cl = lambda s, n: ' '.join(str(s).split())[:n].replace('|', '/')
    rows.append('| %s | %s | %s | %s | %s | %s |' % (d, cl(m.get('summary', ''), 170), cl(m.get('needs_to_manifest', ''), 150), m['detected_by']['check'], cl(m['detected_by']['how'], 260),
                                                    latest.get(d, {}).get('status', '-')))
text = ['### 0.2 Seeded changes (independent sub-agents given the property text only; `/verif/seeded/<id>/`) and what catches them', '',
        'Four rounds: round 1 (`Cxx-n`, 60 changes), round 2 (`Cxx-r2-n`, 60: subtler — state across operations, boundary values, ordering, two-feature interactions), '
        'round 3 (`Cxx-r3-n`, 60: for C01/C05 aimed at the interpreter loop, `verify`, the data types and `main.rs`; for the other 18 properties changes DISGUISED AS A CLEAN-UP — a mostly '
        'behaviour-preserving refactoring with one breaking detail), round 4 (`Cxx-r4-1`, 8 changes, one each for C04 C08 C12 C13 C14 C16 C17 C19, written in a later session as a fresh '
        'measurement against the finished checks: two cooperating edits that each look harmless alone, or an effect that needs a multi-step sequence or a boundary value; first measurement '
        '5 caught with a concrete input, 2 caught by a broken proof only (C08, C19), 1 missed (C17); after strengthening all three are caught with a concrete input, '
        'see the note under the table). Each change compiles, leaves the pinned suite at 188 passed / 1 failed / 4 collection errors (the baseline), and comes with a demonstration that fails '
        'with it and passes without it; all of that was re-verified by `harness/seedverify.sh` in a fresh worktree (recorded in each `meta.json`). '
        '`harness/seedrun.sh <patch> <checks>` applies a change to a scratch worktree of /repo and runs the quick checks against it (`PI2_REPO`). '
        '"MISSED before" marks changes that the first version of a check did not catch; the strengthening that followed is named in the cell and described in `notes/Cxx.md`. '
        'Last column: the latest regression run over the whole corpus (`harness/reseedall.py`, after the deepening and robustness rounds; `seeded/RESULTS.json`): '
        '"CAUGHT concrete" = a VIOLATION with a concrete failing input, "CAUGHT no-failing-input-found" = only a broken proof/correspondence.', '',
        '| seed | change | needs | check | signature / how it is caught | latest regression run |', '|---|---|---|---|---|---|'] + rows
p = os.path.join(V, 'DESIGN.md')
s = open(p).read()
b, e = '<!-- SEEDED-BEGIN -->', '<!-- SEEDED-END -->'
block = b + '\n' + '\n'.join(text) + '\n' + e
if b in s:
    s = s[:s.index(b)] + block + s[s.index(e) + len(e):]
else:
    marker = "---------------------------------------------------------------------------------------------------\n\n## 1. Approach"
    s = s.replace(marker, block + '\n\n' + marker, 1)
open(p, 'w').write(s)
print(len(rows), 'seeds')

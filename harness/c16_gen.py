"""Generator of Metamath databases in the fragment C16 is about, with valid derivations found by a
forward prover, rendered as .mm text in several proof layouts and as the token encoding read by
ocaml/mlref_mm16.

Terms: ('v', name) | ('a', const, (args...)).  All randomness from the rng passed in.
"""
from __future__ import annotations

IMP, APP = '\\imp', '\\app'


def V(n):
    return ('v', n)


def A(c, *args):
    return ('a', c, tuple(args))


def imp(a, b):
    return A(IMP, a, b)


def tvars(t, acc=None):
    acc = [] if acc is None else acc
    if t[0] == 'v':
        if t[1] not in acc:
            acc.append(t[1])
    else:
        for x in t[2]:
            tvars(x, acc)
    return acc


def tsubst(t, s):
    if t[0] == 'v':
        return s.get(t[1], t)
    return ('a', t[1], tuple(tsubst(x, s) for x in t[2]))


def tsize(t):
    return 1 if t[0] == 'v' else 1 + sum(tsize(x) for x in t[2])


def tmatch(pat, t, s):
    """one-way matching of pattern `pat` against `t`, extending substitution s (dict) or None"""
    if pat[0] == 'v':
        if pat[1] in s:
            return s if s[pat[1]] == t else None
        s = dict(s)
        s[pat[1]] = t
        return s
    if t[0] != 'a' or t[1] != pat[1] or len(t[2]) != len(pat[2]):
        return None
    for p, x in zip(pat[2], t[2]):
        s = tmatch(p, x, s)
        if s is None:
            return None
    return s


def show(t):
    if t[0] == 'v':
        return t[1]
    if not t[2]:
        return t[1]
    return '( ' + t[1] + ' ' + ' '.join(show(x) for x in t[2]) + ' )'


class Assertion:
    def __init__(self, label, tc, terms, ess=()):
        self.label, self.tc, self.terms, self.ess = label, tc, list(terms), list(ess)   # ess: [(label, term)]

    def vars(self):
        acc = []
        for _, e in self.ess:
            tvars(e, acc)
        for t in self.terms:
            tvars(t, acc)
        return acc


class Database:
    """items: ('f', label, var) | ('a', Assertion) | ('p', Assertion, rpn-labels)"""

    def __init__(self):
        self.vars = []          # $v order
        self.consts = []        # user constants (without \imp, \app)
        self.items = []
        self.use_app = False

    # ---- queries
    def floats(self):
        return [(it[1], it[2]) for it in self.items if it[0] == 'f']

    def float_label(self, v):
        for l, x in self.floats():
            if x == v:
                return l
        raise KeyError(v)

    def mand_floats(self, a):
        vs = a.vars()
        return [(l, v) for (l, v) in self.floats() if v in vs]

    def assertions(self):
        return [it[1] for it in self.items if it[0] in ('a', 'p')]

    def by_label(self, label):
        for a in self.assertions():
            if a.label == label:
                return a
        raise KeyError(label)

    def ctor_for(self, c):
        for a in self.assertions():
            if a.tc == '#Pattern' and a.terms[0][0] == 'a' and a.terms[0][1] == c:
                return a
        raise KeyError(c)

    # ---- text
    def text(self, proof_text_of):
        out = []
        cs = ['#Pattern', '|-', '#Notation', '(', ')', IMP] + ([APP] if self.use_app else []) + self.consts
        out.append('$c ' + ' '.join(cs) + ' $.')
        out.append('$v ' + ' '.join(self.vars) + ' $.')
        for it in self.items:
            if it[0] == 'f':
                out.append(f'{it[1]} $f #Pattern {it[2]} $.')
                continue
            a = it[1]
            body = a.tc + ' ' + ' '.join(show(t) for t in a.terms)
            kw = '$a' if it[0] == 'a' else '$p'
            tail = ' $.' if it[0] == 'a' else ' $= ' + proof_text_of(a.label) + ' $.'
            if a.ess:
                out.append('${')
                for l, e in a.ess:
                    out.append(f'  {l} $e |- {show(e)} $.')
                out.append(f'  {a.label} {kw} {body}{tail}')
                out.append('$}')
            else:
                out.append(f'{a.label} {kw} {body}{tail}')
        return '\n'.join(out) + '\n'

    # ---- model encoding
    def encode(self, steps_of):
        """steps_of(label) -> (plabels, numbers) for each $p"""
        vid = {v: i for i, v in enumerate(self.vars)}
        cid = {IMP: 0, APP: 1}
        for c in self.consts:
            cid[c] = len(cid)
        tcid = {'#Pattern': 0, '|-': 1, '#Notation': 2}
        lab = LabelInterner()

        def term(t):
            if t[0] == 'v':
                return ['v', str(vid[t[1]])]
            out = ['a', str(cid[t[1]]), str(len(t[2]))]
            for x in t[2]:
                out += term(x)
            return out

        def stmt(tc, terms):
            out = [str(tcid[tc]), str(len(terms))]
            for t in terms:
                out += term(t)
            return out

        def assertion(a):
            out = [lab(a.label), str(len(a.ess))]
            for l, e in a.ess:
                out += [lab(l)] + stmt('|-', [e])
            return out + stmt(a.tc, a.terms)

        tk = []
        for it in self.items:
            if it[0] == 'f':
                tk += ['F', lab(it[1]), '0', str(vid[it[2]])]
            elif it[0] == 'a':
                tk += ['A'] + assertion(it[1])
            else:
                pl, nums = steps_of(it[1].label)
                tk += ['P'] + assertion(it[1]) + [str(len(pl))] + [lab(l) for l in pl] + [str(len(nums))] + [str(n) for n in nums]
        return tk, lab


class LabelInterner:
    FIXED = {'imp-is-pattern': 'i', 'app-is-pattern': 'p', 'proof-rule-prop-1': '1', 'proof-rule-prop-2': '2',
             'proof-rule-mp': 'm'}

    def __init__(self):
        self.tab = {}

    def __call__(self, l):
        if l in self.FIXED:
            return self.FIXED[l]
        if l not in self.tab:
            self.tab[l] = len(self.tab)
        return ('r' if l.startswith('proof-rule-') else 'o') + str(self.tab[l])


# ------------------------------------------------------------------------------------------------
# derivations
# ------------------------------------------------------------------------------------------------

class Node:
    """application of assertion `a` under substitution `s` (vars of a -> terms) to hypothesis proofs"""

    def __init__(self, a, s, hyps):
        self.a, self.s, self.hyps = a, s, hyps
        self.concl = tsubst(a.terms[0], s)


def wff_rpn(db, t, out):
    """RPN entries (key, label): key identifies the stack entry the step sequence up to here produces"""
    if t[0] == 'v':
        out.append((('w', t), db.float_label(t[1])))
        return
    c = db.ctor_for(t[1])
    s = {}
    s = tmatch(c.terms[0], t, s)
    assert s is not None, (show(c.terms[0]), show(t))
    for _, v in db.mand_floats(c):
        wff_rpn(db, s[v], out)
    out.append((('w', t), c.label))


def proof_rpn(db, node, out):
    for _, v in db.mand_floats(node.a):
        wff_rpn(db, node.s[v], out)
    for h in node.hyps:
        proof_rpn(db, h, out)
    out.append((('p', node.concl), node.a.label))


def rpn_tree(db, node):
    """nested form: (key, label, [children]) for Z-compression"""
    def wff(t):
        if t[0] == 'v':
            return (('w', t), db.float_label(t[1]), [])
        c = db.ctor_for(t[1])
        s = tmatch(c.terms[0], t, {})
        return (('w', t), c.label, [wff(s[v]) for _, v in db.mand_floats(c)])

    def prf(n):
        return (('p', n.concl), n.a.label, [wff(n.s[v]) for _, v in db.mand_floats(n.a)] + [prf(h) for h in n.hyps])
    return prf(node)


def flatten(tree, out):
    for ch in tree[2]:
        flatten(ch, out)
    out.append(tree[1])
    return out


def letters(n):
    n -= 1
    s = chr(ord('A') + n % 20)
    n //= 20
    while n > 0:
        n -= 1
        s = chr(ord('U') + n % 5) + s
        n //= 5
    return s


def compress(db, target, tree, mode, rng):
    """mode: 'noz' | 'z' (every repeated subproof shared) | 'zrand' (random marks and random reuse).
    Returns (plabels, numbers)."""
    mand = [l for l, _ in db.mand_floats(target)]
    order = []
    for l in flatten(tree, []):
        if l not in mand and l not in order:
            order.append(l)
    if mode != 'noz' and rng.random() < 0.5:
        rng.shuffle(order)
    table = mand + order
    num = {l: i + 1 for i, l in enumerate(table)}
    nums = []
    if mode == 'noz':
        for l in flatten(tree, []):
            nums.append(num[l])
        return order, nums
    count = {}

    def cnt(t):
        count[t[0]] = count.get(t[0], 0) + 1
        for ch in t[2]:
            cnt(ch)
    cnt(tree)
    saved = {}

    def go(t):
        key = t[0]
        if key in saved and (mode == 'z' or rng.random() < 0.8):
            nums.append(len(table) + 1 + saved[key])
            return
        for ch in t[2]:
            go(ch)
        nums.append(num[t[1]])
        want = (count[key] > 1) if mode == 'z' else (rng.random() < 0.35)
        if want and key not in saved:
            saved[key] = len(saved)
            nums.append(0)
    go(tree)
    return order, nums


def proof_text(plabels, nums, rng=None):
    s = ''.join('Z' if n == 0 else letters(n) for n in nums)
    if rng is not None and len(s) > 4:
        # random whitespace layout
        cuts = sorted(rng.sample(range(1, len(s)), min(len(s) - 1, rng.randint(0, 3))))
        parts, prev = [], 0
        for c in cuts:
            parts.append(s[prev:c])
            prev = c
        parts.append(s[prev:])
        s = rng.choice([' ', '\n  ']).join(parts)
    return '( ' + ' '.join(plabels) + ' ) ' + s


# ------------------------------------------------------------------------------------------------
# random databases
# ------------------------------------------------------------------------------------------------

def rand_term(rng, db, vs, depth, heads):
    """random term over variables vs and constructor heads [(const, arity)]"""
    leafs = [h for h in heads if h[1] == 0]
    if not vs and not leafs:
        vs = [db.floats()[0][1]]
    if depth <= 0 or rng.random() < 0.3:
        if vs and (not leafs or rng.random() < 0.7):
            return V(rng.choice(vs))
        if leafs:
            return A(rng.choice(leafs)[0])
        # no variable and no constant leaf: fall through to a compound term if possible
    c, k = rng.choice(heads)
    if k == 0:
        return A(c)
    if depth <= -2:
        # force termination
        base = V(vs[0]) if vs else A(leafs[0][0])
        return A(c, *[base] * k)
    return A(c, *[rand_term(rng, db, vs, depth - 1, heads) for _ in range(k)])


def gen_database(rng, idx=0, shape=None):
    """returns (db, target assertion, derivation Node, info dict)"""
    db = Database()
    nv = rng.randint(3, 6)
    names = rng.choice([['ph%d' % i for i in range(nv)], ['ph0', 'ps', 'ch', 'th', 'ta', 'et'][:nv],
                        ['x%d' % i for i in range(nv)]])
    db.vars = list(names)
    decl_order = list(names)
    if rng.random() < 0.3:
        rng.shuffle(decl_order)          # $f order differs from $v order
    label_style = rng.choice(['std', 'std', 'w'])
    for v in decl_order:
        db.items.append(('f', (v + '-is-pattern') if label_style == 'std' else ('w' + v), v))
    fvars = [v for _, v in db.floats()]
    db.use_app = rng.random() < 0.4
    # constructors
    heads = [(IMP, 2)]
    # the variables the built-in constructors and the three proof rules are stated over: in half of the databases the first
    # floats (as in every shipped file), otherwise any variables in $f order (an extra pattern variable may come first, the
    # rules may use later variables, each rule its own)
    classic = rng.random() < 0.5

    def pick(k):
        idx = list(range(k)) if classic else sorted(rng.sample(range(len(fvars)), k))
        return [fvars[j] for j in idx]
    iv = pick(2)
    items_ctor = [('a', Assertion('imp-is-pattern', '#Pattern', [A(IMP, V(iv[0]), V(iv[1]))]))]
    if db.use_app:
        heads.append((APP, 2))
        lbl = rng.choice(['app-is-pattern', 'app-is-pattern', 'wapp'])
        av = pick(2)
        items_ctor.append(('a', Assertion(lbl, '#Pattern', [A(APP, V(av[0]), V(av[1]))])))
    nconst = rng.randint(1, 4)
    for i in range(nconst):
        c = '\\k%d' % i
        k = rng.choice([0, 0, 1, 2, 2, 3])
        if i == 0 and rng.random() < 0.7:
            k = 0                                  # make closed terms likely
        db.consts.append(c)
        args = [V(v) for v in rng.sample(fvars, k)]     # distinct variables, any order
        items_ctor.append(('a', Assertion('k%d-is-pattern' % i, '#Pattern', [A(c, *args)])))
        heads.append((c, k))
    # notations (each sees the ones before it)
    items_not = []
    nnot = rng.choice([0, 1, 1, 2, 3])
    for i in range(nnot):
        c = '\\n%d' % i
        k = rng.choice([0, 1, 1, 2])
        if k == 0 and not [h for h in heads if h[1] == 0]:
            k = 1                                  # a closed body needs a constant of arity 0
        params = rng.sample(fvars, k)
        body_vars = list(params)
        if rng.random() < 0.04:
            extra = [v for v in fvars if v not in params]
            if extra:
                body_vars.append(rng.choice(extra))          # a free metavariable in the body
        body = rand_term(rng, db, body_vars, 2, heads)
        if body[0] == 'v' and rng.random() < 0.7:
            body = imp(body, body)
        db.consts.append(c)
        items_not.append(('a', Assertion('n%d-is-sugar' % i, '#Notation', [A(c, *[V(p) for p in params]), body])))
        items_ctor.append(('a', Assertion('n%d-is-pattern' % i, '#Pattern', [A(c, *[V(p) for p in params])])))
        heads.append((c, k))
    # proof rules (canonical, over the first three floats)
    v1, v2, vm = pick(2), pick(3), pick(2)
    rules = [
        ('a', Assertion('proof-rule-prop-1', '|-', [imp(V(v1[0]), imp(V(v1[1]), V(v1[0])))])),
        ('a', Assertion('proof-rule-prop-2', '|-', [imp(imp(V(v2[0]), imp(V(v2[1]), V(v2[2]))),
                                                        imp(imp(V(v2[0]), V(v2[1])), imp(V(v2[0]), V(v2[2]))))])),
        ('a', Assertion('proof-rule-mp', '|-', [V(vm[1])], ess=[('proof-rule-mp.0', imp(V(vm[0]), V(vm[1]))), ('proof-rule-mp.1', V(vm[0]))])),
    ]
    # logical axioms and rules
    logical = []
    nax = rng.randint(0, 3)
    for i in range(nax):
        vs = rng.sample(fvars, rng.randint(0, min(3, len(fvars))))
        logical.append(('a', Assertion('ax-%d' % i, '|-', [rand_term(rng, db, vs, 2, heads)])))
    nrule = rng.choice([0, 1, 1, 2, 2])
    for i in range(nrule):
        vs = rng.sample(fvars, rng.randint(1, 3))
        ne = rng.randint(1, 3)
        ess = []
        for j in range(ne):
            shape_e = rng.random()
            if shape_e < 0.4:
                e = V(rng.choice(vs))
            elif shape_e < 0.7:
                e = imp(V(rng.choice(vs)), V(rng.choice(vs)))
            else:
                e = rand_term(rng, db, vs, 1, heads)
            ess.append(('rule-%d.%d' % (i, j), e))
        concl = rand_term(rng, db, vs, 2, heads)
        logical.append(('a', Assertion('rule-%d' % i, '|-', [concl], ess=ess)))
    body = items_ctor + items_not + rules + logical
    # order: constructors/notations/rules/axioms interleaved at random (notations keep their relative order)
    if rng.random() < 0.6:
        keyed = [(rng.random(), i, it) for i, it in enumerate(body)]
        # keep relative order of notation declarations
        nots = [k for k in keyed if k[2][1].tc == '#Notation']
        nots_sorted = sorted(nots, key=lambda k: k[1])
        keys_sorted = sorted(k[0] for k in nots)
        repl = {id(k[2]): ks for k, ks in zip(nots_sorted, keys_sorted)}
        keyed = [((repl.get(id(it), r)), i, it) for (r, i, it) in keyed]
        keyed.sort(key=lambda k: (k[0], k[1]))
        body = [k[2] for k in keyed]
    db.items += body

    # ---- forward prover
    nt = rng.choice([0, 1, 1, 2, 2, 3, 3])
    if not [h for h in heads if h[1] == 0]:
        nt = max(nt, 1)                  # no closed terms without a constant of arity 0
    tv = rng.sample(fvars, nt)
    facts = {}
    order = []

    def add(node):
        if node.concl not in facts:
            facts[node.concl] = node
            order.append(node.concl)
        return facts[node.concl]

    def rterm(d=1):
        return rand_term(rng, db, tv, d, heads)

    def base():
        cands = [it[1] for it in rules[:2] + logical if not it[1].ess]
        a = rng.choice(cands)
        s = {v: rterm(rng.choice([0, 1, 1, 2])) for v in a.vars()}
        return add(Node(a, s, []))

    def apply_rule(a):
        s = {}
        hyps = []
        for _, e in a.ess:
            cands = []
            for f in order:
                s2 = tmatch(e, f, s)
                if s2 is not None:
                    cands.append((f, s2))
            if not cands:
                return None
            f, s = rng.choice(cands[-12:])
            hyps.append(facts[f])
        for v in a.vars():
            if v not in s:
                s[v] = rterm(1)
        if tsize(tsubst(a.terms[0], s)) > 60:
            return None
        return add(Node(a, s, hyps))

    mp = rules[2][1]

    def weaken():
        # from A derive B -> A  (prop-1 + mp)
        if not order:
            return None
        fa = facts[rng.choice(order)]
        b = rterm(1)
        p1n = add(Node(rules[0][1], {v1[0]: fa.concl, v1[1]: b}, []))
        return add(Node(mp, {vm[0]: fa.concl, vm[1]: imp(b, fa.concl)}, [p1n, fa]))

    def distribute():
        # from P -> (Q -> R) derive (P -> Q) -> (P -> R)
        for f in reversed(order):
            s = tmatch(imp(V('P'), imp(V('Q'), V('R'))), f, {})
            if s is not None and rng.random() < 0.6:
                p2n = add(Node(rules[1][1], {v2[0]: s['P'], v2[1]: s['Q'], v2[2]: s['R']}, []))
                return add(Node(mp, {vm[0]: f, vm[1]: imp(imp(s['P'], s['Q']), imp(s['P'], s['R']))}, [p2n, facts[f]]))
        return None

    nsteps = rng.randint(1, 7)
    base()
    last = None
    custom = [it[1] for it in logical if it[1].ess]
    userules = custom * 3 + [mp]
    for _ in range(nsteps):
        r = rng.random()
        n = None
        if r < 0.2:
            n = base()
        elif r < 0.4:
            n = weaken()
        elif r < 0.5:
            n = distribute()
        else:
            n = apply_rule(rng.choice(userules))
        if n is not None:
            last = n
    if custom and rng.random() < 0.5:
        # make a rule with essential hypotheses the last step more often
        for _ in range(3):
            n = apply_rule(rng.choice(custom))
            if n is not None:
                last = n
                break
    if last is None or rng.random() < 0.1:
        last = facts[rng.choice(order)]
    if nt >= 2 and len(tvars(last.concl)) < nt and rng.random() < 0.6:
        # prefer a derived statement that mentions more of the target variables
        best = max(order, key=lambda f: (len(tvars(f)), -tsize(f)))
        if len(tvars(best)) > len(tvars(last.concl)):
            last = facts[best]
    target = Assertion('goal' if rng.random() < 0.7 else 'thm-%d' % idx, '|-', [last.concl])
    db.items.append(('p', target, None))
    info = dict(rule_vars='first-floats' if classic or (v1 == fvars[:2] and v2 == fvars[:3] and vm == fvars[:2]) else 'other-floats', nvars=len(target.vars()), nnot=nnot, nconst=nconst, nax=nax, nrule=nrule, use_app=db.use_app,
                label_style=label_style, shuffled_f=(decl_order != list(names)))
    return db, target, last, info


# ------------------------------------------------------------------------------------------------
# reading .mm text of the modelled fragment back into a Database (for the shipped benchmarks / corpus)
# ------------------------------------------------------------------------------------------------

class OutOfModel(Exception):
    pass


def decode_letters(s):
    nums, cur = [], 0
    for ch in s:
        if 'A' <= ch <= 'T':
            nums.append(20 * cur + ord(ch) - ord('A') + 1)
            cur = 0
        elif 'U' <= ch <= 'Y':
            cur = 5 * cur + ord(ch) - ord('U') + 1
        elif ch == 'Z':
            nums.append(0)
        else:
            raise OutOfModel('proof letter ' + ch)
    return nums


def parse_mm(src):
    """-> (Database, {label: (plabels, nums)}).  Raises OutOfModel for anything the Coq model does not cover."""
    import re
    src = re.sub(r'\$\(.*?\$\)', ' ', src, flags=re.S)
    tk = src.split()
    db = Database()
    proofs = {}
    consts = []
    i = 0
    TC = ('#Pattern', '|-', '#Notation')

    def until(end):
        nonlocal i
        out = []
        while tk[i] != end:
            out.append(tk[i])
            i += 1
        i += 1
        return out

    def term(ts, j):
        t = ts[j]
        if t == '(':
            head = ts[j + 1]
            j += 2
            args = []
            while ts[j] != ')':
                a, j = term(ts, j)
                args.append(a)
            if not args:
                raise OutOfModel('empty application')
            return ('a', head, tuple(args)), j + 1
        if t in db.vars:
            return ('v', t), j + 1
        return ('a', t, ()), j + 1

    def terms(ts):
        out, j = [], 0
        while j < len(ts):
            a, j = term(ts, j)
            out.append(a)
        return out

    def statement(kw, label, ess):
        nonlocal i
        if kw == '$a':
            st = until('$.')
            proof = None
        else:
            st = until('$=')
            proof = until('$.')
        if st[0] not in TC:
            raise OutOfModel('typecode ' + st[0])
        a = Assertion(label, st[0], terms(st[1:]), ess)
        if st[0] != '#Notation' and len(a.terms) != 1:
            raise OutOfModel('statement with %d terms' % len(a.terms))
        if kw == '$a':
            db.items.append(('a', a))
        else:
            if not proof or proof[0] != '(':
                raise OutOfModel('normal-format proof')
            j = proof.index(')')
            proofs[label] = (proof[1:j], decode_letters(''.join(proof[j + 1:])))
            db.items.append(('p', a, None))

    while i < len(tk):
        t = tk[i]
        i += 1
        if t == '$c':
            consts += until('$.')
        elif t == '$v':
            db.vars += until('$.')
        elif t == '${':
            ess = []
            while True:
                lab = tk[i]
                kw = tk[i + 1]
                i += 2
                if kw == '$e':
                    st = until('$.')
                    if st[0] != '|-':
                        raise OutOfModel('$e typecode ' + st[0])
                    ts = terms(st[1:])
                    if len(ts) != 1:
                        raise OutOfModel('$e with %d terms' % len(ts))
                    ess.append((lab, ts[0]))
                elif kw in ('$a', '$p'):
                    statement(kw, lab, ess)
                    if tk[i] != '$}':
                        raise OutOfModel('block continues after its assertion')
                    i += 1
                    break
                else:
                    raise OutOfModel('in block: ' + kw)
        elif t in ('$d', '$}', '$['):
            raise OutOfModel('statement ' + t)
        else:
            lab, kw = t, tk[i]
            i += 1
            if kw == '$f':
                st = until('$.')
                if st[0] != '#Pattern':
                    raise OutOfModel('$f typecode ' + st[0])
                db.items.append(('f', lab, st[1]))
            elif kw in ('$a', '$p'):
                statement(kw, lab, [])
            else:
                raise OutOfModel('statement ' + kw)
    skip = set(TC) | {'(', ')', IMP, APP}
    db.consts = [c for c in consts if c not in skip and not c.startswith('#')]
    if any(c.startswith('"') for c in db.consts):
        raise OutOfModel('quoted constant')
    db.use_app = APP in consts
    return db, proofs

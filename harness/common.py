"""Shared machinery for the /verif checks (stdlib only; run with /venv/bin/python).

Verdict logic (DESIGN.md 2.6):
  proof stage   : regenerate Gen/*.v, `make` the property's .vo closure, audit for forbidden
                  vernacular, capture Print Assumptions.
  tie stage     : run the extracted model and the implementation on the same inputs.
  search stage  : only when one of the two broke: look for a concrete failing input.
"""
from __future__ import annotations

import atexit
import fcntl
import hashlib
import json
import os
import random
import re
import shutil
import subprocess
import sys
import tempfile
import time

VERIF = os.path.dirname(os.path.dirname(os.path.abspath(__file__)))
REPO = os.environ.get('PI2_REPO', '/repo')
COQ = os.path.join(VERIF, 'coq')
OCAML = os.path.join(VERIF, 'ocaml')
OUT = os.path.join(VERIF, 'out')
# runs against a scratch tree (PI2_REPO set) must not overwrite the evidence of /repo itself: they write to evidence_scratch/ (git-ignored)
EVID = os.path.join(VERIF, 'evidence' if 'PI2_REPO' not in os.environ else 'evidence_scratch')
PY = '/venv/bin/python'
PYSRC = os.path.join(REPO, 'generation', 'src')
SHIMS = os.path.join(VERIF, 'harness', 'shims')
NCPU = os.cpu_count() or 4

FORBIDDEN = re.compile(
    r'\b(Admitted|admit|Axiom|Axioms|Parameter|Parameters|Conjecture|Conjectures|Hypothesis|Hypotheses|Variable|Variables)\b'
    r'|Unset\s+Guard|Unset\s+Positivity|Unset\s+Universe|bypass_check|Admit\s+Obligations|-type-in-type|-impredicative-set'
    r'|Guard\s+Checking|Positivity\s+Checking|Universe\s+Checking')

_scratch: list[str] = []


def scratch_dir(prefix='pi2v.') -> str:
    d = tempfile.mkdtemp(prefix=prefix, dir=os.environ.get('TMPDIR', '/tmp'))
    _scratch.append(d)
    return d


@atexit.register
def _cleanup():
    for d in _scratch:
        shutil.rmtree(d, ignore_errors=True)


def _on_term(signum, frame):  # a check stopped by `timeout` (SIGTERM) still removes its scratch directories (atexit runs on SystemExit)
    sys.exit(128 + signum)


def _sweep_stale(max_age_s=12 * 3600):
    """scratch directories of a run that was SIGKILLed are never removed by atexit: drop our own leftovers once they are half a day old"""
    import time
    tmp = os.environ.get('TMPDIR', '/tmp')
    try:
        for n in os.listdir(tmp):
            if n.startswith('pi2') and '.' in n:
                d = os.path.join(tmp, n)
                if os.path.isdir(d) and not os.path.islink(d) and time.time() - os.path.getmtime(d) > max_age_s:
                    shutil.rmtree(d, ignore_errors=True)
    except OSError:
        pass


try:
    import signal as _signal
    if _signal.getsignal(_signal.SIGTERM) == _signal.SIG_DFL:
        _signal.signal(_signal.SIGTERM, _on_term)
except (ValueError, OSError):  # not the main thread
    pass
_sweep_stale()


def sh(cmd, cwd=None, timeout=600, env=None, input=None):
    e = dict(os.environ)
    if env:
        e.update(env)
    p = subprocess.run(cmd, cwd=cwd, shell=isinstance(cmd, str), capture_output=True, text=True,
                       timeout=timeout, env=e, input=input)
    return p.returncode, p.stdout, p.stderr


class BuildLock:
    """serialise builds in /verif/coq and /verif/ocaml between concurrently running checks"""

    def __enter__(self):
        os.makedirs(OUT, exist_ok=True)
        self.f = open(os.path.join(OUT, '.build.lock'), 'w')
        fcntl.flock(self.f, fcntl.LOCK_EX)
        return self

    def __exit__(self, *a):
        fcntl.flock(self.f, fcntl.LOCK_UN)
        self.f.close()


# ------------------------------------------------------------------------------------------------
# Coq side
# ------------------------------------------------------------------------------------------------

def coq_files():
    out = []
    for root, _, fs in os.walk(COQ):
        for f in fs:
            if f.endswith('.v'):
                out.append(os.path.relpath(os.path.join(root, f), COQ))
    return sorted(out)


def write_if_changed(path, text):
    try:
        if open(path).read() == text:
            return False
    except FileNotFoundError:
        pass
    os.makedirs(os.path.dirname(path), exist_ok=True)
    with open(path, 'w') as f:
        f.write(text)
    return True


def coq_makefile():
    files = [f for f in coq_files() if not f.startswith('Extract/') and not f.startswith('Cases/')]
    proj = ('-Q . Pi2\n'
            '-arg -w -arg -notation-overridden,-deprecated-hint-without-locality,'
            '-deprecated-instance-without-locality,-deprecated-hint-rewrite-without-locality\n'
            + '\n'.join(files) + '\n')
    changed = write_if_changed(os.path.join(COQ, '_CoqProject'), proj)
    if changed or not os.path.exists(os.path.join(COQ, 'Makefile')):
        rc, o, e = sh('coq_makefile -f _CoqProject -o Makefile', cwd=COQ)
        if rc != 0:
            raise RuntimeError('coq_makefile failed: ' + e)


def coq_make(targets=None, timeout=1500):
    """full .vo build (never -vos) of the given targets (paths relative to coq/, '.vo')"""
    with BuildLock():
        coq_makefile()
        tg = ' '.join(targets) if targets else ''
        cmd = f'timeout {timeout} make -j{min(NCPU, 8)} {tg}'
        rc, o, e = sh(cmd, cwd=COQ, timeout=timeout + 30)
        return rc == 0, (o + e)


def coq_audit(files=None):
    """forbidden vernacular anywhere in the development (comments stripped)"""
    bad = []
    for f in (files or coq_files()):
        src = open(os.path.join(COQ, f)).read()
        src = strip_comments(src)
        for i, line in enumerate(src.split('\n'), 1):
            m = FORBIDDEN.search(line)
            if m:
                # `Variable`/`Hypothesis` are allowed inside a Section only; checked separately
                if m.group(0) in ('Variable', 'Variables', 'Hypothesis', 'Hypotheses'):
                    if in_section(src, i):
                        continue
                bad.append(f'{f}:{i}: {line.strip()}')
    return bad


def strip_comments(src):
    """remove Coq comments and blank out the contents of string literals"""
    out = []
    depth = 0
    i = 0
    while i < len(src):
        if depth == 0 and src[i] == '"':
            j = i + 1
            while j < len(src):
                if src[j] == '"':
                    if j + 1 < len(src) and src[j + 1] == '"':
                        j += 2
                        continue
                    break
                j += 1
            out.append('""' + '\n' * src[i:j].count('\n'))
            i = j + 1
            continue
        if src.startswith('(*', i):
            depth += 1
            i += 2
        elif src.startswith('*)', i) and depth > 0:
            depth -= 1
            i += 2
        else:
            if depth == 0:
                out.append(src[i])
            elif src[i] == '\n':
                out.append('\n')
            i += 1
    return ''.join(out)


def in_section(src, lineno):
    depth = 0
    for i, line in enumerate(src.split('\n'), 1):
        if i >= lineno:
            break
        if re.match(r'\s*Section\s+\w+', line):
            depth += 1
        elif re.match(r'\s*End\s+\w+', line) and depth > 0:
            depth -= 1
    return depth > 0


def coq_direct_deps(f):
    """Pi2-internal files a .v file Requires directly"""
    deps = []
    src = strip_comments(open(os.path.join(COQ, f)).read())
    for m in re.finditer(r'From\s+Pi2\s+Require\s+(?:Import|Export)?\s*([\w.\s]+?)\.\s', src + ' '):
        for mod in m.group(1).split():
            cand = mod.replace('.', '/') + '.v'
            if os.path.exists(os.path.join(COQ, cand)) and cand not in deps:
                deps.append(cand)
    for m in re.finditer(r'Require\s+(?:Import|Export)?\s*((?:Pi2\.[\w.]+\s*)+)\.\s', src + ' '):
        for mod in m.group(1).split():
            cand = mod[len('Pi2.'):].replace('.', '/') + '.v'
            if os.path.exists(os.path.join(COQ, cand)) and cand not in deps:
                deps.append(cand)
    return deps


def coq_closure(vfile):
    """Pi2-internal dependency closure of a .v file (by its Require lines)"""
    seen = []

    def visit(f):
        if f in seen:
            return
        seen.append(f)
        for d in coq_direct_deps(f):
            visit(d)

    visit(vfile)
    return seen


def coq_fresh(files):
    """those files whose .vo is newer than the source AND than the (fresh) .vo of everything they Require: after a failed make a stale .vo
    of a file whose dependency changed must not be counted as a discharged obligation"""
    memo = {}

    def fresh(f):
        if f in memo:
            return memo[f]
        memo[f] = False
        vo = os.path.join(COQ, f + 'o')
        ok = os.path.exists(vo) and os.path.getmtime(vo) >= os.path.getmtime(os.path.join(COQ, f))
        if ok:
            for d in coq_direct_deps(f):
                if not fresh(d) or os.path.getmtime(os.path.join(COQ, d + 'o')) > os.path.getmtime(vo):
                    ok = False
                    break
        memo[f] = ok
        return ok
    return [f for f in files if fresh(f)]


STMT = re.compile(r'^\s*(?:Local\s+|Global\s+|#\[[^\]]*\]\s*)?(Lemma|Theorem|Example|Corollary|Fact|Remark|Proposition)\s+([\w\']+)', re.M)


def count_obligations(files):
    names = []
    for f in files:
        src = strip_comments(open(os.path.join(COQ, f)).read())
        for m in STMT.finditer(src):
            names.append(f'{f}:{m.group(2)}')
    return names


def prop_check(cid, timeout=1500):
    """Proof stage for property `cid`: build Props/<cid>.vo and its closure, audit, capture
    Print Assumptions. Returns dict(ok, log, obligations, discharged, assumptions, files)."""
    vfile = f'Props/{cid}.v'
    res = dict(ok=False, log='', obligations=0, discharged=0, assumptions=[], files=[], theorems=[])
    if not os.path.exists(os.path.join(COQ, vfile)):
        res['log'] = f'{vfile} missing'
        return res
    files = coq_closure(vfile)
    res['files'] = files
    obl = count_obligations(files)
    res['obligations'] = len(obl)
    res['theorems'] = [o.split(':')[1] for o in obl if o.startswith(vfile + ':')]
    bad = coq_audit(files)
    if bad:
        res['log'] = 'forbidden vernacular:\n' + '\n'.join(bad)
        return res
    ok, log = coq_make([vfile + 'o'], timeout=timeout)
    if not ok:
        res['log'] = log[-6000:]
        # which files of the closure did compile: count their statements as discharged
        done = coq_fresh(files)
        res['discharged'] = len(count_obligations(done))
        return res
    # re-run coqc on the property file alone to capture Print Assumptions output
    with BuildLock():
        rc, o, e = sh(f'timeout 600 coqc -Q . Pi2 -w -notation-overridden {vfile}', cwd=COQ, timeout=630)
    if rc != 0:
        res['log'] = (o + e)[-6000:]
        return res
    res['assumptions'] = parse_assumptions(o)
    res['discharged'] = len(obl)
    res['ok'] = True
    res['log'] = o[-3000:]
    return res


def parse_assumptions(out):
    """collect axiom names printed by Print Assumptions (lines `name : type` after 'Axioms:')"""
    axioms = set()
    blocks = re.split(r'\n(?=Axioms:|Closed under the global context)', '\n' + out)
    for b in blocks:
        if b.startswith('Axioms:'):
            for m in re.finditer(r'^([A-Za-z_][\w.\']*)\s*:', b[len('Axioms:'):], re.M):
                axioms.add(m.group(1))
    return sorted(axioms)


# ------------------------------------------------------------------------------------------------
# OCaml side (extracted models)
# ------------------------------------------------------------------------------------------------

def build_mlref(name, extract_v, model_ml, driver_ml, exe, deps_vo):
    """extract `extract_v` (writes <model_ml>.ml/.mli into ocaml/gen) and link driver.  Returns
    (ok, log, path)."""
    # everything the extraction file itself Requires is a dependency too (robust against an incomplete deps_vo list)
    deps_vo = list(dict.fromkeys(list(deps_vo) + [f + 'o' for f in coq_closure(extract_v)[1:]]))
    ok, log = coq_make(deps_vo)
    if not ok:
        return False, log[-4000:], None
    gen = os.path.join(OCAML, 'gen')
    os.makedirs(gen, exist_ok=True)
    with BuildLock():
        srcs = [os.path.join(COQ, extract_v)] + [os.path.join(COQ, d[:-1]) for d in deps_vo] + [os.path.join(OCAML, driver_ml)]
        exe_path = os.path.join(OCAML, exe)
        stamp = max(os.path.getmtime(s) for s in srcs if os.path.exists(s))
        for d in deps_vo:
            for f in coq_closure(d[:-1]):
                stamp = max(stamp, os.path.getmtime(os.path.join(COQ, f)))
        if os.path.exists(exe_path) and os.path.getmtime(exe_path) >= stamp:
            return True, 'up to date', exe_path
        rc, o, e = sh(f'timeout 300 coqc -Q {COQ} Pi2 -w -all {os.path.join(COQ, extract_v)}', cwd=gen, timeout=330)
        if rc != 0:
            return False, (o + e)[-4000:], None
        rc, o, e = sh(f'ocamlfind ocamlopt -O3 -w -a -I gen gen/{model_ml}.mli gen/{model_ml}.ml {driver_ml} -o {exe}',
                      cwd=OCAML, timeout=300)
        if rc != 0:
            return False, (o + e)[-4000:], None
        return True, 'built', exe_path


# ------------------------------------------------------------------------------------------------
# Rust side: scratch copy of the CURRENT lib.rs + harness module, stable rustc
# ------------------------------------------------------------------------------------------------

def build_rust():
    d = scratch_dir('pi2rs.')
    lib = open(os.path.join(REPO, 'rust', 'src', 'lib.rs')).read()
    har = open(os.path.join(VERIF, 'harness', 'rust', 'harness.rs')).read()
    with open(os.path.join(d, 'lib.rs'), 'w') as f:
        f.write(lib + '\n' + har)
    base = 'rustc +stable --edition 2021 -O --cap-lints allow'
    rc, o, e = sh(f'{base} --crate-type rlib --crate-name checker lib.rs', cwd=d, timeout=300)
    if rc != 0:
        return None, None, 'rlib: ' + e[-3000:]
    rc, o, e = sh(f'{base} --extern checker=libchecker.rlib -L . {VERIF}/harness/rust/main.rs -o rsref', cwd=d, timeout=300)
    if rc != 0:
        return None, None, 'rsref: ' + e[-3000:]
    shutil.copy(os.path.join(REPO, 'rust', 'src', 'main.rs'), os.path.join(d, 'realmain.rs'))
    rc, o, e = sh(f'{base} --extern checker=libchecker.rlib -L . realmain.rs -o checker_bin', cwd=d, timeout=300)
    real = os.path.join(d, 'checker_bin') if rc == 0 else None
    return os.path.join(d, 'rsref'), real, ''


def run_lines(exe, lines, args=(), timeout=900, env=None):
    """feed request lines to a line-protocol process, return response lines"""
    if not lines:
        return []
    e = dict(os.environ)
    if env:
        e.update(env)
    p = subprocess.run([exe, *args], input='\n'.join(lines) + '\n', capture_output=True, text=True,
                       timeout=timeout, env=e)
    out = p.stdout.split('\n')
    if out and out[-1] == '':
        out.pop()
    return out


def run_lines_parallel(exe, lines, args=(), chunks=NCPU, timeout=900, env=None):
    if len(lines) < 2000:
        return run_lines(exe, lines, args, timeout, env)
    from concurrent.futures import ThreadPoolExecutor
    n = (len(lines) + chunks - 1) // chunks
    parts = [lines[i:i + n] for i in range(0, len(lines), n)]
    with ThreadPoolExecutor(max_workers=chunks) as ex:
        outs = list(ex.map(lambda part: run_lines(exe, part, args, timeout, env), parts))
    res = []
    for part, o in zip(parts, outs):
        if len(o) != len(part):
            o = o + ['<missing>'] * (len(part) - len(o))
        res.extend(o)
    return res


def py_env(hashseed='0', shims=False):
    pp = PYSRC
    if shims:
        pp = SHIMS + os.pathsep + pp
    return {'PYTHONPATH': pp, 'PYTHONHASHSEED': str(hashseed), 'PYTHONDONTWRITEBYTECODE': '1'}


def run_py(script, lines, hashseed='0', shims=False, timeout=900, args=()):
    """run a Python implementation runner (harness/impl/<script>) under /venv with the repo on the path"""
    p = subprocess.run([PY, os.path.join(VERIF, 'harness', 'impl', script), *args],
                       input='\n'.join(lines) + '\n', capture_output=True, text=True,
                       timeout=timeout, env={**os.environ, **py_env(hashseed, shims)})
    out = p.stdout.split('\n')
    if out and out[-1] == '':
        out.pop()
    return out, p.stderr


# ------------------------------------------------------------------------------------------------
# Known findings, evidence, verdict
# ------------------------------------------------------------------------------------------------

def known_findings(cid):
    """entries of kind "finding" for this property: KNOWN_FINDINGS.json plus known_findings/*.json
    (per-property fragments, merged into the main file by harness/mkmanifest.py)"""
    items = []
    paths = [os.path.join(VERIF, 'KNOWN_FINDINGS.json')]
    kd = os.path.join(VERIF, 'known_findings')
    if os.path.isdir(kd):
        paths += [os.path.join(kd, f) for f in sorted(os.listdir(kd)) if f.endswith('.json')]
    for path in paths:
        try:
            data = json.load(open(path))
        except FileNotFoundError:
            continue
        items += data.get('findings', [])
    seen, out = set(), []
    for k in items:
        if k['property'] == cid and k.get('kind') == 'finding' and k['signature'] not in seen:
            seen.add(k['signature'])
            out.append(k)
    return out


class Report:
    """collects what one check run did; decides exit status; writes evidence"""

    def __init__(self, cid, tier, seed):
        self.cid, self.tier, self.seed = cid, tier, seed
        self.t0 = time.time()
        self.violations = []      # (signature, description, replay-dict)
        self.known_hit = []
        self.coverage = dict(evaluations=0, distinct_nontrivial=0, rule='', samples=[])
        self.assumptions = []
        self.notes = []
        self.proof = None
        self._distinct = set()
        self.hist = {}
        self.known = known_findings(cid)

    # ---- coverage accounting
    def case(self, key, nontrivial=True, kind=None):
        self.coverage['evaluations'] += 1
        if nontrivial:
            h = hashlib.sha1(repr(key).encode()).digest()[:8]
            self._distinct.add(h)
        if kind is not None:
            self.hist[kind] = self.hist.get(kind, 0) + 1

    def sample(self, s, limit=6):
        if len(self.coverage['samples']) < limit:
            self.coverage['samples'].append(s)

    # ---- proof stage
    def proof_stage(self, timeout=1500):
        p = prop_check(self.cid, timeout=timeout)
        self.proof = p
        if p['ok'] and self.tier == 'thorough':
            # independent re-check of the compiled property file and everything it depends on
            with BuildLock():
                rc, o, e = sh(f'timeout 1500 coqchk -silent -o -Q . Pi2 Pi2.Props.{self.cid}', cwd=COQ, timeout=1530)
            txt = o + e
            p['coqchk'] = txt[-1500:]
            m = re.search(r'\* Axioms:(.*?)\n\s*\n\* Constants', txt, re.S)
            p['coqchk_axioms'] = [l.strip() for l in (m.group(1).split('\n') if m else []) if l.strip()]
            bad = rc != 0 or any(k in txt for k in ('relying on type-in-type: <none>',)) is False
            if rc != 0 or 'type-in-type: <none>' not in txt or 'unsafe (co)fixpoints: <none>' not in txt \
                    or 'positivity is assumed: <none>' not in txt:
                p['ok'] = False
                p['log'] = 'coqchk failed or reports assumed checks:\n' + txt[-3000:]
        return p

    # ---- violations
    def violation(self, signature, description, replay):
        for k in self.known:
            if k['signature'] == signature:
                if signature not in [s for s, _ in self.known_hit]:
                    self.known_hit.append((signature, k.get('what', description)))
                return False
        if signature not in [v[0] for v in self.violations]:
            self.violations.append((signature, description, replay))
        return True

    def finish(self, level='proof', trusted_base=None, checker_cmd=None, extra=None):
        os.makedirs(EVID, exist_ok=True)
        os.makedirs(OUT, exist_ok=True)
        cov = self.coverage
        cov['distinct_nontrivial'] = len(self._distinct)
        cov['histogram'] = self.hist
        if self.proof is not None:
            cov['obligations'] = self.proof['obligations']
            cov['discharged'] = self.proof['discharged']
            cov['property_theorems'] = self.proof['theorems']
            cov['coq_files'] = self.proof['files']
            cov['print_assumptions_axioms'] = self.proof['assumptions']
            if 'coqchk_axioms' in self.proof:
                cov['coqchk_axioms'] = self.proof['coqchk_axioms']
        cov['checker_cmd'] = checker_cmd or (f'cd {COQ} && coq_makefile -f _CoqProject -o Makefile && make -j{NCPU} Props/{self.cid}.vo '
                                             f'&& coqc -Q . Pi2 Props/{self.cid}.v  (Coq 8.16.1, full .vo build)')
        cov['trusted_base'] = trusted_base or []
        if extra:
            cov.update(extra)
        for sig, what in self.known_hit:
            print(f'KNOWN-FINDING: property={self.cid} {what}')
        rc = 0
        for i, (sig, desc, replay) in enumerate(self.violations):
            path = os.path.join(OUT, f'{self.cid}_violation_{i}.json')
            with open(path, 'w') as f:
                json.dump(dict(property=self.cid, signature=sig, description=desc, replay=replay,
                               seed=self.seed, tier=self.tier), f, indent=1)
            tail = ' no-failing-input-found' if replay.get('no_failing_input_found') else ''
            print(f'VIOLATION property={self.cid} replay={path}{tail}')
            rc = 1
        ev = dict(property_id=self.cid, tier=self.tier, seed=self.seed, level=level, coverage=cov,
                  assumptions=self.assumptions, wall_s=round(time.time() - self.t0, 2),
                  violations=len(self.violations),
                  known_findings_reproduced=[s for s, _ in self.known_hit], notes=self.notes)
        with open(os.path.join(EVID, f'{self.cid}.json'), 'w') as f:
            json.dump(ev, f, indent=1, default=str)
        status = 'OK' if rc == 0 else 'FAIL'
        print(f'[{self.cid}] {status} tier={self.tier} evaluations={cov["evaluations"]} '
              f'distinct_nontrivial={cov["distinct_nontrivial"]} obligations={cov.get("obligations")} '
              f'discharged={cov.get("discharged")} wall={ev["wall_s"]}s')
        return rc


TRUSTED_COMMON = [
    'Coq 8.16.1 kernel (coqc, full .vo build; vm_compute used for finite tables and witnesses; no native_compute)',
    'Extraction: ExtrOcamlBasic only (Extract Inductive bool/option/unit/list/prod/sumbool to OCaml natives, '
    'Extract Inlined Constant andb/orb/negb/fst/snd as shipped); N/positive/Z/nat stay Coq inductives; OCaml 4.13.1 ocamlopt',
    'OCaml line-protocol driver (hex/int<->N conversion and printing)',
    'Python harness: generators, comparers, oracles (tie only, never the reason a property holds)',
    'The theorems are about Gallina models; Rust/Python sources are related to them only by the correspondence check '
    '(differential, finite) and/or the translators',
]


def rng_for(seed, label):
    return random.Random(f'{seed}:{label}')


def env_seed():
    try:
        return int(os.environ.get('VERIF_SEED', '0'))
    except ValueError:
        return 0

"""usage: seedstore.py <verify-log> <seed-out-dir> <property> <detection text> [<catching check>]
copies a verified seeded change into /verif/seeded/<Cxx-n>/ and records verification + detection in meta.json"""
import json, os, re, shutil, sys
log, src, cid, how = sys.argv[1:5]
check = sys.argv[5] if len(sys.argv) > 5 else cid
src = src.rstrip('/')
ver = None
for l in open(log):
    m = re.match(r'(\S+) clean=(\d+) patched=(\d+) tests=\[(.*)\]', l.strip())
    if m and m.group(1).rstrip('/') == src:
        ver = (int(m.group(2)), int(m.group(3)), m.group(4))
if ver is None or ver[0] != 0 or ver[1] == 0 or '188 passed' not in ver[2]:
    print('NOT VERIFIED', src, ver)
    sys.exit(1)
name = '-'.join(src.split('/')[-2:])
dst = '/verif/seeded/' + name
os.makedirs(dst, exist_ok=True)
for f in os.listdir(src):
    pth = os.path.join(src, f)
    if os.path.isfile(pth) and os.path.getsize(pth) < 300000:
        shutil.copy(pth, dst)
meta = json.load(open(os.path.join(src, 'meta.json')))
meta['property'] = cid
meta['lead_verification'] = {'demo_exit_on_clean_tree': ver[0], 'demo_exit_with_patch': ver[1], 'pinned_suite_with_patch': ver[2],
                             'how': 'harness/seedverify.sh in a fresh git worktree of /repo: demo on clean tree, git apply patch.diff, demo again, full pytest generation/src/tests'}
meta['detected_by'] = {'check': check, 'how': how, 'run': f'harness/seedrun.sh seeded/{name}/patch.diff {check}  (scratch worktree via PI2_REPO)'}
json.dump(meta, open(os.path.join(dst, 'meta.json'), 'w'), indent=1)
print('stored', name)

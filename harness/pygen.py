"""Generators and the independent reference ("textbook") functions for the Py checks.
Terms are the nested tuples of pycodec.  stdlib only.

Reference functions (used by the property oracles, never by the model):
  ref_esubst / ref_ssubst / ref_inst : the operations on notation-free patterns
  ref_expand                         : full notation expansion, innermost first
  fv_e                               : free element variables of a concrete (metavariable-free) pattern
"""
from __future__ import annotations

import pycodec as PC

mv = PC.mv


# ------------------------------------------------------------------------------------------------
# reference operations on notation-free terms
# ------------------------------------------------------------------------------------------------

def ref_esubst(p, x, plug, drop=True):
    k = p[0]
    if k == 'e':
        return plug if p[1] == x else p
    if k in 'sy':
        return p
    if k in 'ia':
        return (k, ref_esubst(p[1], x, plug, drop), ref_esubst(p[2], x, plug, drop))
    if k == 'x':
        return p if p[1] == x else ('x', p[1], ref_esubst(p[2], x, plug, drop))
    if k == 'm':
        return ('m', p[1], ref_esubst(p[2], x, plug, drop))
    if k == 'v':
        if drop and x in p[2]:
            return p
        return ('E', p, x, plug)
    if k in 'ES':
        return ('E', p, x, plug)
    raise ValueError(p)


def ref_ssubst(p, X, plug, drop=True):
    k = p[0]
    if k == 's':
        return plug if p[1] == X else p
    if k in 'ey':
        return p
    if k in 'ia':
        return (k, ref_ssubst(p[1], X, plug, drop), ref_ssubst(p[2], X, plug, drop))
    if k == 'x':
        return ('x', p[1], ref_ssubst(p[2], X, plug, drop))
    if k == 'm':
        return p if p[1] == X else ('m', p[1], ref_ssubst(p[2], X, plug, drop))
    if k == 'v':
        if drop and X in p[3]:
            return p
        return ('S', p, X, plug)
    if k in 'ES':
        return ('S', p, X, plug)
    raise ValueError(p)


def ref_inst(p, d, drop=True):
    """simultaneous instantiation of a notation-free pattern; d: dict id -> notation-free term"""
    if not d:
        return p
    k = p[0]
    if k in 'esy':
        return p
    if k == 'v':
        return d.get(p[1], p)
    if k in 'ia':
        return (k, ref_inst(p[1], d, drop), ref_inst(p[2], d, drop))
    if k in 'xm':
        return (k, p[1], ref_inst(p[2], d, drop))
    if k == 'E':
        return ref_esubst(ref_inst(p[1], d, drop), p[2], ref_inst(p[3], d, drop), drop)
    if k == 'S':
        return ref_ssubst(ref_inst(p[1], d, drop), p[2], ref_inst(p[3], d, drop), drop)
    raise ValueError(p)


def ref_expand(p, drop=True):
    k = p[0]
    if k in 'esyv':
        return p
    if k in 'ia':
        return (k, ref_expand(p[1], drop), ref_expand(p[2], drop))
    if k in 'xm':
        return (k, p[1], ref_expand(p[2], drop))
    if k in 'ES':
        return (k, ref_expand(p[1], drop), p[2], ref_expand(p[3], drop))
    if k == 'I':
        return ref_inst(ref_expand(p[1], drop), {key: ref_expand(v, drop) for key, v in p[2]}, drop)
    raise ValueError(p)


def ref_fresh(p, x):
    """the freshness judgement on a notation-free pattern (pattern.py evar_is_free = lib.rs e_fresh)"""
    k = p[0]
    if k == 'e':
        return p[1] != x
    if k in 'sy':
        return True
    if k in 'ia':
        return ref_fresh(p[1], x) and ref_fresh(p[2], x)
    if k == 'x':
        return p[1] == x or ref_fresh(p[2], x)
    if k == 'm':
        return ref_fresh(p[2], x)
    if k == 'v':
        return x in p[2]
    if k == 'E':
        if p[2] == x:
            return ref_fresh(p[3], x)
        return ref_fresh(p[1], x) and ref_fresh(p[3], x)
    if k == 'S':
        return ref_fresh(p[1], x) and ref_fresh(p[3], x)
    raise ValueError(p)


def ref_metavars(p):
    k = p[0]
    if k in 'esy':
        return set()
    if k == 'v':
        return {p[1]}
    if k in 'ia':
        return ref_metavars(p[1]) | ref_metavars(p[2])
    if k in 'xm':
        return ref_metavars(p[2])
    if k in 'ES':
        return ref_metavars(p[1]) | ref_metavars(p[3])
    raise ValueError(p)


def fv_e(p):
    """free element variables of a concrete pattern (no metavariables / pending substitutions)"""
    k = p[0]
    if k == 'e':
        return {p[1]}
    if k in 'sy':
        return set()
    if k in 'ia':
        return fv_e(p[1]) | fv_e(p[2])
    if k == 'x':
        return fv_e(p[2]) - {p[1]}
    if k == 'm':
        return fv_e(p[2])
    raise ValueError(f'not concrete: {p}')


def is_concrete(p):
    return not PC.has_kind(p, 'vESI')


def subst_free(p):
    return not PC.has_kind(p, 'ES')


def notation_free(p):
    return not PC.has_kind(p, 'I')


# ------------------------------------------------------------------------------------------------
# generators
# ------------------------------------------------------------------------------------------------

class Notn:
    """a notation as data: arity, definition term, format chunks; `expr` locates a shipped object"""

    def __init__(self, label, arity, definition, chunks, expr=None, family=None, params=()):
        self.label, self.arity, self.definition, self.chunks = label, arity, definition, chunks
        self.expr, self.family, self.params = expr, family, tuple(params)

    def __call__(self, *args):
        assert len(args) == self.arity
        return ('I', self.definition, tuple(enumerate(args)))

    def toks(self):
        return PC.notation_toks(self.arity, self.definition, self.chunks)


class Gen:
    def __init__(self, rng, notations=(), nvars=3, nmv=4, syms=(1, 2, 3)):
        self.rng = rng
        self.notations = list(notations)
        self.nvars, self.nmv, self.syms = nvars, nmv, list(syms)

    # ---- leaves
    def var(self):
        return self.rng.randrange(self.nvars)

    def mvid(self):
        return self.rng.randrange(self.nmv)

    def metavar(self, constrained=None):
        r = self.rng
        if constrained is None:
            constrained = r.random() < 0.3
        if not constrained:
            return mv(self.mvid())

        def sub():
            return tuple(sorted(r.sample(range(self.nvars), r.randrange(0, min(3, self.nvars + 1)))))
        return mv(self.mvid(), sub(), sub(), sub() if r.random() < 0.3 else (), sub() if r.random() < 0.3 else (),
                  sub() if r.random() < 0.15 else ())

    def leaf(self, mvs=True):
        r = self.rng
        c = r.random()
        if mvs and c < 0.4:
            return self.metavar()
        if c < 0.7:
            return ('e', self.var())
        if c < 0.85:
            return ('s', self.var())
        return ('y', r.choice(self.syms))

    # ---- terms
    def term(self, depth, notation=0.3, subst=0.12, mvs=True, raw_inst=0.06):
        """random generator-side pattern; `notation` = probability of a notation application at a node,
        `subst` = probability of an ESubst/SSubst node, `raw_inst` = hand-made (possibly partial) Instantiate"""
        r = self.rng
        if depth <= 0 or r.random() < 0.12:
            return self.leaf(mvs)
        c = r.random()
        kw = dict(notation=notation, subst=subst, mvs=mvs, raw_inst=raw_inst)
        if c < notation and self.notations:
            nt = r.choice(self.notations)
            return nt(*[self.term(depth - 1, **kw) for _ in range(nt.arity)])
        c -= notation
        if c < raw_inst:
            body = self.term(depth - 1, **kw)
            keys = r.sample(range(self.nmv + 1), r.randrange(0, 3))
            return ('I', body, tuple((k, self.term(depth - 1, **kw)) for k in keys))
        c -= raw_inst
        if c < subst and mvs:
            # well-typed: the inner pattern is a MetaVar / ESubst / SSubst chain (rarely anything)
            inner = self.subst_chain(depth - 1, **kw) if r.random() < 0.85 else self.term(depth - 1, **kw)
            return (r.choice('ES'), inner, self.var(), self.term(depth - 1, **kw))
        k = r.choice('iiiaaxm')
        if k in 'ia':
            return (k, self.term(depth - 1, **kw), self.term(depth - 1, **kw))
        return (k, self.var(), self.term(depth - 1, **kw))

    def subst_chain(self, depth, **kw):
        r = self.rng
        if depth <= 0 or r.random() < 0.6:
            return self.metavar()
        return (r.choice('ES'), self.subst_chain(depth - 1, **kw), self.var(), self.term(depth - 1, **kw))

    def delta(self, depth, keys=None, **kw):
        r = self.rng
        if keys is None:
            keys = r.sample(range(self.nmv + 1), r.randrange(0, min(4, self.nmv + 1)))
        return tuple((k, self.term(depth, **kw)) for k in keys)

    def mutate(self, t):
        """replace one random subterm by a fresh small term, or (40%) change one number in place
        (variable / binder / symbol / metavariable id / substitution variable) keeping the shape"""
        r = self.rng
        paths = list(self._paths(t, ()))
        if r.random() < 0.4:
            r.shuffle(paths)
            for path in paths:
                sub = self._get(t, path)
                k = sub[0]
                if k in 'esxm':
                    new = (k, (sub[1] + 1 + r.randrange(self.nvars - 1)) % self.nvars if self.nvars > 1 else sub[1] + 1) + sub[2:]
                elif k == 'y':
                    new = ('y', sub[1] + 1)
                elif k == 'v':
                    new = ('v', (sub[1] + 1) % (self.nmv + 1)) + sub[2:]
                elif k in 'ES':
                    new = (k, sub[1], (sub[2] + 1) % max(2, self.nvars), sub[3])
                else:
                    continue
                return self._replace(t, path, new)
        path = r.choice(paths)
        return self._replace(t, path, self.term(1))

    def _get(self, t, path):
        for h in path:
            t = t[2][h[1]][1] if isinstance(h, tuple) else t[h]
        return t

    def _paths(self, t, pre):
        yield pre
        k = t[0]
        if k in 'ia':
            yield from self._paths(t[1], pre + (1,))
            yield from self._paths(t[2], pre + (2,))
        elif k in 'xm':
            yield from self._paths(t[2], pre + (2,))
        elif k in 'ES':
            yield from self._paths(t[1], pre + (1,))
            yield from self._paths(t[3], pre + (3,))
        elif k == 'I':
            yield from self._paths(t[1], pre + (1,))
            for j, (_, v) in enumerate(t[2]):
                yield from self._paths(v, pre + (('d', j),))

    def _replace(self, t, path, new):
        if not path:
            return new
        h = path[0]
        if isinstance(h, tuple):
            j = h[1]
            d = list(t[2])
            d[j] = (d[j][0], self._replace(d[j][1], path[1:], new))
            return ('I', t[1], tuple(d))
        l = list(t)
        l[h] = self._replace(t[h], path[1:], new)
        return tuple(l)

    def random_notation(self, depth=2, label='gen'):
        """a generated notation: random arity 0..3, body mentions only metavariables < arity"""
        r = self.rng
        arity = r.randrange(0, 4)
        save = self.nmv
        c = r.random()
        try:
            if arity == 0:
                body = self.term(depth, mvs=False, subst=0.0, raw_inst=0.0)
            else:
                self.nmv = arity
                if c < 0.08:
                    body = mv(r.randrange(arity))                    # bare metavariable (D4c shape)
                elif c < 0.2:
                    body = self.term(depth, subst=0.25, raw_inst=0.0)   # substitution inside the body
                else:
                    body = self.term(depth, subst=0.0, raw_inst=0.0)
        finally:
            self.nmv = save
        holes = list(range(arity))
        r.shuffle(holes)
        chunks = [('L', label + '(')]
        for j, h in enumerate(holes):
            if j:
                chunks.append(('L', ', '))
            chunks.append(('H', h))
        chunks.append(('L', ')'))
        return Notn(label, arity, body, chunks)


def ignored_positions(nt, drop=True):
    """argument positions the (expanded) definition of nt never mentions"""
    mvs = ref_metavars(ref_expand(nt.definition, drop))
    return [i for i in range(nt.arity) if i not in mvs]


def related_pair(rng, gen, drop=True):
    """two patterns built from ONE notation definition whose relation (equal / different expansions) is not visible
    from the instantiation dicts alone; returns (a, b, kind):
      ignored-arg   same notation, the applications differ only in an argument the definition ignores  (equal)
      partial-full  a partial application (a metavariable of the definition left open) vs a fuller one  (mostly different)
      extra-key     an application with an additional, unused key in its dict                           (equal)
      reordered     the same application with the dict in another insertion order                       (equal)
      one-arg       same notation, one used argument changed                                            (different)"""
    nts = [n for n in gen.notations if n.arity >= 1]
    kind = rng.choice(['ignored-arg', 'ignored-arg', 'partial-full', 'partial-full', 'extra-key', 'reordered', 'one-arg'])
    if kind == 'ignored-arg':
        cand = [n for n in nts if ignored_positions(n, drop)]
        if not cand:
            kind = 'one-arg'
        else:
            nt = rng.choice(cand)
            args = [gen.term(rng.choice([0, 1])) for _ in range(nt.arity)]
            args2 = list(args)
            i = rng.choice(ignored_positions(nt, drop))
            args2[i] = gen.mutate(args[i])
            return nt(*args), nt(*args2), kind
    nt = rng.choice(nts)
    args = [gen.term(rng.choice([0, 1])) for _ in range(nt.arity)]
    full = nt(*args)
    items = list(enumerate(args))
    if kind == 'partial-full':
        keep = [kv for kv in items if rng.random() < 0.6]
        part = ('I', nt.definition, tuple(keep))
        # sometimes the open metavariable is supplied later / the fuller side is only a bit fuller
        other = full if rng.random() < 0.7 else ('I', nt.definition, tuple(items[:max(len(keep), 1)]))
        return part, other, kind
    if kind == 'extra-key':
        return full, ('I', nt.definition, tuple(items + [(nt.arity + rng.randrange(3), gen.term(0))])), kind
    if kind == 'reordered':
        it2 = list(items)
        rng.shuffle(it2)
        return full, ('I', nt.definition, tuple(it2)), kind
    args2 = list(args)
    i = rng.randrange(nt.arity)
    args2[i] = gen.mutate(args[i])
    return full, nt(*args2), 'one-arg'


def binder_notations(notations):
    """(notation, bound element variable) for notations whose definition binds a variable above a metavariable"""
    out = []

    def scan(t, nt):
        k = t[0]
        if k == 'x' and PC.has_kind(t[2], 'v'):
            out.append((nt, t[1]))
        if k in 'ia':
            scan(t[1], nt)
            scan(t[2], nt)
        elif k in 'xm':
            scan(t[2], nt)
        elif k in 'ES':
            scan(t[1], nt)
            scan(t[3], nt)
        elif k == 'I':
            scan(t[1], nt)
            for _, v in t[2]:
                scan(v, nt)
    for nt in notations:
        if nt.arity >= 1:
            scan(nt.definition, nt)
    return out


def subst_under_binder(rng, gen, binders):
    """(premise, delta, x): a pending substitution phi_k[plug/x] whose metavariable is instantiated with a fully
    applied notation that BINDS x and whose argument mentions x (Quantifier-axiom shape)"""
    nt, x = rng.choice(binders)
    k = rng.randrange(gen.nmv)
    args = [('a', ('y', rng.choice(gen.syms)), ('e', x)) if rng.random() < 0.7 else gen.term(1) for _ in range(nt.arity)]
    plug = ('e', (x + 1) % max(2, gen.nvars)) if rng.random() < 0.7 else gen.term(1, mvs=False)
    prem = ('i', ('E', mv(k), x, plug), ('x', x, mv(k)))
    return prem, ((k, nt(*args)),), x


def subst_body_case(rng, gen):
    """(pattern, x): a notation / instantiate_pattern whose DEFINITION holds a pending substitution on a variable y
    different from the queried x, applied so that the substituted argument mentions y (free) but not x, while x
    comes in through the plug (or, control cases, does not come in at all).  Forms: full application, partial
    Instantiate, the reverse parameter order, substitution nested under constructors / another notation, SSubst."""
    nv = max(3, gen.nvars)
    x = rng.randrange(nv)
    y = (x + 1 + rng.randrange(nv - 1)) % nv
    sym = ('y', rng.choice(gen.syms))
    kindE = rng.random() < 0.75
    K = 'E' if kindE else 'S'
    yv = ('e', y) if kindE else ('s', y)
    target = rng.choice([('a', sym, yv), ('i', yv, sym), yv, ('a', ('a', sym, yv), ('e', (x + 2) % nv if (x + 2) % nv != x else y))])
    c = rng.random()
    plug = ('e', x) if c < 0.6 else (('a', sym, ('e', x)) if c < 0.8 else gen.term(1, mvs=False))     # last: control
    order = rng.random() < 0.5
    i_t, i_p = (0, 1) if order else (1, 0)
    body = (K, mv(i_t), y, mv(i_p))
    c = rng.random()
    if c < 0.25:
        body = ('i', body, mv(2))
    elif c < 0.4:
        body = ('x', (y + 1) % nv, body)
    elif c < 0.5:
        body = (K, mv(i_t), y, ('a', sym, mv(i_p)))
    items = {i_t: target, i_p: plug, 2: gen.term(0)}
    keys = sorted(k for k in items if PC.has_kind(body, 'v') and k in ref_metavars_syntactic(body))
    c = rng.random()
    if c < 0.2 and len(keys) > 1:
        keys = [k for k in keys if k != 2] or keys      # partial: phi2 left open
    d = [(k, items[k]) for k in keys]
    if rng.random() < 0.3:
        rng.shuffle(d)
    p = ('I', body, tuple(d))
    c = rng.random()
    if c < 0.2 and gen.notations:
        nts = [n for n in gen.notations if n.arity >= 1]
        nt = rng.choice(nts)
        args = [gen.term(0) for _ in range(nt.arity)]
        args[rng.randrange(nt.arity)] = p
        p = nt(*args)
    elif c < 0.3:
        p = ('i', gen.term(0), p)
    return p, x


def ref_metavars_syntactic(t):
    k = t[0]
    if k == 'v':
        return {t[1]}
    if k in 'ia':
        return ref_metavars_syntactic(t[1]) | ref_metavars_syntactic(t[2])
    if k in 'xm':
        return ref_metavars_syntactic(t[2])
    if k in 'ES':
        return ref_metavars_syntactic(t[1]) | ref_metavars_syntactic(t[3])
    if k == 'I':
        return ref_metavars_syntactic(t[1]) | set().union(*[ref_metavars_syntactic(v) for _, v in t[2]]) if t[2] else ref_metavars_syntactic(t[1])
    return set()


def open_body_case(rng, gen):
    """(consequent, x): a top-level Instantiate in which x does NOT come in through an argument: the definition has its
    own free element variable, the dict is empty or partial (metavariables of the body stay open), or a delta was
    already pushed into the body of an empty-dict Instantiate"""
    nv = max(3, gen.nvars)
    x = rng.randrange(nv)
    sym = ('y', rng.choice(gen.syms))
    c = rng.random()
    if c < 0.3:      # definition with its own free variable, applied to closed arguments
        body = rng.choice([('a', ('a', sym, ('e', x)), mv(0)), ('i', mv(0), ('e', x)), ('a', sym, ('e', x))])
        d = ((0, ('y', rng.choice(gen.syms))),) if PC.has_kind(body, 'v') and rng.random() < 0.8 else ()
    elif c < 0.55:   # partial: an unconstrained metavariable of the body stays open
        body = ('i', mv(0), mv(1))
        d = ((0, sym),) if rng.random() < 0.7 else ()
    elif c < 0.8:    # wrap-then-instantiate: the delta went into the body, the dict stayed empty
        body = ('i', ('e', x), ('I', ('i', mv(0), ('I', ('m', 0, ('s', 0)), ())), ((0, ('e', x)),)))
        d = ()
    else:            # controls: x only through an argument / not at all
        body = ('i', mv(0), mv(1))
        d = ((0, ('e', x) if rng.random() < 0.5 else sym), (1, sym))
    return ('I', body, d), x


def spine_notations(rng, sym=7):
    """generated notations for deconstruct_nary_application: argument-permuting / duplicating / metavariable-headed"""
    f = ('y', sym)
    return [
        Notn('flip', 2, ('a', ('a', f, mv(1)), mv(0)), [('L', 'flip('), ('H', 0), ('L', ','), ('H', 1), ('L', ')')]),
        Notn('diag', 1, ('a', ('a', f, mv(0)), mv(0)), [('L', 'diag('), ('H', 0), ('L', ')')]),
        Notn('apply', 2, ('a', mv(0), mv(1)), [('L', 'apply('), ('H', 0), ('L', ','), ('H', 1), ('L', ')')]),
        Notn('rot', 3, ('a', ('a', ('a', f, mv(2)), mv(0)), mv(1)), [('L', 'rot('), ('H', 0), ('H', 1), ('H', 2), ('L', ')')]),
        Notn('skip', 3, ('a', ('a', f, mv(0)), mv(2)), [('L', 'skip('), ('H', 0), ('H', 2), ('L', ')')]),
    ]


def shipped_notations(reflect):
    out = []
    for n in reflect['notations']:
        try:
            ch = PC.fmt_chunks(n['format_str'])
        except ValueError:
            ch = None
        out.append(Notn(n['label'], n['arity'], PC.parse(n['definition']), ch, expr=n['expr'],
                        family=n['family'], params=n['params']))
    return out


# ------------------------------------------------------------------------------------------------
# reference matcher (first-order matching on notation-free terms; bindings compared structurally)
# ------------------------------------------------------------------------------------------------

def ref_match(p, i, ret):
    """textbook one-way matching of notation-free pattern p against notation-free i, extending dict ret
    (insertion ordered); None = no match.  ESubst/SSubst in the pattern never match (as pattern.py)."""
    k = p[0]
    if k == 'v':
        if p[1] in ret:
            return ret if ret[p[1]] == i else None
        ret = dict(ret)
        ret[p[1]] = i
        return ret
    if k != i[0]:
        return None
    if k in 'esy':
        return ret if p[1] == i[1] else None
    if k in 'ia':
        r = ref_match(p[1], i[1], ret)
        return None if r is None else ref_match(p[2], i[2], r)
    if k in 'xm':
        return ref_match(p[2], i[2], ret) if p[1] == i[1] else None
    return None


def partial_unfold(rng, t, prob=0.5, drop=True):
    """replace some Instantiate nodes of t by their full expansion (an equal pattern for a transparent ==)"""
    k = t[0]
    if k in 'esyv':
        return t
    if k in 'ia':
        return (k, partial_unfold(rng, t[1], prob, drop), partial_unfold(rng, t[2], prob, drop))
    if k in 'xm':
        return (k, t[1], partial_unfold(rng, t[2], prob, drop))
    if k in 'ES':
        return (k, partial_unfold(rng, t[1], prob, drop), t[2], partial_unfold(rng, t[3], prob, drop))
    if rng.random() < prob:
        return ref_expand(t, drop)
    return ('I', t[1], tuple((key, partial_unfold(rng, v, prob, drop)) for key, v in t[2]))

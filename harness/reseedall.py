"""usage: harness/reseedall.py [-j N] [prefix ...] — regression over the stored seeded changes: applies each seeded/<id>/patch.diff to a scratch
worktree, runs the check recorded in its meta.json (detected_by.check) from a private copy of /verif (harness/seedrun.sh) and prints CAUGHT (with
whether a concrete failing input was reported) or MISSED.  Writes seeded/RESULTS.json."""
import json, os, re, subprocess, sys, threading
from concurrent.futures import ThreadPoolExecutor
V = os.path.dirname(os.path.dirname(os.path.abspath(__file__)))
args = sys.argv[1:]
jobs = 4
if args and args[0] == '-j':
    jobs = int(args[1]); args = args[2:]
pre = args
rp = os.path.join(V, 'seeded', 'RESULTS.json')
res = json.load(open(rp)) if os.path.exists(rp) else {}
lock = threading.Lock()


def one(d):
    p = os.path.join(V, 'seeded', d)
    meta = json.load(open(os.path.join(p, 'meta.json')))
    chk = meta.get('detected_by', {}).get('check') or meta.get('property')
    out = subprocess.run([os.path.join(V, 'harness', 'seedrun.sh'), os.path.join(p, 'patch.diff'), chk], capture_output=True, text=True).stdout
    viol = re.findall(r'^VIOLATION property=\S+ replay=\S+(.*)$', out, re.M)
    sigs = re.findall(r'^    (.+?) \|', out, re.M)
    if '== ' not in out:
        st = 'RUN-FAILED'
    elif not viol:
        st = 'MISSED'
    elif any('no-failing-input-found' not in v for v in viol):
        st = 'CAUGHT concrete'
    else:
        st = 'CAUGHT no-failing-input-found'
    with lock:
        res[d] = {'check': chk, 'status': st, 'signatures': sigs[:4]}
        print(d, chk, st, ' ; '.join(sigs[:3])[:150], flush=True)
        json.dump(res, open(rp, 'w'), indent=1)


todo = [d for d in sorted(os.listdir(os.path.join(V, 'seeded')))
        if os.path.isdir(os.path.join(V, 'seeded', d)) and (not pre or any(d.startswith(x) for x in pre))]
with ThreadPoolExecutor(max_workers=jobs) as ex:
    list(ex.map(one, todo))

"""usage: harness/reseedall.py [prefix ...] — regression over the stored seeded changes: applies each seeded/<id>/patch.diff to a scratch worktree,
runs the check recorded in its meta.json (detected_by.check) and prints CAUGHT (with whether a concrete failing input was reported) or MISSED.
Writes seeded/RESULTS.json."""
import json, os, re, subprocess, sys
V = os.path.dirname(os.path.dirname(os.path.abspath(__file__)))
pre = sys.argv[1:]
res = {}
rp = os.path.join(V, 'seeded', 'RESULTS.json')
if os.path.exists(rp):
    res = json.load(open(rp))
for d in sorted(os.listdir(os.path.join(V, 'seeded'))):
    p = os.path.join(V, 'seeded', d)
    if not os.path.isdir(p) or (pre and not any(d.startswith(x) for x in pre)):
        continue
    meta = json.load(open(os.path.join(p, 'meta.json')))
    chk = meta.get('detected_by', {}).get('check') or meta.get('property')
    out = subprocess.run([os.path.join(V, 'harness', 'seedrun.sh'), os.path.join(p, 'patch.diff'), chk], capture_output=True, text=True).stdout
    viol = re.findall(r'^VIOLATION property=\S+ replay=\S+(.*)$', out, re.M)
    sigs = re.findall(r'^    (\S+) \|', out, re.M)
    if not viol:
        st = 'MISSED'
    elif any('no-failing-input-found' not in v for v in viol):
        st = 'CAUGHT concrete'
    else:
        st = 'CAUGHT no-failing-input-found'
    res[d] = {'check': chk, 'status': st, 'signatures': sigs[:4]}
    print(d, chk, st, ' '.join(sigs[:3])[:150], flush=True)
    json.dump(res, open(rp, 'w'), indent=1)

#!/bin/bash
# usage: harness/seedrun.sh <patch.diff> <check ids...>   [env SEED_IN_REPO=1 to apply to /repo itself; SEED_SHARED=1 to run from /verif itself]
# Applies a seeded change (to a scratch worktree of /repo by default), runs the given checks against it, prints their
# VIOLATION lines and exit codes, and undoes the change.  By default the checks run from a private COPY of /verif (generated Coq files, build
# output, evidence and replay files of the run stay in the copy), so several runs can go on at once without touching each other's coq/Gen files.
set -u
patch=$(readlink -f "$1"); shift
V=$(cd "$(dirname "$0")/.." && pwd)
cd "$V"
if [ "${SEED_IN_REPO:-0}" = "1" ]; then
  tree=/repo
  git -C /repo apply "$patch" || { echo "APPLY-FAILED"; exit 2; }
else
  tree=$(mktemp -d /tmp/seedrun.XXXX)
  git -C /repo worktree add -q --detach "$tree" HEAD || exit 2
  git -C "$tree" apply "$patch" || { echo "APPLY-FAILED"; git -C /repo worktree remove --force "$tree"; exit 2; }
fi
W=$V
if [ "${SEED_SHARED:-0}" != "1" ] && [ "$tree" != /repo ]; then
  W=$(mktemp -d /tmp/seedverif.XXXX)
  tar -C "$V" --exclude=.git --exclude=seeded --exclude=refactorings --exclude=out --exclude=evidence_scratch -cf - . | tar -C "$W" -xf -
fi
for c in "$@"; do
  out=$(cd "$W" && PI2_REPO=$tree ./check "$c" quick 2>&1); rc=$?
  echo "== $c rc=$rc"
  echo "$out" | grep -E "^VIOLATION|^KNOWN-FINDING|^\[" | cut -c1-220
  for f in $(echo "$out" | grep -oE "replay=[^ ]+" | cut -d= -f2); do
    python3 -c "
import json,sys
d=json.load(open('$f')); print('   ', d['signature'], '|', d['description'][:200])"
  done
done
if [ "$tree" = /repo ]; then git -C /repo checkout -- . ; else git -C /repo worktree remove --force "$tree"; fi
if [ "$W" != "$V" ]; then rm -rf "$W"; else rm -f "$V"/out/*_violation_*.json; fi

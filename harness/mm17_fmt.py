"""C17 shared helpers (pure Python, no repo imports): tuple ASTs, the prefix wire format shared with
ocaml/mm17_driver.ml, and the Encoder's layout as a function of the token list.

tuple AST:  term = ('M', x) | ('A', c, (term..))
            stmt = ('C', (x..)) | ('V', (x..)) | ('D', (x..)) | ('F', l, ty, v) | ('E', l, (term..))
                 | ('A', l, (term..)) | ('P', l, (term..), proof_tokens_tuple_or_None) | ('B', (stmt..))
            db   = (stmt..)
"""
KW = ('$c', '$v', '$d', '$f', '$e', '$a', '$p', '$=', '$.', '${', '$}')


def w_term(t, out):
    if t[0] == 'M':
        out += ['M', t[1]]
    else:
        out += ['A', t[1], str(len(t[2]))]
        for a in t[2]:
            w_term(a, out)


def w_stmt(s, out):
    k = s[0]
    if k in 'CVD':
        out += [k, str(len(s[1])), *s[1]]
    elif k == 'F':
        out += ['F', s[1], s[2], s[3]]
    elif k in 'EA':
        out += [k, s[1], str(len(s[2]))]
        for t in s[2]:
            w_term(t, out)
    elif k == 'P':
        out += ['P', s[1], str(len(s[2]))]
        for t in s[2]:
            w_term(t, out)
        if s[3] is None:
            out.append('0')
        else:
            out += ['1', str(len(s[3])), *s[3]]
    elif k == 'B':
        out += ['B', str(len(s[1]))]
        for x in s[1]:
            w_stmt(x, out)
    else:
        raise ValueError(k)


def db_fields(db):
    out = [str(len(db))]
    for s in db:
        w_stmt(s, out)
    return out


def db_str(db):
    return ' '.join(db_fields(db))


class Rd:
    def __init__(self, fields, pos=0):
        self.f, self.p = fields, pos

    def next(self):
        x = self.f[self.p]
        self.p += 1
        return x

    def lst(self, fn):
        n = int(self.next())
        return tuple(fn() for _ in range(n))

    def term(self):
        k = self.next()
        if k == 'M':
            return ('M', self.next())
        assert k == 'A', k
        c = self.next()
        return ('A', c, self.lst(self.term))

    def stmt(self):
        k = self.next()
        if k in 'CVD':
            return (k, self.lst(self.next))
        if k == 'F':
            return ('F', self.next(), self.next(), self.next())
        if k in 'EA':
            l = self.next()
            return (k, l, self.lst(self.term))
        if k == 'P':
            l = self.next()
            ts = self.lst(self.term)
            if self.next() == '1':
                return ('P', l, ts, self.lst(self.next))
            return ('P', l, ts, None)
        if k == 'B':
            return ('B', self.lst(self.stmt))
        raise ValueError(k)

    def db(self):
        return self.lst(self.stmt)


def parse_db_str(s):
    return Rd(s.split(' ')).db()


def layout(toks, tab='   '):
    """Text that Encoder.encode_string produces for a database whose token sequence is `toks`
    (ast.py:351-458 + utils/printer.py): one top-level statement per line; inside a block the first
    statement follows "${ " on the same line, the others start a new line indented by depth*tab, the last
    one is followed by " $}"; an empty proof gives "$=  $."."""
    out = []
    depth = 0
    n = len(toks)
    i = 0
    start = True           # at the start of a statement (no blank needed before the token)
    while i < n:
        t = toks[i]
        if t == '${':
            out.append('${ ')
            depth += 1
            start = True
        elif t == '$}':
            out.append('$}')
            depth -= 1
            start = False
            i += 1
            out.append(_stmt_end(toks, i, depth, tab))
            start = True
            continue
        elif t == '$.':
            out.append(' $.')
            i += 1
            out.append(_stmt_end(toks, i, depth, tab))
            start = True
            continue
        else:
            if not start:
                out.append(' ')
            out.append(t)
            if t == '$=' and i + 1 < n and toks[i + 1] == '$.':
                out.append(' ')       # write(' $= '); write(''); write(' $.')
            start = False
        i += 1
    return ''.join(out)


def _stmt_end(toks, i, depth, tab):
    if depth <= 0:
        return '\n'
    if i < len(toks) and toks[i] == '$}':
        return ' '
    return '\n' + tab * depth

"""Term codec shared by the Py checks (C06/C07/C11/C12/C13/C19), their implementation runner and the OCaml
driver ocaml/py_driver.ml.  stdlib only.

A generator-side pattern is a nested tuple:
  ('e',n) ('s',n) ('y',n) ('i',a,b) ('a',a,b) ('x',n,a) ('m',n,a)
  ('v',id,ef,sf,pos,neg,holes)   five tuples of ints
  ('E',a,n,b) ('S',a,n,b)        ESubst/SSubst(pattern=a, var=n, plug=b)
  ('I',a,((k,v),...))            Instantiate(pattern=a, inst=frozendict, insertion order)
Wire form: prefix tokens, space separated (see py_driver.ml).
"""
from __future__ import annotations


def toks(t, out=None):
    top = out is None
    if top:
        out = []
    k = t[0]
    if k in 'esy':
        out += [k, str(t[1])]
    elif k in 'ia':
        out.append(k)
        toks(t[1], out)
        toks(t[2], out)
    elif k in 'xm':
        out += [k, str(t[1])]
        toks(t[2], out)
    elif k == 'v':
        out += ['v', str(t[1])]
        for l in t[2:7]:
            out.append(str(len(l)))
            out += [str(x) for x in l]
    elif k in 'ES':
        out.append(k)
        toks(t[1], out)
        out.append(str(t[2]))
        toks(t[3], out)
    elif k == 'I':
        out.append('I')
        toks(t[1], out)
        dtoks(t[2], out)
    else:
        raise ValueError(f'bad term {t!r}')
    return out


def dtoks(d, out=None):
    if out is None:
        out = []
    out.append(str(len(d)))
    for key, v in d:
        out.append(str(key))
        toks(v, out)
    return out


def show(t):
    return ' '.join(toks(t))


def showd(d):
    return ' '.join(dtoks(d))


class Reader:
    def __init__(self, s):
        self.a = s.split() if isinstance(s, str) else list(s)
        self.i = 0

    def next(self):
        x = self.a[self.i]
        self.i += 1
        return x

    def int(self):
        return int(self.next())

    def done(self):
        return self.i >= len(self.a)

    def ints(self):
        return tuple(self.int() for _ in range(self.int()))

    def term(self):
        k = self.next()
        if k in 'esy' and len(k) == 1:
            return (k, self.int())
        if k in ('i', 'a'):
            l = self.term()
            return (k, l, self.term())
        if k in ('x', 'm'):
            n = self.int()
            return (k, n, self.term())
        if k == 'v':
            i = self.int()
            return ('v', i, self.ints(), self.ints(), self.ints(), self.ints(), self.ints())
        if k in ('E', 'S'):
            p = self.term()
            x = self.int()
            return (k, p, x, self.term())
        if k == 'I':
            p = self.term()
            return ('I', p, self.delta())
        raise ValueError(f'bad token {k!r}')

    def delta(self):
        n = self.int()
        out = []
        for _ in range(n):
            key = self.int()
            out.append((key, self.term()))
        return tuple(out)

    def tuple(self):
        return tuple(self.term() for _ in range(self.int()))


def parse(s):
    return Reader(s).term()


def mv(i, ef=(), sf=(), pos=(), neg=(), holes=()):
    return ('v', i, tuple(ef), tuple(sf), tuple(pos), tuple(neg), tuple(holes))


def size(t):
    k = t[0]
    if k in 'esyv':
        return 1
    if k in 'ia':
        return 1 + size(t[1]) + size(t[2])
    if k in 'xm':
        return 1 + size(t[2])
    if k in 'ES':
        return 1 + size(t[1]) + size(t[3])
    return 1 + size(t[1]) + sum(size(v) for _, v in t[2])


def has_kind(t, kinds):
    k = t[0]
    if k in kinds:
        return True
    if k in 'ia':
        return has_kind(t[1], kinds) or has_kind(t[2], kinds)
    if k in 'xm':
        return has_kind(t[2], kinds)
    if k in 'ES':
        return has_kind(t[1], kinds) or has_kind(t[3], kinds)
    if k == 'I':
        return has_kind(t[1], kinds) or any(has_kind(v, kinds) for _, v in t[2])
    return False


def inst_depth(t):
    k = t[0]
    if k in 'esyv':
        return 0
    if k in 'ia':
        return max(inst_depth(t[1]), inst_depth(t[2]))
    if k in 'xm':
        return inst_depth(t[2])
    if k in 'ES':
        return max(inst_depth(t[1]), inst_depth(t[3]))
    return 1 + max([inst_depth(t[1])] + [inst_depth(v) for _, v in t[2]])


# ---- format strings <-> chunk lists -------------------------------------------------------------

def fmt_chunks(format_str):
    """parse a Python format string into [('L', str) | ('H', i)]; fail closed on anything but plain
    positional fields ({0}, {1}, ...; `{{`/`}}` escapes are literal braces)"""
    import string
    out = []
    for lit, field, spec, conv in string.Formatter().parse(format_str):
        if lit:
            if out and out[-1][0] == 'L':
                out[-1] = ('L', out[-1][1] + lit)
            else:
                out.append(('L', lit))
        if field is not None:
            if not (field.isdigit() and not spec and conv is None):
                raise ValueError(f'unsupported format field {{{field}!{conv}:{spec}}} in {format_str!r}')
            out.append(('H', int(field)))
    return out


def chunks_fmt(chunks):
    s = ''
    for k, v in chunks:
        s += v.replace('{', '{{').replace('}', '}}') if k == 'L' else '{' + str(v) + '}'
    return s


def chunk_toks(chunks):
    out = [str(len(chunks))]
    for k, v in chunks:
        if k == 'L':
            out += ['L', str(len(v))] + [str(ord(c)) for c in v]
        else:
            out += ['H', str(v)]
    return out


def read_chunks(r: Reader):
    out = []
    for _ in range(r.int()):
        k = r.next()
        if k == 'L':
            n = r.int()
            out.append(('L', ''.join(chr(r.int()) for _ in range(n))))
        else:
            out.append(('H', r.int()))
    return out


def notation_toks(arity, definition, chunks):
    return [str(arity)] + toks(definition) + chunk_toks(chunks)

"""usage: harness/refacmatrix.py [set ...]  — for every stored behaviour-preserving refactoring (refactorings/<set>/<n>/patch.diff) run the quick
checks of every property anchored in a file the patch touches (scratch worktree via PI2_REPO, harness/seedrun.sh) and print one line per run;
writes refactorings/RESULTS.json.  Every line should be OK: a VIOLATION here is a false alarm."""
import fcntl, json, os, re, subprocess, sys
V = os.path.dirname(os.path.dirname(os.path.abspath(__file__)))
MAP = [
    (r'^rust/src/', 'C01 C05 C06 C11'),
    (r'proof_generation/pattern\.py$', 'C06 C07 C11 C12 C13 C19 C02 C08 C09 C10'),
    (r'proof_generation/basic_interpreter\.py$', 'C06 C07 C02 C08'),
    (r'proof_generation/proof\.py$', 'C02 C08 C03 C04 C18 C19 C20 C10'),
    (r'proof_generation/(interpreter|interpreter_transformer|optimizing_interpreters)\.py$', 'C02 C08 C18'),
    (r'proof_generation/(serializing_interpreter|deserialize|stateful_interpreter|instruction)\.py$', 'C03 C04 C14 C02 C08'),
    (r'proof_generation/tautology\.py$', 'C09 C10'),
    (r'proof_generation/proofs/propositional\.py$', 'C10 C09 C02'),
    (r'proof_generation/proofs/(kore|definedness|substitution|small_theory)\.py$', 'C19 C10 C02 C20'),
    (r'proof_generation/metamath/(converter|translate)', 'C15 C16 C18'),
    (r'proof_generation/metamath/', 'C17'),
    (r'proof_generation/k/', 'C20'),
    (r'proof_generation/counting_interpreter\.py$', 'C18 C02'),
    (r'proof_generation/pretty_printing_interpreter\.py$', 'C19 C18'),
]
sets = sys.argv[1:] or sorted(d for d in os.listdir(os.path.join(V, 'refactorings')) if os.path.isdir(os.path.join(V, 'refactorings', d)))
res = {}
rp = os.path.join(V, 'refactorings', 'RESULTS.json')
if os.path.exists(rp):
    res = json.load(open(rp))
for s in sets:
    for n in sorted(os.listdir(os.path.join(V, 'refactorings', s))):
        patch = os.path.join(V, 'refactorings', s, n, 'patch.diff')
        if not os.path.exists(patch):
            continue
        files = re.findall(r'^\+\+\+ b/(\S+)', open(patch).read(), re.M)
        checks = []
        for f in files:
            for pat, cs in MAP:
                if re.search(pat, f):
                    for c in cs.split():
                        if c not in checks:
                            checks.append(c)
        checks.sort()
        out = subprocess.run([os.path.join(V, 'harness', 'seedrun.sh'), patch] + checks, capture_output=True, text=True).stdout
        r = {}
        for c in checks:
            m = re.search(r'== ' + c + r' rc=(\d+)', out)
            r[c] = 'OK' if (m and m.group(1) == '0') else 'ALARM'
        print(f'{s}/{n}', ' '.join(f'{c}:{v}' for c, v in r.items()), flush=True)
        with open(rp + '.lock', 'w') as lk:          # several matrix processes (one per set) may run at once
            fcntl.flock(lk, fcntl.LOCK_EX)
            res = json.load(open(rp)) if os.path.exists(rp) else {}
            res[f'{s}/{n}'] = {'files': files, 'checks': r}
            json.dump(res, open(rp, 'w'), indent=1)

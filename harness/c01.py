"""C01 — checker soundness.

proof : coq/Props/C01.v  (C01_soundness, C01_instances, C01_rules, C01_unguarded_refuted)
tie   : Rust checker (scratch build of the current lib.rs) vs extracted coq/ML model (guards_sound)
oracle: finite-model evaluation of every term the *Rust* checker marks Proved from an empty theory
"""
import json
import os

import common as C
import mlgen as G
import mltie as T

CID = 'C01'


def run(tier, seed):
    R = C.Report(CID, tier, seed)
    rng = C.rng_for(seed, CID)
    quick = tier == 'quick'
    ok_tr, tr_msg = T.regen_gen()
    P = R.proof_stage()
    if not ok_tr:
        P['ok'] = False
        P['log'] = 'translator failed closed: ' + tr_msg
        P['discharged'] = 0     # the regenerated model could not be produced: nothing is proved about the current source
    # extra theorem (not a property): C03 o C01 composition, coq/Props/E2E.v; recorded, never an alarm of C01
    e2e_ok, e2e_log = C.coq_make(['Props/E2E.vo'], timeout=900)
    R.coverage['extra_theorems'] = {'Props/E2E.v:E2E_declared_claims_follow_from_declared_axioms': 'checked' if e2e_ok else 'NOT checked: ' + e2e_log[-400:]}
    tie = T.Tie(R)
    if e2e_ok:
        import shippedproofs
        sh_res = shippedproofs.run(R, tie.realbin if tie.ready else None)
        R.coverage['extra_theorems']['Gen/ShippedValid.v (one theorem per proof triple committed under /repo/proofs)'] = sh_res
    if not tie.ready:
        R.violation('tie-build-failed', 'could not build model or Rust harness',
                    {'no_failing_input_found': True, 'theorem_or_correspondence': 'build of mlref_ml / rsref',
                     'model_log': tie.model_log, 'rust_log': tie.rust_log})
        return R.finish(trusted_base=C.TRUSTED_COMMON)

    cases = T.adversarial_cases(rng, 3000 if quick else 150000)
    cases += T.program_cases(rng, 6000 if quick else 400000, 6000 if quick else 400000, 8000 if quick else 800000,
                             2 if quick else 3)
    lines = [c[0] for c in cases]
    labels = [c[1] for c in cases]
    m, r = tie.compare(lines, labels)

    general_plugs = 0
    # oracle on what Rust accepted
    found = []
    budget_tries = 24 if (P['ok'] and not tie.mismatches) else 120
    seen_terms = set()
    for ln, lab, ro in zip(lines, labels, r):
        acc = ro.startswith('ACCEPT') or ro.startswith('OK')
        R.case(ln, nontrivial=acc and any(op in ln for op in ('15', '16', '18', '1a')), kind=lab.split(':')[0] + (':acc' if acc else ':rej'))
        if not acc:
            continue
        f = ln.split()
        from_empty_theory = (f[0] == 'E' and f[1] == 'P') or (f[0] == 'V' and f[1] == '-')
        if not from_empty_theory:
            continue
        terms = T.proved_terms_of(ro)
        if f[0] == 'V' and f[2] != '-':
            # declared claims, all discharged since the run was accepted
            cl = C.run_lines(tie.rsref, [f'E C {f[2]}'])[0]
            if cl.startswith('OK') and ' C[' in cl:
                body = cl.split(' C[')[1].rstrip(']')
                terms += [G.dec(G.unhex(t)) for t in body.split(',') if t]
        for t in terms:
            if t in seen_terms:
                continue
            seen_terms.add(t)
            cm = T.find_countermodel(t, rng, tries=budget_tries)
            if cm is not None:
                found.append((ln, lab, t, cm))
    # the checker as a PROGRAM: rust/src/main.rs turns verify()'s verdict into the exit status. Streams from the empty theory that declare a claim
    # and that verify() rejects are run through the real binary; exit status 0 = accepted, and then every declared claim must be valid.
    if tie.realbin:
        import subprocess
        dd = C.scratch_dir('pi2c01bin.')
        cand = [(ln, lab) for ln, lab, ro in zip(lines, labels, r)
                if ln.startswith('V - ') and ln.split()[2] != '-' and not (ro.startswith('ACCEPT') or ro.startswith('OK'))]
        try:
            unknown_main = 'UNRECOGNISED' in open(os.path.join(C.COQ, 'Gen', 'Exec.v')).read(600)
        except OSError:
            unknown_main = True
        step = max(1, len(cand) // ((120 if quick else 1500) * (4 if unknown_main else 1)))
        ran = 0
        for ln, lab in cand[::step]:
            f = ln.split()
            paths = []
            for j, h in enumerate(f[1:4]):
                pth = os.path.join(dd, f'{j}.bin')
                with open(pth, 'wb') as fh:
                    fh.write(bytes(G.unhex(h)))
                paths.append(pth)
            ran += 1
            if subprocess.run([tie.realbin, *paths], capture_output=True).returncode != 0:
                continue
            cl = C.run_lines(tie.rsref, [f'E C {f[2]}'])[0]
            if cl.startswith('OK') and ' C[' in cl:
                for t in [G.dec(G.unhex(x)) for x in cl.split(' C[')[1].rstrip(']').split(',') if x]:
                    cm = T.find_countermodel(t, rng, tries=120)
                    if cm is not None:
                        R.violation('unsound:binary:' + lab.split(':')[0] + ':' + (lab.split(':')[1] if ':' in lab else ''),
                                    f'the checker binary (rust/src/main.rs) exits 0 on a stream from the empty theory that declares the invalid claim {G.show(t)}',
                                    {'request': ln, 'label': lab, 'claim': G.show(t), 'pattern_hex': G.phex(t), 'countermodel': cm,
                                     'verify_verdict': 'REJECT', 'binary_exit_code': 0})
                        break
        R.hist['real_binary_runs_on_rejected_claim_streams'] = ran
    for ln, lab, t, cm in found[:5]:
        sig = 'unsound:' + lab.split(':')[0] + ':' + (lab.split(':')[1] if ':' in lab else '')
        R.violation(sig, f'Rust checker accepts a stream from the empty theory and marks Proved the invalid pattern {G.show(t)}',
                    {'request': ln, 'label': lab, 'proved_pattern': G.show(t), 'pattern_hex': G.phex(t), 'countermodel': cm})
    for c in cases[:3] + cases[500:503]:
        R.sample({'request': c[0], 'label': c[1]})
    R.hist['proved_terms_with_general_plug_esubst_nodes'] = sum(1 for t in seen_terms if T.has_general_esubst(t))
    R.hist['distinct_proved_terms_evaluated_in_finite_models'] = len(seen_terms)

    if tie.mismatches and not R.violations:
        why = tie.diagnose()
        R.violation('correspondence-broken', 'Rust checker and coq/ML model (guards_sound) disagree; no invalid Proved term found',
                    {'no_failing_input_found': True,
                     'theorem_or_correspondence': 'correspondence rust/src/lib.rs <-> coq/ML/Machine.v (guards_sound)'
                     + ('' if P['ok'] else '; proof stage also broken (translated source no longer equals the model: ML/GenExec.v / ML/GenAgree.v): '
                        + P['log'][-600:]),
                     'implementation_behaves_like_model_without_guard': why,
                     'first_mismatches': [dict(request=a, model=b, rust=c, label=d) for a, b, c, d in tie.mismatches[:5]]})
    elif tie.mismatches:
        R.notes.append({'correspondence_mismatches': len(tie.mismatches), 'like_guard_removed': tie.diagnose(),
                        'first': [dict(request=a, model=b, rust=c) for a, b, c, _ in tie.mismatches[:3]]})
    if not P['ok'] and not R.violations:
        R.violation('proof-broken', 'Coq proof stage failed',
                    {'no_failing_input_found': True, 'theorem_or_correspondence': 'Props/C01.v', 'log': P['log']})

    R.coverage['rule'] = ('instruction streams: grammar-built valid triples (gamma/claim/proof with interleaved Save/Load/Pop), '
                          'type-directed random programs in the three phases, 1-3 byte mutations, exhaustive programs up to length '
                          f'{2 if quick else 3} over the opcode alphabet, adversarial Generalization/Substitution/Instantiate interleavings '
                          '(incl. the D1 exploit); non-trivial = accepted by the Rust checker and containing a rule instruction '
                          '(ModusPonens/Generalization/Substitution/Instantiate); distinct by request line')
    R.coverage['traces_validated_against_impl'] = len(lines)
    R.assumptions = ['validity = truth in every model under every semantic valuation of opaque nodes (metavariables, general-plug ESubst) '
                     'respecting their judged freshness; the finite-model search uses constant atoms']
    return R.finish(trusted_base=C.TRUSTED_COMMON + [
        'translators/rust_judge.py, rust_subst.py, rust_inst.py, rust_exec.py, opcodes.py (Rust-subset readers that regenerate coq/Gen/*.v from lib.rs every run — judgements, substitutions, instantiate, and statement by statement execute_instructions + verify; fail closed)',
        'Axiom Classical_Prop.classic (Coq standard library; used only for Prop3, double-negation elimination over sets D -> Prop)',
        'harness/rust/harness.rs (appended to a scratch copy of lib.rs: request parser and state printer) and harness/rust/main.rs',
        'semantics: coq/ML/Sem.v is the standard matching-logic semantics written by hand (eval); metavariables as semantic atoms'])


def replay(path):
    d = json.load(open(path))
    rp = d.get('replay', {})
    print(json.dumps(d, indent=1)[:3000])
    req = rp.get('request')
    if req:
        tie = T.Tie(None)
        print('rust :', C.run_lines(tie.rsref, [req]))
        print('model:', C.run_lines(tie.mlref, [req], args=('--guards', 'sound')))
    return 0

def llvm_to_pattern(x): raise NotImplementedError

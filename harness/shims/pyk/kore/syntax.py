from __future__ import annotations
from dataclasses import dataclass, field
class Kore: pass
class Sort(Kore): pass
@dataclass(frozen=True)
class SortVar(Sort):
    name: str
@dataclass(frozen=True)
class SortApp(Sort):
    name: str
    sorts: tuple = ()
class Pattern(Kore): pass
@dataclass(frozen=True)
class String(Pattern):
    value: str
@dataclass(frozen=True)
class EVar(Pattern):
    name: str
    sort: Sort
@dataclass(frozen=True)
class SVar(Pattern):
    name: str
    sort: Sort
@dataclass(frozen=True)
class App(Pattern):
    symbol: str
    sorts: tuple = ()
    args: tuple = ()
def _mk(name, fields):
    ns = {'__annotations__': {f: object for f in fields}}
    return dataclass(frozen=True)(type(name, (Pattern,), ns))
Top = _mk('Top', ['sort']); Bottom = _mk('Bottom', ['sort'])
Not = _mk('Not', ['sort','pattern']); Next = _mk('Next', ['sort','pattern'])
And = _mk('And', ['sort','ops']); Or = _mk('Or', ['sort','ops'])
Implies = _mk('Implies', ['sort','left','right']); Iff = _mk('Iff', ['sort','left','right'])
Rewrites = _mk('Rewrites', ['sort','left','right'])
Exists = _mk('Exists', ['sort','var','pattern']); Forall = _mk('Forall', ['sort','var','pattern'])
Mu = _mk('Mu', ['var','pattern']); Nu = _mk('Nu', ['var','pattern'])
Ceil = _mk('Ceil', ['op_sort','sort','pattern']); Floor = _mk('Floor', ['op_sort','sort','pattern'])
Equals = _mk('Equals', ['op_sort','sort','left','right']); In = _mk('In', ['op_sort','sort','left','right'])
DV = _mk('DV', ['sort','value'])
@dataclass(frozen=True)
class Symbol(Kore):
    name: str
    vars: tuple = ()
class Sentence(Kore): pass
@dataclass(frozen=True)
class Import(Sentence):
    module_name: str
    attrs: tuple = ()
@dataclass(frozen=True)
class SortDecl(Sentence):
    name: str
    vars: tuple = ()
    attrs: tuple = ()
    hooked: bool = False
@dataclass(frozen=True)
class SymbolDecl(Sentence):
    symbol: Symbol
    param_sorts: tuple
    sort: Sort
    attrs: tuple = ()
    hooked: bool = False
@dataclass(frozen=True)
class Axiom(Sentence):
    vars: tuple
    pattern: Pattern
    attrs: tuple = ()
@dataclass(frozen=True)
class Module(Kore):
    name: str
    sentences: tuple = ()
    attrs: tuple = ()
    @property
    def axioms(self): return tuple(s for s in self.sentences if isinstance(s, Axiom))
@dataclass(frozen=True)
class Definition(Kore):
    modules: tuple = ()
    attrs: tuple = ()

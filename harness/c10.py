"""C10 -- every derived rule proves exactly its advertised schema.

proof stage : translators/proplib.py regenerates coq/Gen/PropLib.v (+Spec) from the CURRENT source of
              propositional.py / tautology.py (fail closed), then coq/Props/C10.v and its closure are
              rebuilt: one `<m>_spec` (statement = docstring schema) and one `<m>_wf` per method.
tie stage   : every entry point at generated argument tuples (patterns with/without notation,
              metavariables, binders, pending substitutions; premises = declared assumptions of the
              right shape, conclusions of other library rules, or malformed) is run
                (a) for real: harness/impl/proplib_runner.py (ProofThunk.conc, the thunk replayed on
                    StatefulInterpreter and BasicInterpreter, the rule trace it performs) and
                (b) on the extracted model ocaml/mlref_lib (stored conclusion, static_conc replay,
                    rule trace); everything is compared.
oracle      : the docstring schema instantiated in Python at the same arguments (independent of the
              Coq model), compared literally with the implementation's conclusion.
"""
import json
import os
import sys
import time
from concurrent.futures import ThreadPoolExecutor

import common as C

sys.path.insert(0, os.path.join(C.VERIF, 'translators'))
import proplib as T  # noqa: E402
import schema as S  # noqa: E402

CID = 'C10'
GEN = os.path.join(C.COQ, 'Gen')
CORPUS = os.path.join(C.VERIF, 'harness', 'corpus', CID)

# docstring-format schemas for the methods whose statement is hand-written in coq/Lib/Extra.v
# (used by the generator and the oracle only; the theorem is the Coq statement)
EXTRA_SCHEMAS = {
    'prop1_inst': 'p -> (q -> p)',
    'prop2_inst': '(p -> (q -> r)) -> ((p -> q) -> (p -> r))',
    'dneg_elim': '~~p -> p',
    'and_cong': 'a <-> b    c <-> d\n--------\na /\\ c <-> b /\\ d',
    'or_cong': 'a <-> b    c <-> d\n--------\na \\/ c <-> b \\/ d',
}
MATCH_METHODS = {'imp_trans_match1', 'imp_trans_match2', 'equiv_match_l', 'equiv_match_r',
                 'equiv_trans_match1', 'equiv_trans_match2'}


# ------------------------------------------------------------------------------------------------
# patterns: nested tuples.  Surface patterns may contain notation nodes; expanded ones do not.
# ------------------------------------------------------------------------------------------------
BOT = S.BOT


def mv(i):
    return ('mv', i, (), (), (), (), ())


def expand(p):
    k = p[0]
    if k in ('ev', 'sv', 'sym', 'mv'):
        return tuple(tuple(x) if isinstance(x, list) else x for x in p)
    if k in ('imp', 'app'):
        return (k, expand(p[1]), expand(p[2]))
    if k in ('ex', 'mu'):
        return (k, p[1], expand(p[2]))
    if k in ('esub', 'ssub'):
        return (k, expand(p[1]), p[2], expand(p[3]))
    if k == 'bot':
        return BOT
    if k == 'top':
        return ('imp', BOT, BOT)
    if k == 'neg':
        return ('imp', expand(p[1]), BOT)
    a, b = expand(p[1]), expand(p[2])
    if k == 'and':
        return ('imp', ('imp', a, ('imp', b, BOT)), BOT)
    if k == 'or':
        return ('imp', ('imp', a, BOT), b)
    if k == 'equiv':
        x, y = ('imp', a, b), ('imp', b, a)
        return ('imp', ('imp', x, ('imp', y, BOT)), BOT)
    raise ValueError(k)


def enc(p, out):
    k = p[0]
    if k == 'ev':
        out += [0, p[1]]
    elif k == 'sv':
        out += [1, p[1]]
    elif k == 'sym':
        out += [2, p[1]]
    elif k == 'imp':
        out.append(3), enc(p[1], out), enc(p[2], out)
    elif k == 'app':
        out.append(4), enc(p[1], out), enc(p[2], out)
    elif k == 'ex':
        out += [5, p[1]]
        enc(p[2], out)
    elif k == 'mu':
        out += [6, p[1]]
        enc(p[2], out)
    elif k == 'mv':
        out += [7, p[1]]
        for lst in p[2:7]:
            out.append(len(lst))
            out += list(lst)
    elif k == 'esub':
        out.append(8), enc(p[1], out), out.append(p[2]), enc(p[3], out)
    elif k == 'ssub':
        out.append(9), enc(p[1], out), out.append(p[2]), enc(p[3], out)
    else:
        raise ValueError(k)
    return out


def hexp(p):
    return bytes(enc(p, [])).hex()


def schema_surface(f, env):
    """schema formula -> surface pattern that keeps the notation nodes"""
    k = f[0]
    if k == 'var':
        return env[f[1]]
    if k in ('bot', 'top'):
        return (k,)
    if k == 'neg':
        return ('neg', schema_surface(f[1], env))
    return (k, schema_surface(f[1], env), schema_surface(f[2], env))


def gen_pat(rng, depth, hist=None):
    """random surface pattern: any matching-logic constructor, notation, (constrained) metavariables"""
    def note(k):
        if hist is not None:
            hist['ctor:' + k] = hist.get('ctor:' + k, 0) + 1
    if depth <= 0 or rng.random() < 0.22:
        r = rng.random()
        if r < 0.30:
            note('mv')
            return mv(rng.randrange(0, 5))
        if r < 0.38:
            note('mv-constrained')
            return ('mv', rng.randrange(0, 5), tuple(sorted(rng.sample(range(4), rng.randrange(0, 3)))),
                    tuple(sorted(rng.sample(range(4), rng.randrange(0, 2)))),
                    tuple(sorted(rng.sample(range(4), rng.randrange(0, 2)))), (), ())
        if r < 0.58:
            note('ev')
            return ('ev', rng.randrange(0, 4))
        if r < 0.68:
            note('sv')
            return ('sv', rng.randrange(0, 3))
        if r < 0.80:
            note('sym')
            return ('sym', rng.randrange(0, 3))
        if r < 0.92:
            note('bot')
            return ('bot',)
        note('top')
        return ('top',)
    r = rng.random()
    d = depth - 1
    if r < 0.34:
        note('imp')
        return ('imp', gen_pat(rng, d, hist), gen_pat(rng, d, hist))
    if r < 0.46:
        note('neg')
        return ('neg', gen_pat(rng, d, hist))
    if r < 0.54:
        note('and')
        return ('and', gen_pat(rng, d, hist), gen_pat(rng, d, hist))
    if r < 0.62:
        note('or')
        return ('or', gen_pat(rng, d, hist), gen_pat(rng, d, hist))
    if r < 0.66:
        note('equiv')
        return ('equiv', gen_pat(rng, d, hist), gen_pat(rng, d, hist))
    if r < 0.76:
        note('app')
        return ('app', gen_pat(rng, d, hist), gen_pat(rng, d, hist))
    if r < 0.84:
        note('ex')
        return ('ex', rng.randrange(0, 4), gen_pat(rng, d, hist))
    if r < 0.89:
        note('mu')
        return ('mu', rng.randrange(0, 3), gen_pat(rng, d, hist))
    head = mv(rng.randrange(0, 5))
    if rng.random() < 0.3:
        head = ('esub', head, rng.randrange(0, 4), gen_pat(rng, 0, hist))
    if r < 0.95:
        note('esub')
        return ('esub', head, rng.randrange(0, 4), gen_pat(rng, d, hist))
    note('ssub')
    return ('ssub', head, rng.randrange(0, 3), gen_pat(rng, d, hist))


def gen_plain(rng, depth, nvars=3):
    """substitution-free pattern over unconstrained metavariables (premises that get instantiated)"""
    if depth <= 0 or rng.random() < 0.3:
        r = rng.random()
        if r < 0.55:
            return mv(rng.randrange(0, nvars))
        if r < 0.75:
            return ('ev', rng.randrange(0, 3))
        if r < 0.9:
            return ('sym', rng.randrange(0, 3))
        return ('bot',)
    r = rng.random()
    d = depth - 1
    if r < 0.45:
        return ('imp', gen_plain(rng, d, nvars), gen_plain(rng, d, nvars))
    if r < 0.6:
        return ('neg', gen_plain(rng, d, nvars))
    if r < 0.7:
        return ('or', gen_plain(rng, d, nvars), gen_plain(rng, d, nvars))
    if r < 0.8:
        return ('and', gen_plain(rng, d, nvars), gen_plain(rng, d, nvars))
    if r < 0.9:
        return ('app', gen_plain(rng, d, nvars), gen_plain(rng, d, nvars))
    return ('ex', rng.randrange(0, 3), gen_plain(rng, d, nvars))


def subst_mv(p, theta):
    """textbook simultaneous instantiation on expanded substitution-free patterns"""
    k = p[0]
    if k == 'mv':
        return theta.get(p[1], p)
    if k in ('imp', 'app'):
        return (k, subst_mv(p[1], theta), subst_mv(p[2], theta))
    if k in ('ex', 'mu'):
        return (k, p[1], subst_mv(p[2], theta))
    return p


def is_plain(p):
    """expanded pattern without pending substitution / constrained metavariable"""
    k = p[0]
    if k == 'mv':
        return not any(p[2:7])
    if k in ('esub', 'ssub'):
        return False
    if k in ('imp', 'app'):
        return is_plain(p[1]) and is_plain(p[2])
    if k in ('ex', 'mu'):
        return is_plain(p[2])
    return True


def mvars(p, acc=None):
    """metavariable ids of an expanded pattern, first occurrence order"""
    acc = [] if acc is None else acc
    if p[0] == 'mv':
        if p[1] not in acc:
            acc.append(p[1])
    else:
        for x in p[1:]:
            if isinstance(x, tuple) and x and isinstance(x[0], str):
                mvars(x, acc)
    return acc


def match_plain(p, i, th):
    """textbook first-order matching of a plain expanded pattern against an instance; extends th or None"""
    k = p[0]
    if k == 'mv':
        if p[1] in th:
            return th if th[p[1]] == i else None
        th[p[1]] = i
        return th
    if k != i[0]:
        return None
    if k in ('imp', 'app'):
        return th if match_plain(p[1], i[1], th) is not None and match_plain(p[2], i[2], th) is not None else None
    if k in ('ex', 'mu'):
        return match_plain(p[2], i[2], th) if p[1] == i[1] else None
    return th if p == i else None


def un_imp(p):
    return (p[1], p[2]) if p is not None and p[0] == 'imp' else None


def un_equiv(p):
    """(a, b) if the expanded pattern is equiv(a, b)"""
    try:
        if p[0] == 'imp' and p[2] == BOT and p[1][0] == 'imp' and p[1][2][0] == 'imp' and p[1][2][2] == BOT:
            x, y = p[1][1], p[1][2][1]
            if x[0] == 'imp' and y[0] == 'imp' and x[1] == y[2] and x[2] == y[1]:
                return x[1], x[2]
    except (IndexError, TypeError):
        pass
    return None


def mk_equiv(a, b):
    return expand(('equiv', a, b))


def oracle_special(name, args):
    """documented conclusion of the rules that instantiate a premise: `dynamic_inst` (= sequential
    instantiation) and the six *_match* rules.  args: ('pat', p) | ('thunk', conc|None) | ('subst', [(k, p)]);
    everything expanded.  None = no expectation (premise not plain / not of the documented shape / no match)."""
    kinds = [a[0] for a in args]
    vals = [a[1] for a in args]
    if name == 'top_univgen':
        return p_forall(0, ('imp', BOT, BOT))
    if name in ('sym0_implies_sym1', 'sym1_implies_sym2', 'sym0_implies_sym2_proof'):
        i, j = {'sym0_implies_sym1': (0, 1), 'sym1_implies_sym2': (1, 2), 'sym0_implies_sym2_proof': (0, 2)}[name]
        return ('imp', ('sym', i), ('sym', j))
    if any(k == 'thunk' and v_ is None for k, v_ in args):
        return None
    if name == 'universal_gen':
        return p_forall(vals[1], vals[0])
    if name == 'functional_subst':
        # docstring:  exists x0 . p = x0     forall x1 . q   |-   q[p/x1]
        h1, h2 = vals
        try:
            if h1[0] != 'ex' or h1[1] != 0:
                return None
            body = h1[2]
            if not (body[0] == 'imp' and body[2] == BOT and body[1][0] == 'app' and body[1][1] == ('sym', DEFINEDNESS)
                    and body[1][2][0] == 'imp' and body[1][2][2] == BOT):
                return None
            eq = un_equiv(body[1][2][1])
            if not eq or eq[1] != ('ev', 0):
                return None
            pp = eq[0]
            if not (h2[0] == 'imp' and h2[2] == BOT and h2[1][0] == 'ex' and h2[1][1] == 1
                    and h2[1][2][0] == 'imp' and h2[1][2][2] == BOT):
                return None
            return esubst_doc(h2[1][2][1], 1, pp)
        except (IndexError, TypeError):
            return None
    if name == 'dynamic_inst':
        conc, delta = vals
        if not delta:
            return conc
        if not is_plain(conc) or len({k for k, _ in delta}) != len(delta):
            return None
        return subst_mv(conc, dict(delta))
    if name in ('imp_trans_match1', 'imp_trans_match2'):
        h1, h2 = un_imp(vals[0]), un_imp(vals[1])
        if not h1 or not h2:
            return None
        (a, b), (c, d) = h1, h2
        if name == 'imp_trans_match1':
            th = match_plain(b, c, {}) if is_plain(vals[0]) else None
            return None if th is None else ('imp', subst_mv(a, th), d)
        th = match_plain(c, b, {}) if is_plain(vals[1]) else None
        return None if th is None else ('imp', a, subst_mv(d, th))
    if name in ('equiv_match_l', 'equiv_match_r'):
        h = un_equiv(vals[0])
        if not h or not is_plain(vals[0]) or kinds[1] != 'pat':
            return None
        a, b = h
        if name == 'equiv_match_l':
            th = match_plain(a, vals[1], {})
            return None if th is None else mk_equiv(vals[1], subst_mv(b, th))
        th = match_plain(b, vals[1], {})
        return None if th is None else mk_equiv(subst_mv(a, th), vals[1])
    if name in ('equiv_trans_match1', 'equiv_trans_match2'):
        h1, h2 = un_equiv(vals[0]), un_equiv(vals[1])
        if not h1 or not h2:
            return None
        (a, b), (c, d) = h1, h2
        if name == 'equiv_trans_match1':
            th = match_plain(b, c, {}) if is_plain(vals[0]) else None
            return None if th is None else mk_equiv(subst_mv(a, th), d)
        th = match_plain(c, b, {}) if is_plain(vals[1]) else None
        return None if th is None else mk_equiv(a, subst_mv(d, th))
    return None


SPECIAL = {'dynamic_inst', 'imp_trans_match1', 'imp_trans_match2', 'equiv_match_l', 'equiv_match_r',
           'equiv_trans_match1', 'equiv_trans_match2',
           'universal_gen', 'top_univgen', 'functional_subst', 'sym0_implies_sym1', 'sym1_implies_sym2',
           'sym0_implies_sym2_proof'}
# index-driven rules of tautology.py (recursive / looping on integer counters: outside the straight-line translator).
# conjunction_implies_nth has a hand-written Coq model (Lib/NthDef.v, theorems Lib/Nth.v) that is tied here; the other
# two are checked against their documented conclusion only (their proofs belong to C09's proof layer).
HAND = {
    'conjunction_implies_nth': ([('term', 'pat'), ('n', 'int'), ('l', 'int')], ['imp_refl', 'and_l_imp', 'and_r_imp', 'imp_transitivity']),
    'merge_clauses': ([('term_l', 'pat'), ('len_l', 'int'), ('term_r', 'pat')], ['equiv_refl', 'equiv_sym', 'or_assoc', 'equiv_transitivity', 'or_cong']),
    'reduce_n_or_duplicates_at_front': ([('n', 'int'), ('terms', 'list')], ['equiv_refl', 'or_idem', 'reduce_or_duplicates_at_front', 'equiv_transitivity']),
}


def un_and(p):
    if p[0] == 'imp' and p[2] == BOT and p[1][0] == 'imp' and p[1][2][0] == 'imp' and p[1][2][2] == BOT:
        return p[1][1], p[1][2][1]
    return None


def un_or(p):
    if p[0] == 'imp' and p[1][0] == 'imp' and p[1][2] == BOT:
        return p[1][1], p[2]
    return None


def fold_or(ps):
    return ps[0] if len(ps) == 1 else expand(('or', ps[0], fold_or(ps[1:])))


def oracle_hand(name, py):
    a = py['args']
    if name == 'conjunction_implies_nth':
        term, n, l = expand(totuple(a[0]['p'])), int(a[1]['i']), int(a[2]['i'])
        if not 0 <= n < l:
            return None
        conj, t = [], term
        for _ in range(l - 1):
            u = un_and(t)
            if u is None:
                return None
            conj.append(u[0])
            t = u[1]
        conj.append(t)
        return ('imp', term, conj[n])
    if name == 'merge_clauses':
        tl, k, tr = expand(totuple(a[0]['p'])), int(a[1]['i']), expand(totuple(a[2]['p']))
        if k < 1:
            return None
        ls, t = [], tl
        for _ in range(k - 1):
            u = un_or(t)
            if u is None:
                return None
            ls.append(u[0])
            t = u[1]
        ls.append(t)
        return mk_equiv(expand(('or', tl, tr)), fold_or(ls + [tr]))
    if name == 'reduce_n_or_duplicates_at_front':
        n, terms = int(a[0]['i']), [expand(totuple(x)) for x in a[1]['l']]
        if not 0 <= n < len(terms) or any(t != terms[0] for t in terms[:n + 1]):
            return None
        return mk_equiv(fold_or(terms), fold_or(terms[n:]))
    return None


INSTANTIATING = {'dynamic_inst', 'imp_trans_match1', 'imp_trans_match2', 'equiv_match_l', 'equiv_match_r',
                 'equiv_trans_match1', 'equiv_trans_match2'}
DEFINEDNESS = 100        # id of Symbol('⌈_⌉') in the model (Gen/PropLib.index.json `symbols`)


def p_forall(x, q):
    return ('imp', ('ex', x, ('imp', q, BOT)), BOT)


def p_equals(a, b):
    """definedness.py: equals = floor(equiv) ; floor p = neg(ceil(neg p)) ; ceil p = App(definedness, p)"""
    return ('imp', ('app', ('sym', DEFINEDNESS), ('imp', mk_equiv(a, b), BOT)), BOT)


def esubst_doc(q, x, plug):
    """q[plug/x] as the DOCUMENT means it, on the fragment the oracle needs: metavariables get a pending
    substitution, closed variable-free-of-binders patterns are substituted textually; else None"""
    k = q[0]
    if k == 'mv':
        return ('esub', q, x, plug)
    if k == 'ev':
        return plug if q[1] == x else q
    if k in ('sv', 'sym'):
        return q
    if k in ('imp', 'app'):
        a, b = esubst_doc(q[1], x, plug), esubst_doc(q[2], x, plug)
        return None if a is None or b is None else (k, a, b)
    return None


# ------------------------------------------------------------------------------------------------
# library index, schemas
# ------------------------------------------------------------------------------------------------
class Lib:
    def __init__(self, idx):
        self.idx = idx
        self.by_name = {m['name']: m for m in idx['methods']}
        USES_GEN.update(m['name'] for m in idx['methods'] if m.get('uses_gen'))
        self.schemas = {}
        for m in idx['methods']:
            sch = m['schema']
            if sch is None and m['name'] in EXTRA_SCHEMAS:
                try:
                    s = S.parse_docstring(EXTRA_SCHEMAS[m['name']])
                    binding, prem_vars = S.bind_schema(s, [p['name'] for p in m['params'] if p['type'] == 'pat'],
                                                       sum(1 for p in m['params'] if p['type'] == 'thunk'), m['name'])
                    sch = dict(premises=s['premises'], conclusions=s['conclusions'], binding=binding, prem_vars=prem_vars)
                except (S.SchemaSyntax, S.SchemaMismatch):
                    sch = None
            if sch is not None:
                sch = dict(premises=[totuple(x) for x in sch['premises']],
                           conclusions=[totuple(x) for x in sch['conclusions']],
                           binding=sch['binding'], prem_vars=sch['prem_vars'])
                self.schemas[m['name']] = sch
        self.with_schema = [m['name'] for m in idx['methods'] if m['name'] in self.schemas]
        for k_, (hn, (hparams, hcalls)) in enumerate(HAND.items()):
            self.by_name[hn] = dict(name=hn, cls='Tautology', idx=10000 + k_, spec='hand', schema=None, calls=hcalls, sha=None,
                                    params=[dict(name=a, type=t, default=None) for a, t in hparams], uses_gen=False)


def totuple(x):
    return tuple(totuple(y) for y in x) if isinstance(x, (list, tuple)) else x


def oracle(lib, name, pat_args, prem_concs):
    """documented conclusion of `name` at expanded pattern arguments {param: pattern} and expanded
    premise conclusions [pattern|None]; None when the premises are not of the documented shape"""
    sch = lib.schemas.get(name)
    if sch is None:
        return None
    env = {}
    for var, param in sch['binding'].items():
        env[var] = pat_args[param]
    for f, c in zip(sch['premises'], prem_concs):
        if c is None or not S.match_formula(f, c, env):
            return None
    return [S.expand_formula(c, env) for c in sch['conclusions']]


class Gen:
    """generates one call tree per case"""

    def __init__(self, lib, rng, hist):
        self.lib, self.rng, self.hist = lib, rng, hist

    def note(self, k):
        self.hist[k] = self.hist.get(k, 0) + 1

    def call(self, name, level, maxdepth):
        """-> (python arg json, model expr, expected expanded conclusion | None, [sub-case dicts])"""
        lib, rng = self.lib, self.rng
        m = lib.by_name[name]
        if name in MATCH_METHODS:
            return self.match_call(name, level)
        if name == 'dynamic_inst':
            return self.tree_case(self.inst_tree(level, None, plain_only=(level > 0 or rng.random() < 0.5)))
        if name in SPECIAL:
            return self.tree_case(self.other_lib_tree(name))
        sch = lib.schemas.get(name)
        params = m['params']
        pats = [p for p in params if p['type'] == 'pat']
        thunks = [p for p in params if p['type'] == 'thunk']
        env = {}
        subs = []
        py_thunks, ml_thunks, prem_concs = {}, {}, {}
        # omit trailing defaulted Pattern parameters sometimes (exercises the phi0/phi1/phi2 defaults)
        n_omit = 0
        if params and all(p['default'] is not None for p in params) and rng.random() < 0.2:
            n_omit = rng.randrange(1, len(params) + 1)
            self.note('args:defaults-used')
        omitted = {p['name'] for p in params[len(params) - n_omit:]} if n_omit else set()
        inv = {v: k for k, v in sch['binding'].items()} if sch else {}
        for p in pats:
            if p['name'] in omitted and p['name'] in inv:
                env[inv[p['name']]] = mv(p['default'])
        # premises built from other rules first (they fix schema variables)
        malformed_slot = None
        if thunks and level == 0 and rng.random() < (0.4 if m.get('spec') == 'primitive' else 0.06):
            malformed_slot = rng.randrange(len(thunks))
        for i, t in enumerate(thunks):
            if sch is None or i == malformed_slot:
                continue
            if level < 2 and rng.random() < (0.4 if level == 0 else 0.25):
                for _ in range(4):
                    if rng.random() < 0.3:
                        tj = self.inst_tree(level + 1) if rng.random() < 0.6 else self.lemma_tree()
                        pj, mj, exp, sj = self.tree_case(tj)
                        g = tj['call']
                    else:
                        g = rng.choice(lib.with_schema)
                        pj, mj, exp, sj = self.call(g, level + 1, maxdepth)
                    if exp is None:
                        continue
                    e2 = dict(env)
                    if S.match_formula(sch['premises'][i], exp, e2):
                        env = e2
                        py_thunks[i], ml_thunks[i], prem_concs[i] = pj, mj, exp
                        subs.append(dict(py=pj, ml=mj, expect=exp, sub=sj, origin='sub'))
                        self.note('premise:derived-from-' + ('rule-with-premises' if any(q['type'] == 'thunk' for q in lib.by_name[g]['params']) else 'axiom-style-rule'))
                        break
        # remaining schema variables / pattern arguments
        allvars = []
        if sch:
            for f in sch['premises'] + sch['conclusions']:
                S.fvars(f, allvars)
        for var in allvars:
            if var not in env:
                env[var] = gen_pat(rng, rng.randrange(0, maxdepth + 1), self.hist)
        pat_args = {}
        for p in pats:
            if sch and p['name'] in inv:
                pat_args[p['name']] = env[inv[p['name']]]
            else:
                pat_args[p['name']] = mv(p['default']) if p['name'] in omitted else gen_pat(rng, rng.randrange(0, maxdepth + 1), self.hist)
        # assumed premises
        for i, t in enumerate(thunks):
            if i in py_thunks:
                continue
            if sch is None or i == malformed_slot:
                surf = gen_pat(rng, 2, self.hist)
                self.note('premise:malformed' if sch else 'premise:random')
            else:
                surf = schema_surface(sch['premises'][i], env)
                if rng.random() < 0.3:
                    surf = expand(surf)
                    self.note('premise:assumed-expanded')
                else:
                    self.note('premise:assumed-notation')
            py_thunks[i] = {'ax': surf}
            ml_thunks[i] = f'(A {hexp(expand(surf))})'
            prem_concs[i] = expand(surf)
        # assemble
        py_args, ml_args = [], []
        ti = 0
        for p in params:
            if p['type'] == 'pat':
                a = pat_args[p['name']]
                if p['name'] not in omitted:
                    py_args.append({'p': a})
                ml_args.append('P' + hexp(expand(a)))
            else:
                py_args.append(py_thunks[ti])
                ml_args.append(ml_thunks[ti])
                ti += 1
        exp = oracle(lib, name, {k: expand(a) for k, a in pat_args.items()}, [prem_concs[i] for i in range(len(thunks))])
        return ({'call': name, 'args': py_args}, f'(C {m["idx"]} ' + ' '.join(ml_args) + ')' if ml_args else f'(C {m["idx"]})',
                exp[0] if exp else None, subs)

    # -- call trees for the rules that instantiate a premise -------------------------------------------
    def tree_case(self, py):
        lib = self.lib
        return py, ml_of(py, lib), oracle_of(py, lib), subcases(py, lib)

    def schematic(self):
        """plain pattern, often a bare metavariable at a 'wrong' position (phi1 where phi0 is the default)"""
        rng = self.rng
        if rng.random() < 0.55:
            return mv(rng.randrange(0, 3))
        return gen_plain(rng, 1, 3)

    def lemma_tree(self, want=None):
        """axiom-style library rule at schematic arguments; biased to the rules that are themselves a
        dynamic_inst of an axiom (prop1_inst, or_assoc_r, ...)"""
        lib, rng = self.lib, self.rng
        cands = [m for m in lib.idx['methods'] if m['name'] in lib.schemas and m['spec'] != 'primitive'
                 and not any(p['type'] != 'pat' for p in m['params'])]
        if want == 'equiv':
            cands = [m for m in cands if lib.schemas[m['name']]['conclusions'][0][0] == 'equiv']
        else:
            direct = [m for m in cands if not m['calls'] and m['params']]
            if direct and rng.random() < 0.6:
                cands = direct
        m = rng.choice(cands)
        args = [{'p': self.schematic()} for _ in m['params']]
        if args and all(p['default'] is not None for p in m['params']) and rng.random() < 0.15:
            args = args[:rng.randrange(0, len(args))]
        self.note('premise:schematic-lemma')
        return {'call': m['name'], 'args': args}

    def delta(self, plain_only):
        rng = self.rng
        if rng.random() < 0.07:
            return []
        keys = rng.sample(range(4), rng.randrange(1, 4))
        out = []
        for k in keys:
            if plain_only or rng.random() < 0.7:
                out.append([k, self.schematic()])
            else:
                out.append([k, gen_pat(rng, 1, self.hist)])
        return out

    def inst_tree(self, level, want=None, plain_only=True):
        """dynamic_inst(base, delta); base = schematic lemma | assumption | another dynamic_inst (ids overlap:
        all substitutions draw keys from 0..3 and plugs mention phi0..phi2)"""
        rng = self.rng
        r = rng.random()
        if level < 2 and r < 0.45:
            base = self.inst_tree(level + 1, want, True)
            self.note('premise:dynamic_inst-of-dynamic_inst')
        elif r < 0.85 or want == 'equiv':
            base = self.lemma_tree(want)
        elif rng.random() < 0.5:
            base = {'ax': ('imp', gen_plain(rng, 1, 3), gen_plain(rng, 1, 3))}
        else:
            base = {'ax': gen_pat(rng, 2, self.hist)}
            self.note('premise:dynamic_inst-of-nonplain')
        return {'call': 'dynamic_inst', 'args': [base, {'d': self.delta(plain_only)}]}

    def other_lib_tree(self, name):
        """proofs/substitution.py and proofs/small_theory.py"""
        rng = self.rng
        if name == 'universal_gen':
            r = rng.random()
            prem = self.lemma_tree() if r < 0.4 else {'ax': gen_pat(rng, 2, self.hist)}
            self.note('premise:universal_gen')
            return {'call': name, 'args': [prem, {'v': rng.randrange(0, 4)}]}
        if name == 'functional_subst':
            a1 = ('ex', 0, p_equals(('mv', 0, (0,), (), (), (), ()), ('ev', 0)))
            a2 = p_forall(1, mv(1))
            r = rng.random()
            if r < 0.6:
                self.note('premise:functional_subst-literal')
                return {'call': name, 'args': [{'ax': a1}, {'ax': a2}]}
            self.note('premise:functional_subst-other')
            other = gen_pat(rng, 2, self.hist)
            return {'call': name, 'args': [{'ax': a1 if r < 0.8 else other}, {'ax': other if r < 0.8 else a2}]}
        return {'call': name, 'args': []}

    def match_call(self, name, level):
        """*_match* rule: the premise that gets instantiated is an assumption, a schematic lemma or a
        dynamic_inst result (so that the rule re-instantiates an instantiated lemma with overlapping ids)"""
        rng, lib = self.rng, self.lib
        want = 'equiv' if name.startswith('equiv') else None
        T = None
        r = rng.random()
        if r < 0.35:
            T = self.inst_tree(1, want, True)
        elif r < 0.65:
            T = self.lemma_tree(want)
        E = oracle_of(T, lib) if T is not None else None
        parts = (un_equiv(E) if want else un_imp(E)) if E is not None and is_plain(E) else None
        if parts is None:
            a, b = gen_plain(rng, 1, 3), gen_plain(rng, 2, 3)
            if rng.random() < 0.35:
                # the re-instantiated premise is NOT plain: constrained metavariables / pending substitutions in the
                # other component (the model follows the generator's instantiate; no documented expectation)
                a = gen_pat(rng, 2, self.hist)
                self.note('premise:match-family-nonplain')
            T = {'ax': ('equiv', a, b) if want else ('imp', a, b)}
            parts = (expand(a), expand(b))
            self.note('premise:match-family-assumed')
        else:
            self.note('premise:match-family-derived')
        x, y = parts
        # which component is the pattern side, and where the instantiated premise goes
        first = name in ('imp_trans_match1', 'equiv_trans_match1', 'equiv_match_l', 'equiv_match_r')
        pat_side = {'imp_trans_match1': y, 'equiv_trans_match1': y, 'equiv_match_r': y,
                    'imp_trans_match2': x, 'equiv_trans_match2': x, 'equiv_match_l': x}[name]
        theta = {}
        for i in mvars(pat_side):
            theta[i] = expand(self.schematic()) if rng.random() < 0.6 else expand(gen_pat(rng, 1, self.hist))
        if rng.random() < 0.1:
            theta = {}
        inst_side = subst_mv(pat_side, theta)
        other = gen_pat(rng, 1, self.hist)
        mk = (lambda l, r_: ('equiv', l, r_)) if want else (lambda l, r_: ('imp', l, r_))
        if name in ('equiv_match_l', 'equiv_match_r'):
            args = [T, {'p': inst_side}]
        elif first:
            args = [T, {'ax': mk(inst_side, other)}]
        else:
            args = [{'ax': mk(other, inst_side)}, T]
        return self.tree_case({'call': name, 'args': args})


# ------------------------------------------------------------------------------------------------
# running both sides
# ------------------------------------------------------------------------------------------------
INIT_STATUS = set()


def run_impl(cases, chunks=None):
    chunks = chunks or C.NCPU
    lines = [json.dumps({'m': c['py']['call'], 'args': c['py']['args']}) for c in cases]
    if not lines:
        return []
    # Stripe the cases over the workers (heavy entry points are adjacent in the list).  Cases that share a
    # `group` run consecutively in ONE runner process, i.e. on ONE library instance (state carried across calls).
    groups, seen = [], {}
    for i, c in enumerate(cases):
        g = c.get('group', ('single', i))
        if g not in seen:
            seen[g] = len(groups)
            groups.append([])
        groups[seen[g]].append(i)
    k = max(1, min(chunks, len(groups)))
    order = [[i for grp in groups[j::k] for i in grp] for j in range(k)]
    parts = [[lines[i] for i in o_] for o_ in order]
    with ThreadPoolExecutor(max_workers=k) as ex:
        outs = list(ex.map(lambda part: C.run_py('proplib_runner.py', part, timeout=3000, args=(os.path.join(GEN, 'PropLib.index.json'),)), parts))
    res = [None] * len(lines)
    for idxs, part, (o, err) in zip(order, parts, outs):
        if o and o[0].startswith('INIT'):
            INIT_STATUS.add(o[0])
            o = o[1:]
        if len(o) != len(part):
            o = o + ['CRASH ' + (err.strip().split('\n')[-1] if err.strip() else 'runner died')] * (len(part) - len(o))
        for i, line in zip(idxs, o):
            res[i] = line
    return res


# ---- near-duplicate requests on one instance: the same call tree with every pattern varied uniformly ----------
VARIATIONS = ('ex', 'ex', 'mu', 'ev', 'sym', 'expand', 'constrain')


def vary(p, T):
    """apply variation T uniformly to a surface pattern; shapes (Imp / bot / notation structure) are preserved"""
    p = totuple(p)
    k = p[0]
    if T == 'expand':
        return expand(p)
    if k == 'ex':
        return ('ex', (p[1] + 1) % 4 if T == 'ex' else p[1], vary(p[2], T))
    if k == 'mu':
        x = p[1]
        if T == 'mu' and not (x == 0 and totuple(p[2]) == ('sv', 0)):
            x = x + 1
        return ('mu', x, vary(p[2], T))
    if k == 'ev':
        return ('ev', (p[1] + 1) % 4) if T == 'ev' else p
    if k == 'sym':
        return ('sym', (p[1] + 1) % 3) if T == 'sym' else p
    if k == 'sv':
        return p
    if k == 'mv':
        if T == 'constrain' and not any(p[2:7]):
            return ('mv', p[1], (3,), (), (), (), ())
        return p
    if k in ('esub', 'ssub'):
        return (k, vary(p[1], T), p[2], vary(p[3], T))
    if k in ('bot', 'top'):
        return p
    return (k,) + tuple(vary(x, T) for x in p[1:])


def vary_tree(py, T):
    args = []
    for a in py['args']:
        if 'p' in a:
            args.append({'p': vary(a['p'], T)})
        elif 'ax' in a:
            args.append({'ax': vary(a['ax'], T)})
        elif 'd' in a:
            args.append({'d': [[k_, vary(x, T)] for k_, x in a['d']]})
        elif 'call' in a:
            args.append(vary_tree(a, T))
        else:
            args.append(a)
    return {'call': py['call'], 'args': args}


USES_GEN = set()


def tree_uses_gen(py):
    return py['call'] in USES_GEN or any(tree_uses_gen(a) for a in py['args'] if 'call' in a)


def judge(case, impl, model):
    """-> (agree: bool, oracle problem: (signature, description) | None)"""
    name = case['py']['call']
    fi, fm = impl.split(), (model or 'MISSING').split()
    agree = False
    if case.get('ml') is None and 'ml' in case:
        agree = True          # entry without a Coq model: only the documented conclusion is checked
    elif fi[0] == 'OK' and fm[0] == 'OK':
        agree = (fi[1] == fm[1] and fi[2] == fm[2] and int(fi[3]) == int(fm[3]) and fm[4] == fm[1]
                 and fm[5] == ('0' if tree_uses_gen(case['py']) else '1')
                 and fi[4] == fi[1] and fi[5] == fi[1] and fi[6] == '1')
    elif fi[0] == 'RAISE' and fm[0] == 'NONE':
        agree = True
    problem = None
    exp = case['expect']
    if fi[0] == 'RUNFAIL':
        problem = (f'{name}: built thunk fails when replayed ({fi[1]})',
                   f'{name} returned a ProofThunk but running it on the {fi[1]} interpreter raised {fi[2]}')
    elif fi[0] == 'CRASH':
        problem = (f'{name}: runner crashed', impl)
    elif fi[0] == 'OK' and (fi[4] != fi[1] or fi[5] != fi[1] or fi[6] != '1'):
        problem = (f'{name}: replayed conclusion differs from ProofThunk.conc',
                   f'{name}: conc={fi[1]} stateful={fi[4]} basic={fi[5]} stack_ok={fi[6]}')
    elif exp is not None:
        he = hexp(exp)
        if fi[0] == 'RAISE':
            problem = (f'{name}: raises on arguments of the documented shape',
                       f'{name} raised {fi[1]}; the documented rule promises {he}')
        elif fi[0] == 'OK' and fi[1] != he:
            problem = (f'{name}: conclusion differs from the documented schema',
                       f'{name} concluded {fi[1]}; the documented rule instantiated at the arguments gives {he}')
    return agree, problem


def subcalls(py):
    for a in py['args']:
        if 'call' in a:
            yield a
            yield from subcalls(a)


def hand_cases(lib, rng, hist, reps):
    """index-driven rules: every n < l for l = 1..5, conjuncts / disjuncts that are themselves conjunctions, negated
    implications (= unfolded conjunctions), applications, quantified patterns, metavariables; plus out-of-range counters"""
    out = []

    def elem(kind=None):
        k = kind or rng.choice(['and', 'negimp', 'app', 'ex', 'mv', 'any', 'or'])
        x, y = gen_pat(rng, 1, hist), gen_pat(rng, 1, hist)
        return {'and': ('and', x, y), 'negimp': ('neg', ('imp', x, ('neg', y))), 'app': ('app', x, y), 'or': ('or', x, y),
                'ex': ('ex', rng.randrange(3), x), 'mv': mv(rng.randrange(4)), 'any': gen_pat(rng, 2, hist)}[k]

    def nest(op, ps):
        return ps[0] if len(ps) == 1 else (op, ps[0], nest(op, ps[1:]))

    def add(name, args, tag):
        py = {'call': name, 'args': args}
        out.append(dict(py=py, ml=ml_of(py, lib), expect=oracle_of(py, lib), sub=[], origin=f'hand:{name}:{tag}'))
        hist['method:' + name + ':' + tag.split(',')[0]] = hist.get('method:' + name + ':' + tag.split(',')[0], 0) + 1

    for l in range(1, 6):
        for n in range(l):
            for r in range(reps + 1):
                kinds = ['and', 'negimp'][r % 2] if r < 2 else None       # first two draws: EVERY conjunct is a conjunction
                ps = [elem(kinds) for _ in range(l)]
                term = nest('and', ps)
                if rng.random() < 0.3:
                    term = expand(term)
                add('conjunction_implies_nth', [{'p': term}, {'i': n}, {'i': l}], f'l={l},n={n}')
        # counters that do not fit the term
        ps = [elem() for _ in range(l)]
        add('conjunction_implies_nth', [{'p': nest('and', ps)}, {'i': l}, {'i': l}], 'n-out-of-range')
        add('conjunction_implies_nth', [{'p': nest('and', [mv(0)] * l)}, {'i': l}, {'i': l + 1}], 'l-too-large')
    for k in range(1, 5):
        for r in range(reps):
            ls = [elem(['or', 'and', None][r % 3]) for _ in range(k)]
            add('merge_clauses', [{'p': nest('or', ls)}, {'i': k}, {'p': elem()}], f'len_l={k}')
    for n in range(0, 4):
        for extra in range(0, 3):
            p0 = elem()
            terms = [p0] * (n + 1) + [elem() for _ in range(extra)]
            add('reduce_n_or_duplicates_at_front', [{'i': n}, {'l': terms}], f'n={n}')
    return out


def regenerate():
    try:
        (defs, specs), idx = T.translate(C.PYSRC, os.path.join(C.COQ, 'Lib', 'Extra.v'))
    except T.Unsupported as e:
        return None, str(e)
    with C.BuildLock():
        C.write_if_changed(os.path.join(GEN, 'PropLib.v'), defs)
        C.write_if_changed(os.path.join(GEN, 'PropLibSpec.v'), specs)
        C.write_if_changed(os.path.join(GEN, 'PropLib.index.json'), json.dumps(idx, indent=1))
    return idx, None


def build_model():
    return C.build_mlref('lib', 'Extract/ExtractLib.v', 'lib_model', 'lib_driver.ml', 'mlref_lib', ['Gen/PropLib.vo'])


def setup():
    regenerate()
    build_model()


def ml_of(py, lib):
    """model request for a python call tree (entry points by CURRENT index, defaults made explicit)"""
    m = lib.by_name[py['call']]
    if m['spec'] == 'hand':
        if py['call'] == 'conjunction_implies_nth':
            return f"(N P{hexp(expand(totuple(py['args'][0]['p'])))} {int(py['args'][1]['i'])} {int(py['args'][2]['i'])})"
        return None          # no Coq model: implementation vs documented conclusion only
    out = []
    for k, p in enumerate(m['params']):
        if k < len(py['args']):
            out.append(ml_arg(py['args'][k], lib))
        elif p['default'] is not None:
            out.append('P' + hexp(mv(p['default'])))
        else:
            raise ValueError(f'{py["call"]}: missing argument {p["name"]}')
    return f'(C {m["idx"]} ' + ' '.join(out) + ')' if out else f'(C {m["idx"]})'


def ml_arg(a, lib):
    if 'p' in a:
        return 'P' + hexp(expand(totuple(a['p'])))
    if 'ax' in a:
        return f'(A {hexp(expand(totuple(a["ax"])))})'
    if 'v' in a:
        return f'V{int(a["v"])}'
    if 'd' in a:
        return '(S ' + ' '.join(f'{int(k)}={hexp(expand(totuple(x)))}' for k, x in a['d']) + ')' if a['d'] else '(S)'
    return ml_of(a, lib)


def conc_of_arg(a, lib):
    """documented conclusion of a thunk argument"""
    if 'ax' in a:
        return expand(totuple(a['ax']))
    return oracle_of(a, lib)


def oracle_of(py, lib):
    """documented conclusion of a python call tree (None if some premise is not of the documented shape)"""
    m = lib.by_name[py['call']]
    if m['spec'] == 'hand':
        return oracle_hand(py['call'], py)
    if py['call'] in SPECIAL:
        args = []
        for k, p in enumerate(m['params']):
            if k >= len(py['args']):
                return None
            a = py['args'][k]
            if p['type'] == 'pat':
                args.append(('pat', expand(totuple(a['p']))))
            elif p['type'] == 'subst':
                args.append(('subst', [(int(k_), expand(totuple(x))) for k_, x in a['d']]))
            elif p['type'] == 'evar':
                args.append(('var', int(a['v'])))
            else:
                args.append(('thunk', conc_of_arg(a, lib)))
        return oracle_special(py['call'], args)
    pat_args, prem = {}, []
    for k, p in enumerate(m['params']):
        a = py['args'][k] if k < len(py['args']) else None
        if p['type'] == 'pat':
            pat_args[p['name']] = expand(totuple(a['p'])) if a is not None else mv(p['default'])
        elif a is None:
            return None
        else:
            prem.append(conc_of_arg(a, lib))
    r = oracle(lib, py['call'], pat_args, prem)
    return r[0] if r else None


def subcases(py, lib):
    return [dict(py=a, ml=ml_of(a, lib), expect=oracle_of(a, lib), sub=subcases(a, lib), origin='sub')
            for a in py['args'] if 'call' in a]


def load_corpus(lib):
    out = []
    if os.path.isdir(CORPUS):
        for f in sorted(os.listdir(CORPUS)):
            if f.endswith('.json'):
                d = json.load(open(os.path.join(CORPUS, f)))
                for c in d.get('cases', [d]):
                    try:
                        out.append(dict(py=c['py'], ml=ml_of(c['py'], lib), expect=oracle_of(c['py'], lib), sub=[],
                                        origin='corpus:' + f))
                    except (KeyError, ValueError) as e:
                        out.append(dict(py=c['py'], ml='(C 99999)', expect=None, sub=[], origin=f'corpus:{f} (stale: {e})'))
    return out


def run(tier, seed):
    R = C.Report(CID, tier, seed)
    for f in os.listdir(C.OUT) if os.path.isdir(C.OUT) else []:
        if f.startswith(CID + '_violation_') and f.endswith('.json'):
            os.remove(os.path.join(C.OUT, f))
    rng = C.rng_for(seed, CID)
    per_method = 32 if tier == 'quick' else 800
    n_variants = 10 if tier == 'quick' else 200
    t0 = time.time()

    # 1. translate + proof stage
    idx, abort = regenerate()
    translation_aborted = abort is not None
    if translation_aborted:
        R.notes.append('translation aborted: ' + abort)
        try:
            idx = json.load(open(os.path.join(GEN, 'PropLib.index.json')))
            R.notes.append('using the index of the last successful translation for the failing-input search')
        except FileNotFoundError:
            idx = None
    P = R.proof_stage(timeout=1200)
    proof_broken = translation_aborted or not P['ok']
    if not P['ok']:
        R.notes.append('proof stage failed: ' + P['log'][-1500:])

    mismatches, problems = [], []
    n_cases = 0
    model_broken = None
    if idx is not None:
        lib = Lib(idx)
        ok, log, mlref = build_model()
        if not ok:
            R.notes.append('extracted model did not build: ' + log[-800:])
            model_broken = log[-1500:]
        # 2. cases: corpus first, then generated
        cases = load_corpus(lib)
        G = Gen(lib, rng, R.hist)
        budget = per_method if not proof_broken else per_method * 3 // 2
        for m in idx['methods']:
            for k in range(budget * (4 if m['name'] in INSTANTIATING else 1)):
                py, ml, exp, sub = G.call(m['name'], 0, 1 + (k % 3))
                cases.append(dict(py=py, ml=ml, expect=exp, sub=sub, origin=f'gen:{m["name"]}:{k}', group=(m['name'], k)))
                if k < n_variants and m['params']:
                    # the same request again with every pattern varied uniformly (bound-variable ids, element variables,
                    # symbols, notation vs expansion, a constraint): must be answered for the NEW arguments although it
                    # runs right after the first on the same library instance
                    for _try in range(3):
                        T_ = rng.choice(VARIATIONS)
                        vt = vary_tree(py, T_)
                        if json.dumps(vt) != json.dumps(py):
                            break
                    else:
                        continue
                    try:
                        cases.append(dict(py=vt, ml=ml_of(vt, lib), expect=oracle_of(vt, lib), sub=subcases(vt, lib),
                                          origin=f'variant[{T_}]:{m["name"]}:{k}', group=(m['name'], k)))
                        R.hist['variant:' + T_] = R.hist.get('variant:' + T_, 0) + 1
                    except (ValueError, KeyError):
                        pass
        cases += hand_cases(lib, rng, R.hist, 2 if tier == 'quick' else 40)
        impl = run_impl(cases)
        model = C.run_lines_parallel(mlref, [c['ml'] or '(C 99999)' for c in cases]) if ok else [None] * len(cases)
        if ok and len(model) != len(cases):
            model = model + ['MISSING'] * (len(cases) - len(model))
        n_cases = len(cases)
        for c, i, mo in zip(cases, impl, model):
            agree, problem = judge(c, i, mo or 'MISSING')
            name = c['py']['call']
            fi = i.split()
            nontrivial = (fi[0] == 'OK' and int(fi[3]) >= 2) or fi[0] == 'RAISE'
            R.case((name, c['ml']), nontrivial, kind=f'result:{fi[0]}')
            R.hist['method:' + name] = R.hist.get('method:' + name, 0) + 1
            if c['expect'] is not None:
                R.hist['oracle:applied'] = R.hist.get('oracle:applied', 0) + 1
            if fi[0] == 'OK':
                b = 'rules:' + ('1' if int(fi[3]) == 1 else '2-9' if int(fi[3]) < 10 else '10-99' if int(fi[3]) < 100
                                else '100-999' if int(fi[3]) < 1000 else '1000+')
                R.hist[b] = R.hist.get(b, 0) + 1
            R.sample(dict(call=c['py'], model=mo, impl=i), limit=4)
            if ok and not agree:
                mismatches.append(dict(case=c['py'], request=c['ml'], model=mo, impl=i, origin=c['origin']))
            if problem:
                problems.append((c, i, mo, problem))

        # 3./4. failing inputs: attribute each to the innermost call that already fails on its own
        blamed_methods = set()

        def innermost(c, i, mo, prob):
            subs = c.get('sub') or []
            if subs:
                outs = run_impl(subs, chunks=1)
                for s_, o_ in zip(subs, outs):
                    _, p_ = judge(s_, o_, None)
                    if p_:
                        return innermost(s_, o_, None, p_)
            return c, i, mo, prob

        def inner_names(py):
            return {s_['call'] for s_ in subcalls(py)}

        # callees before callers (index order is dependency order), small inputs first
        closure = {}
        direct_bad = {x[0]['py']['call'] for x in problems if not any(True for _ in subcalls(x[0]['py']))}

        def callees(n):
            if n not in closure:
                closure[n] = set()
                for c_ in lib.by_name[n]['calls']:
                    closure[n] |= {c_} | callees(c_)
                if n in MATCH_METHODS:
                    closure[n].add('dynamic_inst')      # they instantiate a premise through the DSL primitive
            return closure[n]

        for c, i, mo, prob in sorted(problems, key=lambda x: (lib.by_name[x[0]['py']['call']]['spec'] != 'primitive', lib.by_name[x[0]['py']['call']]['idx'], len(json.dumps(x[0]['py'])))):
            if prob[0] in [v[0] for v in R.violations] or prob[0] in [k_[0] for k_ in R.known_hit]:
                continue
            if (inner_names(c['py']) | callees(c['py']['call'])) & blamed_methods:
                continue        # explained by an inner call / a called library rule that is already reported
            c2, i2, mo2, (sig, desc) = innermost(c, i, mo, prob)
            if callees(c2['py']['call']) & (direct_bad | blamed_methods):
                continue        # a library rule it calls fails on its own: reported there
            blamed_methods.add(c2['py']['call'])
            if mo2 is None and ok and c2.get('ml'):
                mo2 = C.run_lines(mlref, [c2['ml']])[0]
            prev = [x['py'] for x in cases if x.get('group') is not None and x.get('group') == c.get('group') and x is not c
                    and cases.index(x) < cases.index(c)] if c in cases else []
            R.violation(sig, desc, dict(method=c2['py']['call'], python_call=c2['py'], model_request=c2.get('ml'),
                                        preceded_by_on_same_instance=prev if c2 is c else [],
                                        state_dependent=('the same request answered correctly on a fresh instance'
                                                         if prev and c2 is c and run_impl([dict(py=c['py'])], chunks=1)[0] != i else None),
                                        expected_conclusion_hex=hexp(c2['expect']) if c2.get('expect') else None,
                                        implementation=i2, model=mo2, found_in=c['origin'],
                                        proof_stage_ok=not proof_broken,
                                        proof_log_tail=None if P['ok'] else P['log'][-1200:],
                                        translation_abort=abort))
    bad_init = sorted(x for x in INIT_STATUS if x != 'INIT OK')
    if bad_init:
        R.notes.append(f'constructing Tautology() raised ({bad_init}); rules examined on an instance without the shipped proofs')
    known_sigs = {k_['signature'] for k_ in R.known}
    unexplained = [x for x in problems if x[3][0] not in known_sigs]
    if unexplained and not R.violations:
        c, i, mo, (sig, desc) = unexplained[0]
        R.violation(sig, desc, dict(method=c['py']['call'], python_call=c['py'], model_request=c.get('ml'),
                                    expected_conclusion_hex=hexp(c['expect']) if c.get('expect') else None,
                                    implementation=i, model=mo, found_in=c['origin'], attribution='none'))
    if bad_init and not R.violations:
        R.violation('Tautology(): constructor raises', 'the library module cannot be instantiated: ' + ', '.join(bad_init),
                    {'python_call': None, 'how': 'proof_generation.tautology.Tautology()', 'status': bad_init})
    if proof_broken and not R.violations:
        R.violation('proof-broken', 'translation or Coq proof stage failed and no failing input was found',
                    {'no_failing_input_found': True, 'theorem_or_correspondence': 'Gen/PropLibSpec.v / Props/C10.v',
                     'translation_abort': abort, 'log': P['log'][-3000:], 'cases_searched': n_cases})
    if model_broken and not R.violations:
        R.violation('correspondence-broken', 'the extracted model (ocaml/mlref_lib) could not be built: no tie this run',
                    {'no_failing_input_found': True, 'theorem_or_correspondence': 'Extract/ExtractLib.v -> mlref_lib', 'log': model_broken})
    if mismatches and not R.violations:
        R.violation('correspondence-broken', 'extracted model and implementation disagree',
                    {'no_failing_input_found': True, 'theorem_or_correspondence': 'mlref_lib vs proplib_runner.py',
                     'first_mismatches': mismatches[:5], 'n_mismatches': len(mismatches)})
    elif mismatches:
        R.notes.append(f'{len(mismatches)} model/implementation disagreements; first: {json.dumps(mismatches[0])[:600]}')

    R.coverage['rule'] = ('one case = one entry point applied to generated arguments (patterns drawn from all constructors incl. '
                          'notation, constrained metavariables, pending substitutions; premises = assumptions of the documented '
                          'shape, conclusions of other rules, or malformed); distinct = distinct (entry point, expanded argument '
                          'tree); non-trivial = the implementation built a proof with >= 2 rule applications or rejected the arguments')
    extra = {}
    if not P['ok']:
        # common.prop_check counts by file time stamps; the spec file's text does not change when only a
        # method body changed, so count precisely: everything before the first failing lemma
        import re
        mline = re.search(r'File "\./([\w/]+\.v)", line (\d+), characters [\d-]+:\s*\nError', P['log'])
        if mline:
            f_bad, ln = mline.group(1), int(mline.group(2))
            good = 0
            for f in P['files']:
                src = C.strip_comments(open(os.path.join(C.COQ, f)).read())
                if f == f_bad:
                    src = '\n'.join(src.split('\n')[:ln - 2])
                    good += len(C.STMT.findall(src))
                elif f not in ('Props/C10.v',) and not (f_bad != 'Gen/PropLibSpec.v' and f == 'Gen/PropLibSpec.v'):
                    good += len(C.STMT.findall(src))
            extra['discharged'] = good
            m2 = None
            for cand in re.finditer(r'^Lemma (\w+)', '\n'.join(open(os.path.join(C.COQ, f_bad)).read().split('\n')[:ln]), re.M):
                m2 = cand
            extra['first_failing_lemma'] = m2.group(1) if m2 else None
    extra.update(methods_translated=len([m for m in idx['methods'] if m['spec'] != 'primitive']) if idx else 0,
                 methods_excluded_algorithmic=idx['excluded'] if idx else None,
                 methods_without_statement=idx['unspecified'] if idx else None,
                 method_source_sha256_16={m['name']: m['sha'] for m in idx['methods'] if m['sha']} if idx else None,
                 methods_per_file=idx.get('per_file') if idx else None,
                 translation_aborted=abort, mismatches=len(mismatches), oracle_problems=len(problems),
                 gen_wall_s=round(time.time() - t0, 1))
    if translation_aborted:
        extra['discharged'] = 0
    return R.finish(level='proof', trusted_base=C.TRUSTED_COMMON + [
        'translators/proplib.py + translators/schema.py: Python-ast -> Gallina translation of the library methods and the '
        'reading of docstring schemas (precedence ~ > /\\ > \\/ > -> > <->, variable/parameter binding); validated on every run '
        'by the correspondence check (conclusion, replayed conclusion and rule trace of the real thunks vs the extracted model)',
        'coq/Lib/Extra.v: hand-written statements for the methods whose docstring is not a schema',
        'Instantiate in the library model is the GENERATOR\'s Pattern.instantiate (PTerm/Model.v py_inst, shared with C02/C08); '
        'agreement with the checker\'s Instantiate is a hypothesis (gok / csimple) of C10_replays only; patterns are '
        'notation-expanded (transparency of notation is C12)',
        'module-level pattern constants (named axioms) are read by reflection (import of the current module), symbols are '
        'numbered by Gen/PropLib.index.json `symbols`',
        'PTerm/*.v (C02\'s serialiser model and compile_correct) for C10_replays',
    ], extra=extra)


def replay(path):
    regenerate()
    d = json.load(open(path))
    idx = json.load(open(os.path.join(GEN, 'PropLib.index.json')))
    lib = Lib(idx)
    ok, log, mlref = build_model()
    calls = [c['py'] for c in d['cases']] if 'cases' in d else [d.get('replay', d).get('python_call')]
    rc = 0
    for py in calls:
        if not py:
            print('no concrete input in this replay file:', json.dumps(d.get('replay', d))[:1500])
            continue
        case = dict(py=py, ml=ml_of(py, lib), expect=oracle_of(py, lib))
        prev = d.get('replay', {}).get('preceded_by_on_same_instance') or [] if 'cases' not in d else []
        for q in prev:
            print('first, on the same instance:', json.dumps(q)[:800])
        print('call          :', json.dumps(py)[:1500])
        seq = [dict(py=q, group='replay') for q in prev] + [dict(case, group='replay')]
        out = run_impl(seq, chunks=1)[-1:]
        print('implementation:', out[0])
        mo = C.run_lines(mlref, [case['ml']])[0] if ok else None
        print('model         :', mo)
        print('documented    :', hexp(case['expect']) if case['expect'] else None)
        agree, problem = judge(case, out[0], mo or 'MISSING')
        print('verdict       :', 'VIOLATION ' + problem[0] if problem else ('model/implementation disagree' if not agree else 'ok'))
        if problem or not agree:
            rc = 1
    return rc

"""C17 — Metamath databases survive printing, re-parsing and slicing.

proof stage : coq/Props/C17.v (model coq/MM17/*.v)
tie stage   : extracted model ocaml/mlref_mm17 vs the real lark lexer/parser, Encoder and slicer
              (harness/impl/mm17_runner.py) on benchmark files, generated databases in random layouts,
              malformed token streams and arbitrary ASTs; character-level comparison of the printer
oracles     : idempotence parse(print(parse t)) == parse t on the real code; every real slice is re-parsed
              by the real parser, checked self-contained and verified by the independent Python Metamath
              verifier (harness/mm17_oracle.py); slicer re-run under other PYTHONHASHSEEDs
"""
import glob
import json
import os
import time
from concurrent.futures import ThreadPoolExecutor

import common as C
import mm17_fmt as F
import mm17_gen as G
import mm17_oracle as O

CID = 'C17'
BENCH = os.path.join(C.REPO, 'generation', 'mm-benchmarks')
CORPUS = os.path.join(C.VERIF, 'harness', 'corpus', CID)
MODEL_DEPS = ['MM17/Ast.vo', 'MM17/Print.vo', 'MM17/Parse.vo', 'MM17/Wf.vo', 'MM17/Slice.vo', 'MM17/SliceSpec.vo', 'MM17/Verify.vo',
              'MM17/VerifySpec.vo']


def build_model():
    deps = [d for d in MODEL_DEPS if os.path.exists(os.path.join(C.COQ, d[:-1]))]
    return C.build_mlref('mm17', 'Extract/ExtractMM17.v', 'mm17_model', 'mm17_driver.ml', 'mlref_mm17', deps)


def setup():
    ok, log, _ = build_model()
    if not ok:
        raise RuntimeError(log)


def run_impl(reqs, hashseed='0', chunks=None):
    """run requests through the implementation runner, in parallel chunks"""
    if not reqs:
        return []
    chunks = chunks or min(C.NCPU, max(1, len(reqs) // 8))
    n = (len(reqs) + chunks - 1) // chunks
    parts = [reqs[i:i + n] for i in range(0, len(reqs), n)]

    def one(part):
        out, err = C.run_py('mm17_runner.py', [json.dumps(r) for r in part], hashseed=hashseed)
        res = []
        for i in range(len(part)):
            try:
                res.append(json.loads(out[i]))
            except (IndexError, ValueError):
                res.append({'error': 'runner died', 'trace': err[-500:]})
        return res
    with ThreadPoolExecutor(max_workers=len(parts)) as ex:
        outs = list(ex.map(one, parts))
    return [r for part in outs for r in part]


def run_model(exe, lines):
    if not lines:
        return []
    chunks = min(C.NCPU, max(1, len(lines) // 8))
    n = (len(lines) + chunks - 1) // chunks
    parts = [lines[i:i + n] for i in range(0, len(lines), n)]
    with ThreadPoolExecutor(max_workers=len(parts)) as ex:
        outs = list(ex.map(lambda p: C.run_lines(exe, p), parts))
    res = []
    for p, o in zip(parts, outs):
        res.extend(o + ['<missing>'] * (len(p) - len(o)))
    return res


# ------------------------------------------------------------------------------------------------
def canon_slice(db):
    """canonical form modulo the hash-dependent order of the top-level $d run and inside each $d"""
    ds = sorted(tuple(sorted(s[1])) for s in db if s[0] == 'D')
    out = []
    done = False
    for s in db:
        if s[0] == 'D':
            if not done:
                out.extend(('D', d) for d in ds)
                done = True
        else:
            out.append(s)
    return tuple(out)


def slice_req_line(guards, db, sd, incl, excl):
    f = ['SLICE', guards] + F.db_fields(db) + [str(len(sd))]
    for k, d in sd.items():
        f += [k, str(len(d)), *d]
    f += [str(len(incl)), *incl, str(len(excl)), *excl]
    return ' '.join(f)


def parse_slice_answer(line):
    f = line.split(' ')
    if f[0] == 'ERROR' or f[0] == '<missing>':
        return None
    rd = F.Rd(f)
    crashed = rd.next() == '1'
    n = int(rd.next())
    out = []
    for _ in range(n):
        lab = rd.next()
        out.append((lab, rd.db()))
    return crashed, out


def features_of(db):
    fs = set()

    def go(ss, depth):
        for s in ss:
            fs.add(s[0] + ('@block' if depth else ''))
            if s[0] == 'B':
                if depth:
                    fs.add('nested-block')
                go(s[1], depth + 1)
            if s[0] == 'P' and s[3]:
                fs.add('compressed' if s[3][0] == '(' else 'normal')
            if s[0] in 'EAP':
                for t in s[2]:
                    if t[0] == 'A' and len(t[2]) >= 2:
                        fs.add('multi-arg')
    go(db, 0)
    return fs


def slice_oracles(R, db, res, extra=None):
    """implementation-only oracles on the real slices in `res` (runner answer of op slice) of database `db`:
    re-parse, self-containedness, and the independent verifier (lemma valid in db => valid in its slice)"""
    n = 0
    for s in res['slices']:
        n += 1
        sl = F.parse_db_str(s['ast'])
        lab = s['label']
        replay = dict(db=F.layout(G.db_tokens(db)), lemma=lab, slice=s['printed'], sd=res['sd'])
        if extra:
            replay.update(extra)
        if s['reparse'] != s['ast']:
            R.violation('slice:reparse-differs', 'a printed slice does not re-parse to the slice',
                        dict(replay, reparse=s['reparse'], err=s['reparse_err']))
            continue
        probs = O.self_contained(db, sl, lab)
        for p in probs:
            sig = 'slice:not-self-contained:' + p.split(':')[0]
            R.violation(sig, f'slice for {lab} is not self-contained: {p}', dict(replay, problem=p))
        v_db = O.verify(db, lab)
        if v_db[0]:
            v_sl = O.verify(sl, lab)
            R.hist['slice-oracle:verified'] = R.hist.get('slice-oracle:verified', 0) + 1
            if not v_sl[0]:
                R.violation('slice:proof-no-longer-verifies:' + v_sl[1].split(':')[0].split(' ')[0],
                            f'proof of {lab} verifies in the database but not in its slice: {v_sl[1]}',
                            dict(replay, reason=v_sl[1]))
        else:
            R.hist['slice-oracle:lemma-invalid-in-db'] = R.hist.get('slice-oracle:lemma-invalid-in-db', 0) + 1
    return n


def missing_slice_oracle(R, db, res, extra=None):
    """implementation only: a lemma that was asked for, verifies in the database, has a compressed proof and is
    preceded only by statements of the shapes the slicer supports MUST get a slice (the generator must not raise
    before reaching it)"""
    got = {s['label'] for s in res['slices']}
    for lab in res.get('incl') or []:
        if lab in got or not O.plainly_sliceable(db, lab, res.get('sd')):
            continue
        if not O.verify(db, lab)[0]:
            continue
        replay = dict(db=F.layout(G.db_tokens(db)), lemma=lab, raised=res.get('crash'), slices_produced=sorted(got), sd=res.get('sd'))
        if extra:
            replay.update(extra)
        if res.get('crash'):
            R.violation('slice:raises-on-valid-database',
                        f'slice_database raised {res["crash"]} before producing the slice for {lab} (valid database, compressed proof)', replay)
        else:
            R.violation('slice:missing-for-lemma', f'no slice was produced for the requested lemma {lab}', replay)
        return


def run_impl_isolated(reqs, hashseed='0'):
    """one fresh implementation process per request"""
    def one(req):
        out, err = C.run_py('mm17_runner.py', [json.dumps(req)], hashseed=hashseed)
        try:
            return json.loads(out[0])
        except (IndexError, ValueError):
            return {'error': 'runner died', 'trace': err[-500:]}
    with ThreadPoolExecutor(max_workers=C.NCPU) as ex:
        return list(ex.map(one, reqs))


def rename_db(db, ren):
    """apply a token renaming to every string of a tuple AST"""
    def f(x):
        if isinstance(x, str):
            return ren.get(x, x)
        if isinstance(x, tuple):
            # statement / term tags are single capital letters in position 0 of a tagged tuple
            if x and isinstance(x[0], str) and len(x[0]) == 1 and x[0] in 'CVDFEAPBM':
                return (x[0],) + tuple(f(y) for y in x[1:])
            return tuple(f(y) for y in x)
        return x
    return tuple(f(s) for s in db)


def history_sequences(seed, n):
    """sequences of 2-3 databases that share symbol names in different roles: the variables of the first
    are constants of the second (whose own variables are renamed apart); the third is the first again"""
    seqs = []
    for i in range(n):
        r = C.rng_for(seed, f'{CID}:hist:{i}')
        db1, _ = G.gen_db(r, dict(junk=0.0, normal_proofs=0.0))
        db2, _ = G.gen_db(r, dict(junk=0.0, normal_proofs=0.0))
        v1 = [v for s in db1 if s[0] == 'V' for v in s[1]]
        v2 = [v for s in db2 if s[0] == 'V' for v in s[1]]
        c2 = [c for s in db2 if s[0] == 'C' for c in s[1] if c not in ('(', ')', '|-', '#Pattern', 'wff')
              and not c.startswith('#')]
        ren = {v: 'q' + v for v in v2}
        r.shuffle(c2)
        for c, v in zip(c2[:r.randint(1, 3)], r.sample(v1, min(len(v1), 3))):
            ren[c] = v                      # a variable name of db1 is a constant of db2
        db2r = rename_db(db2, ren)
        dbs = [db1, db2r] + ([db1] if i % 2 else [])
        seqs.append([F.layout(G.db_tokens(d)) for d in dbs])
    return seqs


# ------------------------------------------------------------------------------------------------
def regen_gen():
    """regenerate coq/Gen/MMPrintSlice.v from the CURRENT ast.py / metamath_extract_slice.py (fail closed)"""
    import sys
    sys.path.insert(0, os.path.join(C.VERIF, 'translators'))
    import importlib
    import mm_print_slice
    importlib.reload(mm_print_slice)
    try:
        text = mm_print_slice.generate(C.REPO)
        C.write_if_changed(os.path.join(C.COQ, 'Gen', 'MMPrintSlice.v'), text)
        return True, ''
    except SystemExit as e:
        return False, str(e)
    except Exception as e:  # noqa: BLE001
        return False, f'mm_print_slice: {e!r}'


def run(tier, seed):
    R = C.Report(CID, tier, seed)
    rng = C.rng_for(seed, CID)
    quick = tier == 'quick'
    t0 = time.time()

    # ---- 1. proof stage
    ok_tr, tr_msg = regen_gen()
    P = R.proof_stage()
    if not ok_tr:
        P['ok'] = False
        P['log'] = 'translator failed closed: ' + tr_msg
        P['discharged'] = 0     # the regenerated model could not be produced: nothing is proved about the current source
    proof_broken = not P['ok']
    R.assumptions = P.get('assumptions', [])

    # ---- 2. model executable
    ok, log, exe = build_model()
    mismatches = []       # (what, case-id, detail)
    if not ok:
        mismatches.append(('model-build', '-', log[-1500:]))

    # ---- inputs
    n_gen = 450 if quick else 12000
    n_mal = 450 if quick else 12000
    n_ast = 500 if quick else 15000
    texts = []            # (id, kind, text)
    dbs = []              # (id, db tuple) for slicing
    for path in sorted(glob.glob(os.path.join(CORPUS, '*.mm'))):
        texts.append(('corpus:' + os.path.basename(path), 'corpus', open(path).read()))
    for path in sorted(glob.glob(os.path.join(BENCH, '*.mm'))):
        if quick and os.path.getsize(path) > 60000:
            continue
        texts.append(('bench:' + os.path.basename(path), 'bench', open(path).read()))
    gen_dbs = []
    for i in range(n_gen):
        r = C.rng_for(seed, f'{CID}:gen:{i}')
        db, info = G.gen_db(r, dict(inner_var_block=(i % 9 == 0)))
        gen_dbs.append((f'gen:{i}', db, info))
        toks = G.db_tokens(db)
        texts.append((f'gen:{i}', 'generated', G.random_text(r, toks) if i % 3 else F.layout(toks)))
    for i in range(n_mal):
        r = C.rng_for(seed, f'{CID}:mal:{i}')
        db = gen_dbs[i % len(gen_dbs)][1]
        toks = G.mutate_tokens(r, G.db_tokens(db))
        texts.append((f'mal:{i}', 'malformed', G.random_text(r, toks)))
    asts = []
    for i in range(n_ast):
        r = C.rng_for(seed, f'{CID}:ast:{i}')
        asts.append((f'ast:{i}', G.random_ast(r)))

    # ---- 3. tie A: lexer tokens -> parser; printer; round trip (text inputs)
    impl = run_impl([{'op': 'text', 'text': t} for _, _, t in texts])
    lines, idx = [], []
    for k, ((cid, kind, text), res) in enumerate(zip(texts, impl)):
        if 'error' in res:
            mismatches.append(('runner-error', cid, res))
            continue
        if res['toks'] is None:
            R.case(('lexerr', text), False, f'{kind}:lex-error')
            continue
        lines.append('PARSE ' + ' '.join(res['toks']))
        idx.append((k, 'parse'))
        if res['ast'] is not None:
            lines.append('PRINT ' + res['ast'])
            idx.append((k, 'print'))
            lines.append('WF ' + res['ast'])
            idx.append((k, 'wf'))
    model = run_model(exe, lines) if exe else []
    by_case = {}
    for (k, what), ans in zip(idx, model):
        by_case.setdefault(k, {})[what] = ans
    n_roundtrip = 0
    for k, m in by_case.items():
        cid, kind, text = texts[k]
        res = impl[k]
        want = 'NONE' if res['ast'] is None else 'OK ' + res['ast']
        R.case(('text', tuple(res['toks'])), res['ast'] is not None and len(res['toks']) > 8,
               f'{kind}:{"parsed" if res["ast"] is not None else "rejected:" + str(res["parse_err"])}')
        if m['parse'] != want:
            mismatches.append(('parse', cid, dict(text=text, model=m['parse'][:2000], impl=want[:2000])))
        if res['ast'] is not None:
            n_roundtrip += 1
            mtoks = m['print'].split(' ') if m['print'] else []
            if F.layout(mtoks) != res['printed']:
                mismatches.append(('print-layout', cid, dict(ast=res['ast'][:2000], model_layout=F.layout(mtoks)[:2000],
                                                             impl=res['printed'][:2000])))
            if m['wf'] != '1':
                mismatches.append(('parsed-not-wf', cid, dict(ast=res['ast'][:2000])))
            # oracle on the implementation: idempotence
            if not (res['reparse_eq'] and res['reprint_eq']):
                R.violation('roundtrip:parse-print-parse', 'parse(print(parse(text))) differs from parse(text) on the real code',
                            dict(text=text, first=res['ast'], second=res['reparse'], err=res.get('reparse_err')))
        if len(R.coverage['samples']) < 3 and kind == 'generated':
            R.sample(dict(id=cid, text=text[:400]))

    # ---- 4. tie B: arbitrary ASTs -> Encoder -> parser
    impl_a = run_impl([{'op': 'ast', 'ast': F.db_str(a)} for _, a in asts])
    lines = []
    for cid, a in asts:
        s = F.db_str(a)
        lines += ['PRINT ' + s, 'WF ' + s]
    model = run_model(exe, lines) if exe else []
    second = []
    for k, ((cid, a), res) in enumerate(zip(asts, impl_a)):
        if 'error' in res or 'print_err' in res:
            mismatches.append(('runner-error', cid, res))
            continue
        if not model:
            break
        mtoks = model[2 * k].split(' ') if model[2 * k] else []
        wf = model[2 * k + 1]
        if F.layout(mtoks) != res['printed']:
            mismatches.append(('print-layout', cid, dict(ast=F.db_str(a), model_layout=F.layout(mtoks), impl=res['printed'])))
        if res['toks'] != mtoks:
            mismatches.append(('print-tokens', cid, dict(ast=F.db_str(a), model=mtoks, impl=res['toks'])))
        second.append((k, 'PARSE ' + ' '.join(mtoks), wf))
        R.case(('ast', a), wf == '1' and len(mtoks) > 6, f'ast:{"wf" if wf == "1" else "not-wf"}:'
               f'{"roundtrips" if res["reparse_eq"] else ("reparse-differs" if res["reparse"] else "reparse-rejected")}')
    model2 = run_model(exe, [l for _, l, _ in second]) if exe else []
    for (k, _, wf), ans in zip(second, model2):
        cid, a = asts[k]
        res = impl_a[k]
        want = 'NONE' if res['reparse'] is None else 'OK ' + res['reparse']
        if ans != want:
            mismatches.append(('parse-of-print', cid, dict(ast=F.db_str(a), model=ans, impl=want)))
        if (wf == '1') != bool(res['reparse_eq']):
            # theorem instance (wf -> round trip) and its converse (parsed -> wf) against the real code
            mismatches.append(('wf-vs-roundtrip', cid, dict(ast=F.db_str(a), wf=wf, impl_roundtrip=res['reparse_eq'])))

    # ---- 5. tie C + oracles: slices
    slice_inputs = [(cid, db, info) for cid, db, info in gen_dbs]
    for (cid, kind, text), res in zip(texts, impl):
        if kind in ('bench', 'corpus') and res.get('ast'):
            slice_inputs.append((cid, F.parse_db_str(res['ast']), dict(features=set())))
    reqs = []
    for j, (cid, db, info) in enumerate(slice_inputs):
        r = C.rng_for(seed, f'{CID}:slice:{j}')
        req = {'op': 'slice', 'ast': F.db_str(db)}
        if j % 5 == 3:          # arbitrary syntax_deps map over existing labels
            labs = [s[1] for s in db if s[0] in 'AFP'] + [s[1][-1][1] for s in db if s[0] == 'B' and s[1] and s[1][-1][0] in 'AP']
            if labs:
                req['sd'] = {r.choice(labs): [r.choice(labs) for _ in range(r.randint(0, 2))] for _ in range(3)}
        if j % 7 == 5:
            pl = O.provable_labels(db)
            if pl:
                req['incl'] = [r.choice(pl)]
        reqs.append(req)
    seeds = ['0', '1', '2', '3']
    impl_s = {hs: run_impl(reqs if hs == '0' else reqs[:len(reqs) if not quick else 200], hashseed=hs) for hs in seeds}
    lines = []
    for (cid, db, info), res in zip(slice_inputs, impl_s['0']):
        if 'error' in res:
            mismatches.append(('runner-error', cid, res))
            lines.append('WF 0')
            continue
        lines.append(slice_req_line('fixed', db, res['sd'], res['incl'], []))
    model = run_model(exe, lines) if exe else []
    n_slices = 0
    order_dependent = 0
    for j, ((cid, db, info), res) in enumerate(zip(slice_inputs, impl_s['0'])):
        if 'error' in res:
            continue
        fs = features_of(db) | set(info.get('features', ()))
        real = [(s['label'], F.parse_db_str(s['ast'])) for s in res['slices']]
        R.case(('slice', db), len(real) > 0, f'slice-db:{"crash:" + res["crash"] if res["crash"] else "complete"}:{len(real)}-slices')
        for f in fs:
            R.hist['feature:' + f] = R.hist.get('feature:' + f, 0) + 1
        if model:
            ans = parse_slice_answer(model[j])
            if ans is None:
                mismatches.append(('slice-model-error', cid, dict(db=F.db_str(db), model=model[j][:500])))
            else:
                mcr, msl = ans
                a = [(l, s) for l, s in real]
                b = [(l, s) for l, s in msl]
                if a != b or mcr != (res['crash'] is not None):
                    first = next((i for i, (x, y) in enumerate(zip(a, b)) if x != y), min(len(a), len(b)))
                    mismatches.append(('slice', cid, dict(
                        db=F.layout(G.db_tokens(db)), sd=res['sd'], incl=res['incl'], impl_crash=res['crash'], model_crash=mcr,
                        impl_labels=[l for l, _ in a], model_labels=[l for l, _ in b], first_diff=first,
                        impl_slice=F.layout(G.db_tokens(a[first][1])) if first < len(a) else None,
                        model_slice=F.layout(G.db_tokens(b[first][1])) if first < len(b) else None)))
        # oracles on the real slices (implementation only; independent of the model comparison above)
        n_slices += slice_oracles(R, db, res)
        missing_slice_oracle(R, db, res)
        # other hash seeds: same slices modulo the $d order
        for hs in seeds[1:]:
            if j >= len(impl_s[hs]):
                continue
            other = impl_s[hs][j]
            if 'error' in other:
                mismatches.append(('runner-error', cid, other))
                continue
            if [s['ast'] for s in res['slices']] == [s['ast'] for s in other['slices']] and other['crash'] == res['crash']:
                continue
            a = [(s['label'], canon_slice(F.parse_db_str(s['ast']))) for s in res['slices']]
            b = [(s['label'], canon_slice(F.parse_db_str(s['ast']))) for s in other['slices']]
            if a != b or other['crash'] != res['crash']:
                R.violation('slice:hash-seed-dependent-content', f'slices differ (beyond $d order) between PYTHONHASHSEED=0 and {hs}',
                            dict(db=F.layout(G.db_tokens(db)), seed=hs))
            else:
                order_dependent += 1
    R.hist['slices-checked'] = n_slices
    R.hist['slice-dbs-with-hash-dependent-$d-order(note for C18)'] = order_dependent

    # ---- 5a. history dependence: several databases parsed in ONE implementation process; each parse must equal
    #          the parse of the same text in a fresh process, and the round-trip / slice oracles must hold on it
    seqs = history_sequences(seed, 30 if quick else 400)
    seq_res = run_impl([{'op': 'seq', 'texts': t} for t in seqs])
    iso_reqs, iso_idx = [], []
    for i, (texts, res) in enumerate(zip(seqs, seq_res)):
        if 'error' in res:
            mismatches.append(('runner-error', f'hist:{i}', res))
            continue
        for k in range(1, len(texts)):
            iso_reqs.append({'op': 'text', 'text': texts[k]})
            iso_idx.append((i, k, 'same-text'))
            if res['seq'][k].get('printed') is not None:
                iso_reqs.append({'op': 'text', 'text': res['seq'][k]['printed']})
                iso_idx.append((i, k, 'printed'))
    iso = run_impl_isolated(iso_reqs)
    for (i, k, what), fresh in zip(iso_idx, iso):
        item = seq_res[i]['seq'][k]
        if 'error' in fresh:
            mismatches.append(('runner-error', f'hist:{i}:{k}', fresh))
            continue
        hist_replay = dict(sequence=seqs[i][:k + 1], index=k, in_sequence=item.get('ast'), fresh_process=fresh.get('ast'))
        R.case(('hist', i, k, what), True, f'history:{what}:{"same" if fresh.get("ast") == item.get("ast") else "DIFFERENT"}')
        if what == 'same-text':
            if fresh.get('ast') != item.get('ast') or fresh.get('parse_err') != item.get('parse_err'):
                R.violation('parse:depends-on-earlier-parses',
                            f'parse_database(text) after {k} earlier parse(s) in the same process differs from its parse in a fresh process',
                            hist_replay)
        else:
            if fresh.get('ast') != item.get('ast'):
                R.violation('roundtrip:parse-print-parse',
                            'printing a parsed database and parsing the text again (fresh process) gives a different database',
                            dict(hist_replay, printed=item.get('printed')))
    for i, res in enumerate(seq_res):
        if 'error' in res:
            continue
        for k, item in enumerate(res['seq']):
            sres = item.get('slice')
            if sres and 'slices' in sres and item.get('ast'):
                n_slices += slice_oracles(R, F.parse_db_str(item['ast']), sres,
                                          extra=dict(parsed_after=seqs[i][:k], note='database = AST parsed after the earlier texts in one process'))
                missing_slice_oracle(R, F.parse_db_str(item['ast']), sres, extra=dict(parsed_after=seqs[i][:k]))
    R.hist['slices-checked'] = n_slices

    # ---- 5b. tie D: reference verifier model (Verify.v) vs the harness' Python verifier; model predicates on real slices
    vlines, vexp, vid = [], [], []

    def mutate_proof(r, db):
        """database with one $p proof or statement perturbed (mostly invalid proofs)"""
        pl = O.provable_labels(db)
        if not pl:
            return None
        tgt = r.choice(pl)

        def mut(s):
            if s[0] == 'B':
                return ('B', tuple(mut(x) for x in s[1]))
            if s[0] == 'P' and s[1] == tgt and s[3]:
                pf = list(s[3])
                m = r.random()
                if m < 0.35 and pf[0] == '(' and len(pf) > pf.index(')') + 1:
                    k = r.randrange(pf.index(')') + 1, len(pf))
                    w = list(pf[k])
                    w[r.randrange(len(w))] = r.choice('ABCDEFGHUVZ')
                    pf[k] = ''.join(w)
                elif m < 0.55 and len(pf) > 2:
                    i, j = r.randrange(len(pf)), r.randrange(len(pf))
                    pf[i], pf[j] = pf[j], pf[i]
                elif m < 0.7 and len(pf) > 1:
                    del pf[r.randrange(len(pf))]
                elif m < 0.85:
                    return ('P', s[1], (s[2][0], ('A', '\\imp', (s[2][1], s[2][1]))), s[3])
                else:
                    pf.insert(r.randrange(len(pf) + 1), r.choice(['?', 'nolabel', 'A', 'Z', '(' , ')']))
                return ('P', s[1], s[2], tuple(pf))
            return s
        return tuple(mut(x) for x in db), tgt

    for j, (cid, db, info) in enumerate(gen_dbs):
        for lab in O.provable_labels(db):
            vlines.append('VERIFY ' + F.db_str(db) + ' ' + lab)
            vexp.append(O.verify(db, lab))
            vid.append((cid, lab, 'original'))
        r = C.rng_for(seed, f'{CID}:vmut:{j}')
        for _ in range(2):
            mres = mutate_proof(r, db)
            if mres:
                vlines.append('VERIFY ' + F.db_str(mres[0]) + ' ' + mres[1])
                vexp.append(O.verify(mres[0], mres[1]))
                vid.append((cid, mres[1], 'mutated'))
    for j, ((cid, db, info), res) in enumerate(zip(slice_inputs, impl_s['0'])):
        if 'error' in res:
            continue
        for s in res['slices']:
            sl = F.parse_db_str(s['ast'])
            vlines.append('VERIFY ' + s['ast'] + ' ' + s['label'])
            vexp.append(O.verify(sl, s['label']))
            vid.append((cid, s['label'], 'slice'))
            vlines.append('DECL ' + s['ast'])
            vexp.append((True, 'declares_all'))
            vid.append((cid, s['label'], 'slice-declares_all'))
            if O.verify(db, s['label'])[0]:
                # premise of C17_slice_proof_verifies_partial, decided by the extracted model
                vlines.append('AGREE ' + F.db_str(db) + ' ' + s['ast'] + ' ' + s['label'])
                vexp.append((True, 'scope_agree'))
                vid.append((cid, s['label'], 'slice-scope_agree'))
                # how often the decidable side conditions of C17_slice_proof_verifies hold on the tested inputs
                vlines.append('HYPS3 ' + F.db_str(db) + ' ' + s['label'])
                vexp.append(None)
                vid.append((cid, s['label'], 'hyps3'))
    vout = run_model(exe, vlines) if exe else []
    for (cid, lab, what), ans, exp in zip(vid, vout, vexp):
        if what == 'hyps3':
            R.hist['C17_slice_proof_verifies side conditions (sym_disjoint compressed): ' + ans] = \
                R.hist.get('C17_slice_proof_verifies side conditions (sym_disjoint compressed): ' + ans, 0) + 1
            continue
        R.case(('verify', cid, lab, what), True, f'verify:{what}:{"valid" if exp[0] else "invalid"}')
        if (ans == '1') != exp[0]:
            mismatches.append(('verify' if not what.startswith('slice-') else what, f'{cid}:{lab}:{what}',
                               dict(model=ans, oracle=exp)))

    # ---- 6. verdict
    if mismatches:
        R.notes.append({'mismatches': len(mismatches), 'first': [(w, c) for w, c, _ in mismatches[:10]]})
    if proof_broken and not R.violations:
        R.violation('proof-broken', 'Coq proof stage failed',
                    {'no_failing_input_found': True, 'theorem_or_correspondence': f'Props/{CID}.v', 'log': P['log'][-3000:]})
    if mismatches and not R.violations:
        kinds = sorted(set(w for w, _, _ in mismatches))
        R.violation('correspondence-broken', 'model and implementation disagree: ' + ','.join(kinds),
                    {'no_failing_input_found': True, 'theorem_or_correspondence': 'correspondence ' + ','.join(kinds),
                     'first_mismatches': [dict(what=w, case=c, detail=d) for w, c, d in mismatches[:5]]})
    elif mismatches:
        R.notes.append({'first_mismatch_detail': [dict(what=w, case=c, detail=d) for w, c, d in mismatches[:3]]})

    R.coverage['rule'] = ('cases = benchmark files, generated valid databases (random derivations; nested blocks, $d, $e, '
                          'compressed/normal proofs, inner-block variables, non-builtin typecodes, top-level $e) in random '
                          'layouts with comments, token-mutated streams, arbitrary ASTs; distinct = distinct token list / AST; '
                          'non-trivial = parsed with > 8 tokens, wf AST with > 6 tokens, database with >= 1 slice')
    return R.finish(level='proof', trusted_base=C.TRUSTED_COMMON + [
        'translators/mm_print_slice.py (fail-closed Python-ast translator: Encoder postvisit_* methods, get_metavariables methods, '
        'construct_axiom, deconstruct_provable, supporting_database_for_provable, slice_database -> coq/Gen/MMPrintSlice.v) and the '
        'library coq/MM17/GenLib.v it targets (norm = lexer view of the write calls; sets as lists; exceptions as None; primitives '
        'statements_get_constants/get_constants, deconstruct_compressed_proof, match_axiom tied differentially only)',
        'lark lexer/LALR driver not modelled: the model starts at the token list produced by the real lexer; grammar modelled by '
        'recursive descent and validated by correspondence',
        'harness/mm17_fmt.layout (Encoder blank/newline/indent layout as a function of the token list), compared character-wise',
        'AST strings are token texts; tokens other than "(" and ")" are assumed not to contain parenthesis characters '
        '(deconstruct_compressed_proof uses str.find on the proof string)',
        'slice $d emission order (set of frozensets) abstracted: theorems quantify over reorderings, tie compares modulo order',
        'syntax_dependencies() is not modelled: the slicer model takes syntax_deps as an arbitrary parameter',
    ], extra={'wall_stage_s': round(time.time() - t0, 1)})


def replay(path):
    d = json.load(open(path))
    print(json.dumps(d, indent=1)[:6000])
    rp = d.get('replay', {})
    if rp.get('sequence'):
        seq = run_impl([{'op': 'seq', 'texts': rp['sequence']}], chunks=1)[0]
        fresh = run_impl_isolated([{'op': 'text', 'text': rp['sequence'][-1]}])[0]
        a, b = seq['seq'][-1].get('ast'), fresh.get('ast')
        print('--- implementation now: last text parsed after the earlier ones:', a)
        print('--- implementation now: last text parsed in a fresh process  :', b)
        print('--- same' if a == b else '--- DIFFERENT')
        return 0 if a == b else 1
    text = rp.get('db') or rp.get('text')
    if text:
        out = run_impl([{'op': 'slice', 'text': text}], chunks=1)[0]
        print('--- implementation now:')
        print(json.dumps({k: v for k, v in out.items() if k != 'ast'}, indent=1)[:6000])
    return 0

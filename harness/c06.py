"""C06 — freshness and positivity judgements are sound for every instantiation.

proof : coq/Props/C06.v
tie   : the four Rust judgement functions + well_formed + instantiate (scratch build of the current lib.rs)
        vs the extracted coq/ML model; Python `evar_is_free` vs model through harness/pypat.py when present
oracle: instantiate with constraint-respecting concrete plugs ON THE RUST SIDE and compute free variables /
        occurrence polarities of the result with textbook functions
"""
import json

import common as C
import mlgen as G
import mloracle as O
import mltie as T

CID = 'C06'


def regen():
    ok, msg = T.regen_gen()
    # the Python side's generated file too (Props/C06.v imports it): regenerate BEFORE the proof stage so that a copy left behind by a run on
    # another tree is never what gets compiled; a failing translator is reported by pypat.py_side (source-proof-broken)
    try:
        import pyside
        pyside.regen_pypattern()
    except Exception:  # noqa: BLE001
        pass
    return ok, msg


def setup():
    regen()


def run(tier, seed):
    R = C.Report(CID, tier, seed)
    rng = C.rng_for(seed, CID)
    quick = tier == 'quick'
    ok_tr, tr_msg = regen()
    P = R.proof_stage()
    if not ok_tr:
        P['ok'] = False
        P['log'] = 'translator failed closed: ' + tr_msg
        P['discharged'] = 0     # the regenerated model could not be produced: nothing is proved about the current source
    tie = T.Tie(R)
    if not tie.ready:
        R.violation('tie-build-failed', 'could not build model or Rust harness',
                    {'no_failing_input_found': True, 'theorem_or_correspondence': 'build', 'model_log': tie.model_log, 'rust_log': tie.rust_log})
        return R.finish(trusted_base=C.TRUSTED_COMMON)
    n = 24000 if quick else 1500000
    lines, labels, meta = [], [], []
    pats = []
    for i in range(n):
        k = rng.random()
        if k < 0.6:
            p = G.gen_pat(rng, rng.choice([1, 2, 3, 4]), names=rng.choice([2, 3, 4]))
            lab = 'wf-biased'
        else:
            p = G.gen_pat_raw(rng, rng.choice([1, 2, 3]), names=3)
            lab = 'raw'
        if k > 0.9:
            # pending substitutions over constrained metavariables whose plug mentions the queried variable
            X = rng.randrange(3)
            Y = rng.randrange(3)

            def lst():
                return tuple(sorted(set(rng.choice([X, Y, rng.randrange(3)]) for _ in range(rng.randrange(0, 3)))))
            mv = ('MVar', rng.randrange(3), lst() if rng.random() < 0.3 else (), lst() if rng.random() < 0.4 else (), lst(), lst(), ())
            plug = rng.choice([('SVar', X), ('Imp', ('SVar', X), G.BOT), ('App', ('SVar', X), ('Sym', 0)), ('EVar', X),
                               ('SSub', G.phi(3), Y, ('SVar', X)), ('ESub', G.phi(3), Y, ('SVar', X))])
            p = (rng.choice(['SSub', 'ESub']), mv, Y, plug)
            if rng.random() < 0.5:
                p = (rng.choice(['SSub', 'ESub']), G.phi(4), rng.randrange(3), p) if rng.random() < 0.5 else ('Imp', p, G.BOT)
            lab = 'directed-subst'
            x = X
        else:
            x = rng.randrange(5)
        pats.append((p, x))
        lines.append(f'F {G.phex(p)} {x}')
        labels.append('judge:' + lab)
        if i % 4 == 0:
            lines.append(f'W {G.phex(p)}')
            labels.append('wf:' + lab)
    # instantiation requests: all metavariables of p, concrete plugs, mostly avoiding constrained names
    inst_cases = []
    for p, x in pats[: n // 2]:
        ids = sorted(O.mvar_ids(p))
        if not ids:
            continue
        far = rng.random() < 0.5
        directed = (not far) and rng.random() < 0.6
        targets = subst_targets(p)
        plugs = []
        for _ in ids:
            if directed and targets:
                # a plug that uses a substituted variable of p in a chosen polarity: this is what resolves a pending
                # substitution into a position that the judgement must have anticipated
                kind, v = rng.choice(targets)
                base = ('EVar', v) if kind == 'e' else ('SVar', v)
                q = rng.choice([base, ('Imp', base, G.BOT), ('Imp', ('Imp', base, G.BOT), G.BOT), ('App', base, ('Sym', 0)),
                                ('Imp', ('Sym', 1), base), ('Imp', base, base)])
            else:
                q = G.gen_pat(rng, rng.choice([0, 1, 2]), names=3, meta=False, subst=False)
                if far:
                    q = rename(q, 5)
            plugs.append(q)
        ln = f'I {G.phex(p)} {G.hexs(ids)} ' + ' '.join(G.phex(q) for q in plugs)
        inst_cases.append((p, x, ln))
        lines.append(ln)
        labels.append('inst')
        for y in range(5):
            fl = f'F {G.phex(p)} {y}'
            if y != x:
                lines.append(fl)
                labels.append('judge:inst')
    m, r = tie.compare(lines, labels)
    by_line = dict(zip(lines, r))
    bad = []
    hist_j = {}
    for ln, lab, ro in zip(lines, labels, r):
        R.case(ln, nontrivial=(ro not in ('REJECT',)), kind=lab)
    for p, x, ln in inst_cases:
        ro = by_line[ln]
        if ro == 'REJECT':
            R.hist['inst:rejected(constraints/capture)'] = R.hist.get('inst:rejected(constraints/capture)', 0) + 1
            continue
        q = G.dec(G.unhex(ro))
        if not O.concrete(q):
            R.hist['inst:non-concrete-result'] = R.hist.get('inst:non-concrete-result', 0) + 1
            continue
        R.hist['inst:concrete-result'] = R.hist.get('inst:concrete-result', 0) + 1
        for y in range(5):
            j = by_line.get(f'F {G.phex(p)} {y}')
            if j is None:
                continue
            if len(j) != 4:
                continue
            ef, sf, pos, neg = (c == '1' for c in j)
            occ = O.occ_s(q)
            fails = []
            if ef and y in O.fv_e(q):
                fails.append('e_fresh')
            if sf and y in O.fv_s(q):
                fails.append('s_fresh')
            if pos and (y, False) in occ:
                fails.append('positive')
            if neg and (y, True) in occ:
                fails.append('negative')
            for f in fails:
                hist_j[f] = hist_j.get(f, 0) + 1
                bad.append((f, p, y, ln, q))
    for f, p, y, ln, q in bad[:4]:
        R.violation('rust-judgement-unsound:' + f,
                    f'lib.rs judges {f}({G.show(p)}, {y}) = true but the concrete instance {G.show(q)} violates it',
                    {'judgement': f, 'pattern': G.show(p), 'pattern_hex': G.phex(p), 'variable': y, 'instantiate_request': ln, 'instance': G.show(q)})
    for c in (lines[0], lines[1], inst_cases[0][2] if inst_cases else lines[2]):
        R.sample({'request': c})

    py = None
    try:
        import pypat
        py = pypat.py_side(R, CID, tier, seed)
    except ImportError:
        R.notes.append('harness/pypat.py not present: generator-side part of C06 not run in this check')
    except Exception as e:  # noqa: BLE001
        R.violation('py-side-crashed', f'generator-side check crashed: {e!r}', {'no_failing_input_found': True, 'theorem_or_correspondence': 'harness/pypat.py'})

    if tie.mismatches and not R.violations:
        R.violation('correspondence-broken', 'Rust judgements/instantiate and coq/ML model disagree; no unsound judgement found',
                    {'no_failing_input_found': True, 'theorem_or_correspondence': 'correspondence lib.rs e_fresh/s_fresh/positive/negative/well_formed/instantiate <-> coq/ML/Syntax.v, Subst.v',
                     'implementation_behaves_like_model_without_guard': tie.diagnose(),
                     'first_mismatches': [dict(request=a, model=b, rust=c, label=d) for a, b, c, d in tie.mismatches[:5]]})
    if not P['ok'] and not R.violations:
        R.violation('proof-broken', 'Coq proof stage failed', {'no_failing_input_found': True, 'theorem_or_correspondence': 'Props/C06.v', 'log': P['log']})
    R.coverage['rule'] = ('meta-patterns: well-formedness-biased generator (nested binders, constrained metavariables, stacked ESubst/SSubst) and raw '
                          'generator (any constructor anywhere); each judged for one of 5 variables by the four Rust functions and by the model; '
                          'instantiated on the Rust side with concrete plugs for all its metavariables; non-trivial = not rejected; distinct by request')
    return R.finish(trusted_base=C.TRUSTED_COMMON + ['translators/rust_judge.py (Rust-subset parser/emitter for the six judgement functions of impl Pattern; fail closed)', 'harness/rust/harness.rs entry points F/W/I calling the private lib.rs functions',
                                                    'harness/mloracle.py textbook free-variable/polarity functions (search only)'])


def subst_targets(p, acc=None):
    """variables that pending substitutions of p substitute: [('e', x), ('s', X), ...]"""
    acc = [] if acc is None else acc
    if p[0] == 'ESub':
        acc.append(('e', p[2]))
    elif p[0] == 'SSub':
        acc.append(('s', p[2]))
    for q in p[1:]:
        if isinstance(q, tuple) and q and isinstance(q[0], str):
            subst_targets(q, acc)
    return acc


def rename(p, off):
    t = p[0]
    if t in ('EVar', 'SVar'):
        return (t, p[1] + off)
    if t == 'Sym':
        return p
    if t in ('Imp', 'App'):
        return (t, rename(p[1], off), rename(p[2], off))
    if t in ('Ex', 'Mu'):
        return (t, p[1] + off, rename(p[2], off))
    return p


def replay(path):
    d = json.load(open(path))
    print(json.dumps(d, indent=1)[:3000])
    return 0

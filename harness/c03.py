"""C03 -- Published theory and claims are exactly what was declared.

proof stage : coq/Props/C03.v (gamma_exact / claims_exact: the checker's publish journal of the emitted
              gamma / claim file = the declared axioms (import-tree walk) / claims, with and without the
              memoiser, for ANY memoisation set; opt_irrelevant; symtab_injective / stable / bounded;
              refuse_over_255)
tie stage   : generated modules (ProofExp objects built dynamically: 0..300 symbols, import DAGs with
              diamonds and repeated imports, duplicate axioms, axioms equal only modulo notation,
              add_axioms de-duplication) serialised by the REAL ProofExp.serialize with optimize off and
              on; gamma and claim files and symbol table compared byte for byte with the model
              [mod_files] (fed the memoisation set the real CountingInterpreter chose)
oracle      : implementation only: the Rust checker's memory / claim queue after the emitted files vs
              the declaration (harness-side import-tree walk + expansion, renamed by the real symbol
              table); optimize on/off decode to the same theory; `verify` accepts; a module needing more
              than 256 symbols is refused
"""
from __future__ import annotations

import glob
import json
import os
import re

import common as C
import interp_common as IC
import interp_gen as G

CID = 'C03'
CORPUS = os.path.join(C.VERIF, 'harness', 'corpus', CID)

RULE = ('a case is one generated module tree serialised with optimize off and on; distinct = distinct module '
        'specification; non-trivial = at least one axiom or claim is published and the real serialiser accepts '
        'the module (or refuses it for needing a 257th symbol)')


def pats_txt(l):
    return ';'.join(G.show(p) for p in l) if l else '-'


def gen_spec(rng):
    """-> (list of module spec strings, info dict)"""
    big = rng.random() < 0.12
    cfg = G.Cfg(max_id=rng.choice([3, 4]), syms=rng.choice([3, 6, 12]), big_ids=False,
                constrained=rng.choice([0, 0.1, 0.3]), subst=rng.choice([0, 0.05, 0.15]), binders=0.2,
                safe=rng.random() < 0.9)
    notation = rng.choice([0, 0.3, 0.6])
    n_mods = rng.choice([1, 1, 2, 3, 4, 5])
    specs = []
    info = dict(big=big, n_mods=n_mods, diamond=False, dup=False, notdup=False, added_dup=False)
    mods_axioms = []
    for i in range(n_mods):
        root = i == n_mods - 1
        ctor = []
        for _ in range(rng.choice([0, 1, 1, 2, 3, 4])):
            a = G.gen_pat(rng, rng.choice([0, 1, 2, 2]), cfg)
            ctor.append(G.maybe_notate(rng, a, notation))
        if ctor and rng.random() < 0.2:
            ctor.append(rng.choice(ctor))                       # the very same axiom twice
            info['dup'] = True
        if ctor and rng.random() < 0.25:
            a = rng.choice(ctor)
            ctor.append(G.notate(rng, G.expand(a)))             # equal only modulo notation
            info['notdup'] = True
        if root and rng.random() < 0.05:
            # a variable / metavariable id that does not fit a byte: the module must be refused
            ctor.append(rng.choice([('e', 256), ('s', 300), G.mv(1000), ('x', 256, ('y', 1))]))
            info['big_id'] = True
        if root and big:
            k = rng.choice([200, 250, 254, 255, 256, 257, 258, 300])
            ctor += [('y', 1000 + j) for j in range(k)]
            info['big_k'] = k
        added = []
        for _ in range(rng.choice([0, 0, 1, 2])):
            if ctor and rng.random() < 0.5:
                a = rng.choice(ctor)
                added.append(G.notate(rng, G.expand(a)) if rng.random() < 0.5 else a)
                info['added_dup'] = True
            else:
                added.append(G.maybe_notate(rng, G.gen_pat(rng, rng.choice([0, 1, 2]), cfg), notation))
        subs = []
        if i > 0:
            for _ in range(rng.choice([0, 1, 1, 2, 3])):
                subs.append(rng.randrange(i))
        claims, proofs = [], []
        if root:
            for _ in range(rng.choice([0, 1, 2, 3])):
                if ctor and rng.random() < 0.8:
                    k = rng.randrange(len(ctor))
                    q = G.gen_pat(rng, rng.choice([0, 1]), cfg)
                    c = ('i', q, G.expand(ctor[k]))
                    if c in [G.expand(x) for x in claims]:
                        continue
                    claims.append(G.maybe_notate(rng, c, notation) if not G.has_subst(c) else c)
                    proofs.append(f'm/{k}/{G.show(q)}')
                else:
                    name, ax = rng.choice([('p1', G.PROP1), ('p2', G.PROP2), ('p3', G.PROP3), ('qu', G.QUANT)])
                    if ax in [G.expand(x) for x in claims]:
                        continue
                    claims.append(ax)
                    proofs.append(name)
        if root and proofs:
            r = rng.random()
            if r < 0.25:
                # MORE declared claims than proof expressions (the surplus must still be published;
                # `verify` must then reject: claims left unproved)
                proofs = proofs[:rng.randrange(1, len(proofs))] if len(proofs) > 1 else proofs
                extra = G.gen_pat(rng, 1, cfg)
                if G.expand(extra) not in [G.expand(x) for x in claims]:
                    claims.append(extra)
                info['more_claims'] = len(claims) - len(proofs)
            elif r < 0.32:
                proofs.append(rng.choice(['p1', 'p2', 'p3']))     # FEWER claims than proofs
                info['fewer_claims'] = True
        # a library that is extended, or imports another module, AFTER it has been imported by the others
        late_ax, late_subs = [], []
        if not root and rng.random() < 0.3:
            late_ax = [G.maybe_notate(rng, G.gen_pat(rng, rng.choice([0, 1, 2]), cfg), notation) for _ in range(rng.choice([1, 1, 2]))]
            info['late_axiom'] = True
        if not root and i > 0 and rng.random() < 0.25:
            late_subs = [rng.randrange(i) for _ in range(rng.choice([1, 1, 2]))]
            info['late_import'] = True
        specs.append('|'.join([pats_txt(ctor), pats_txt(added), pats_txt(claims),
                               ','.join(str(s) for s in subs) or '-', ';'.join(proofs) or '-',
                               pats_txt(late_ax), ','.join(str(s) for s in late_subs) or '-']))
        mods_axioms.append(subs)
    # a diamond: some module reachable along two import paths
    def reach(i, acc):
        for s in mods_axioms[i]:
            acc.append(s)
            reach(s, acc)
        return acc
    r = reach(n_mods - 1, [])
    info['diamond'] = len(r) != len(set(r))
    return specs, info


RES = re.compile(r'^RES E\[(.*?)\] O0\[(.*?)\] O1\[(.*?)\] SEL\[(.*?)\]$')
OKF = re.compile(r'^OK tbl\[(.*?)\] G\[(.*?)\] C\[(.*?)\] P\[(.*?)\]$')
MOK = re.compile(r'^OK tbl\[(.*?)\] G\[(.*?)\] C\[(.*?)\] J\[(.*?)\] D\[(.*?)\] w=(\d+) AX\[(.*?)\]$')


def parse_eff(eff):
    """effective modules -> list of (axioms, claims, subs) with pattern tuples"""
    mods = []
    for ms in eff.split(' '):
        ax, cl, subs = ms.split('|')
        mods.append(([G.dec(x) for x in ax.split(';')] if ax != '-' else [],
                     [G.dec(x) for x in cl.split(';')] if cl != '-' else [],
                     [int(x) for x in subs.split(',')] if subs != '-' else []))
    return mods


def flat_axioms(mods, i):
    out = []
    for s in mods[i][2]:
        out += flat_axioms(mods, s)
    return out + mods[i][0]


def run(tier, seed):
    R = C.Report(CID, tier, seed)
    rng = C.rng_for(seed, CID)
    n = 500 if tier == 'quick' else 12000

    P = IC.proof_stage_with_translation(R)
    proof_broken = not P['ok']
    if proof_broken:
        R.notes.append('proof stage: ' + P['log'][-1500:])

    ok, log, exe = IC.build_model()
    rs, rerr = IC.build_rust()
    mismatches, oracle_fail = [], []
    if not ok:
        mismatches.append(('build-model', log[-800:], ''))
        exe = None
    if rs is None:
        mismatches.append(('build-rust', rerr[-800:], ''))

    cases = []
    for path in sorted(glob.glob(os.path.join(CORPUS, '*.json'))):
        w = json.load(open(path))
        cases.append((w['specs'], dict(w.get('info', {}), corpus=os.path.basename(path))))
    for _ in range(n):
        cases.append(gen_spec(rng))
    lines = ['MOD ' + ' '.join(s) for s, _ in cases]
    impl = IC.run_impl(lines)
    # a refusal may come from the PROOF phase (a 257th symbol or memory slot first needed there), which
    # mod_files does not model: such modules are re-run with their proofs stripped (the gamma and claim
    # files do not depend on the proofs) and both results are kept
    redo = []
    for ci, (ans, (specs, info)) in enumerate(zip(impl, cases)):
        m = RES.match(ans)
        if m and 'REFUSED ValueError' in (m.group(2) + m.group(3)) and specs[-1].split('|')[4] != '-':
            redo.append(ci)
    if redo:
        stripped = []
        for ci in redo:
            specs = list(cases[ci][0])
            f_ = specs[-1].split('|')
            specs[-1] = '|'.join(f_[:4] + ['-'] + f_[5:])
            stripped.append(specs)
        again = IC.run_impl(['MOD ' + ' '.join(s) for s in stripped])
        for ci, specs, ans in zip(redo, stripped, again):
            m0, m1 = RES.match(impl[ci]), RES.match(ans)
            if m1 and 'REFUSED' not in (m1.group(2) + m1.group(3)):
                info = dict(cases[ci][1], proofs_stripped=True, refused_in_proof_phase=m0.group(2)[:40])
                cases[ci] = (specs, info)
                lines[ci] = 'MOD ' + ' '.join(specs)
                impl[ci] = ans

    mlines, mmeta, rlines, rmeta = [], [], [], []
    parsed = []
    for ci, ((specs, info), line, ans) in enumerate(zip(cases, lines, impl)):
        m = RES.match(ans)
        if not m:
            mismatches.append(('runner', line[:300], ans[:400]))
            parsed.append(None)
            continue
        eff, o0, o1, sel = m.groups()
        parsed.append((eff, o0, o1, sel))
        mlines.append(f'MOD 0 - {eff}')
        mmeta.append((ci, 0))
        mlines.append(f'MOD 1 {sel} {eff}')
        mmeta.append((ci, 1))
        for opt, o in ((0, o0), (1, o1)):
            f = OKF.match(o)
            if f:
                rlines.append(f'X G {f.group(2)} - -')
                rmeta.append((ci, opt, 'G'))
                rlines.append(f'X C {f.group(2)} {f.group(3)} -')
                rmeta.append((ci, opt, 'C'))
                rlines.append(f'V {f.group(2)} {f.group(3)} {f.group(4)}')
                rmeta.append((ci, opt, 'V'))
    model = dict(zip(mmeta, IC.run_model(exe, mlines))) if exe else {}
    rust = dict(zip(rmeta, C.run_lines_parallel(rs, rlines))) if rs else {}

    for ci, ((specs, info), line) in enumerate(zip(cases, lines)):
        if parsed[ci] is None:
            continue
        eff, o0, o1, sel = parsed[ci]
        mods = parse_eff(eff)
        decl_ax = [G.expand(a) for a in flat_axioms(mods, len(mods) - 1)]
        decl_cl = [G.expand(c) for c in mods[-1][1]]
        nsym = len({p[1] for a in decl_ax + decl_cl for _, p in G.subterms(a) if p[0] == 'y'})
        decoded = {}
        kinds = []
        for opt, o in ((0, o0), (1, o1)):
            ma = model.get((ci, opt), '<nomodel>')
            f = OKF.match(o)
            mm = MOK.match(ma)
            tag = f'opt{opt}'
            # ---- tie: model vs real serialiser
            tie_ok = True
            if f and mm:
                if (f.group(1), f.group(2), f.group(3)) != (mm.group(1), mm.group(2), mm.group(3)):
                    mismatches.append((f'files-{tag}', line[:400], f'impl={o[:300]} model={ma[:300]}'))
                    kinds.append('MISMATCH')
                    tie_ok = False
            elif (f is None) != (mm is None):
                mismatches.append((f'accept-{tag}', line[:400], f'impl={o[:200]} model={ma[:200]}'))
                kinds.append('MISMATCH')
                tie_ok = False
            if o.startswith('BROKEN-TABLE'):
                oracle_fail.append(('symbol-table-not-injective', 'a symbol was written with two numbers, or the numbers are not 0..n-1',
                                    dict(request=line, answer=o[:300])))
                kinds.append('broken-table')
                continue
            if not f:
                kinds.append('refused:' + o.split()[-1])
                # refusal is only legitimate for ids above 255
                if not (o.startswith('REFUSED ValueError') and (nsym > 256 or 'big_k' in info or info.get('big_id'))):
                    if o.startswith('REFUSED AssertionError'):
                        kinds[-1] = 'refused:assert'     # e.g. ESubst over a notation head, duplicate claim
                    else:
                        oracle_fail.append((f'unexpected-refusal:{o.split()[-1]}', 'module refused for another reason than ids > 255',
                                            dict(request=line, answer=o)))
                continue
            if info.get('big_id'):
                oracle_fail.append(('id-over-255-not-refused', 'a module with a variable id above 255 was serialised (ambiguous encoding)',
                                    dict(request=line, answer=o[:300])))
            if nsym > 256:
                oracle_fail.append(('over-255-not-refused', 'a module with more than 256 symbols was serialised',
                                    dict(request=line, answer=o[:300])))
            # boundary code of the model's run; unknown (None) when the model does not follow the implementation
            w = int(mm.group(6)) if (mm and tie_ok) else None
            tbl = [] if f.group(1) in ('-', '') else f.group(1).split(',')
            if len(set(tbl)) != len(tbl):
                oracle_fail.append(('symbol-table-not-injective', 'two ids for one name or one id for two names',
                                    dict(request=line, table=tbl)))
            num = IC.numbering(tbl)
            want_ax = [G.show(IC.rename(a, num)) for a in decl_ax]
            want_cl = [G.show(IC.rename(c, num)) for c in decl_cl]
            # ---- model journal (checker model on the model's bytes) must be the declaration too
            if w == 0 and (mm.group(4).split(',') if mm.group(4) else []) != want_ax:
                mismatches.append((f'model-journal-{tag}', line[:300], f'J={mm.group(4)[:200]} want={want_ax[:6]}'))
            # ---- oracle: the Rust checker on the real files
            rg, rc, rv = rust.get((ci, opt, 'G'), '<norust>'), rust.get((ci, opt, 'C'), '<norust>'), rust.get((ci, opt, 'V'), '<norust>')
            if rg == 'REJECT' or rc == 'REJECT':
                kinds.append(f'checker-rejects-w{w}')
                if w == 0 or w is None:
                    oracle_fail.append((f'checker-rejects-public-files:{tag}', 'the checker rejects the gamma/claim file of a module inside the boundary',
                                        dict(request=line, answer=o[:300])))
                continue
            g = IC.HEADLESS.match(rg)
            c = IC.HEADLESS.match(rc)
            got_ax = [t[1:] for t in (g.group(2).split(',') if g.group(2) else []) if t[0] == 'T']
            got_cl = c.group(3).split(',') if c.group(3) else []
            if got_ax != want_ax:
                first = next((i for i, (a, b) in enumerate(zip(got_ax + [None] * len(want_ax), want_ax + [None] * len(got_ax))) if a != b), 0)
                kind = 'dropped' if len(got_ax) < len(want_ax) else 'added' if len(got_ax) > len(want_ax) else 'changed'
                oracle_fail.append((f'gamma-journal-{kind}:{tag}', 'published axioms differ from the declared theory',
                                    dict(request=line, table=tbl, published=got_ax[:40], declared=want_ax[:40], first_difference=first)))
            if got_cl != want_cl:
                oracle_fail.append((f'claims-differ:{tag}', 'published claims differ from the declared claims',
                                    dict(request=line, table=tbl, published=got_cl[:40], declared=want_cl[:40])))
            unproved = info.get('more_claims', 0) > 0
            if unproved and rv == 'ACCEPT':
                oracle_fail.append((f'verify-accepts-with-unproved-claims:{tag}',
                                    'more claims declared than proofs, yet the three files verify: a declared claim is not in the claim file',
                                    dict(request=line, answer=o[:400], declared_claims=want_cl)))
            if rv != 'ACCEPT' and w in (0, None) and not info.get('proofs_stripped') and not unproved:
                oracle_fail.append((f'verify-rejects:{tag}', 'the three files are not accepted by verify (symbol numbering across files?)',
                                    dict(request=line, answer=o[:400])))
            kinds.append(f'published-w{w}' if w else 'published')
            inv = {i: int(nm) for i, nm in enumerate(tbl)}
            decoded[opt] = ([G.show(IC.rename(G.dec(a), lambda i: inv.get(i, -1))) for a in got_ax],
                            [G.show(IC.rename(G.dec(a), lambda i: inv.get(i, -1))) for a in got_cl])
        if len(decoded) == 2 and decoded[0] != decoded[1]:
            oracle_fail.append(('opt-changes-what-is-published', 'optimize on/off publish different theories',
                                dict(request=line, off=decoded[0], on=decoded[1])))
        nontrivial = bool(decl_ax or decl_cl) and any(k.startswith(('published', 'refused:ValueError')) for k in kinds)
        R.case(line, nontrivial, '/'.join(kinds) or 'none')
        for key in ('big', 'diamond', 'dup', 'notdup', 'added_dup', 'proofs_stripped', 'more_claims', 'fewer_claims', 'big_id', 'late_axiom', 'late_import'):
            if info.get(key):
                R.hist['feature:' + key] = R.hist.get('feature:' + key, 0) + 1
        R.hist[f'mods-{len(mods)}'] = R.hist.get(f'mods-{len(mods)}', 0) + 1
        b = 'syms-%s' % ('0' if nsym == 0 else '1-9' if nsym < 10 else '10-199' if nsym < 200 else '200-256' if nsym <= 256 else '>256')
        R.hist[b] = R.hist.get(b, 0) + 1
        if nontrivial:
            R.sample(line[:300])

    seen = set()
    for sig, desc, replay in oracle_fail:
        if sig not in seen:
            seen.add(sig)
            R.violation(sig, desc, replay)
    if proof_broken and not R.violations:
        R.violation('proof-broken', 'Coq proof stage failed',
                    {'no_failing_input_found': True, 'theorem_or_correspondence': f'Props/{CID}.v', 'log': P['log'][-3000:]})
    if mismatches and not R.violations:
        R.violation('correspondence-broken', 'model and implementation disagree',
                    {'no_failing_input_found': True,
                     'theorem_or_correspondence': 'correspondence mod_files vs ProofExp.serialize (gamma/claim files, symbol table)',
                     'first_mismatches': mismatches[:5]})
    if mismatches:
        R.notes.append(f'{len(mismatches)} mismatches; first: {mismatches[0]}')
    R.coverage['rule'] = RULE
    return R.finish(level='proof', trusted_base=C.TRUSTED_COMMON + [
        IC.TRANSLATOR_TRUST,
        'harness/impl/interp_runner.py + interp_mod.py (module builder over the real ProofExp API, request codec, the RecExp '
        'subclass that only remembers the serialiser object created by ProofExp.serialize)',
        'harness/rust/interp_harness.rs + interp_main.rs (dump only)',
        'ocaml/interp_driver.ml (request codec, printing)',
        'the memoisation set is taken from the real CountingInterpreter.finalize and handed to the model: the theorems hold '
        'for every set, so the counting heuristic is not part of the model',
        'the proof file is not modelled for C03 (only gamma and claim files are public); it is covered by the oracle `verify`',
    ])


def replay(path):
    d = json.load(open(path))
    rep = d.get('replay', d)
    print(json.dumps(d, indent=1)[:3000])
    req = rep.get('request')
    if req:
        print('impl:', IC.run_impl([req], chunks=1)[0][:2000])
    return 0

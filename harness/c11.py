"""C11 — substitution and instantiation obey their algebra.

proof : coq/Props/C11.v
tie   : Rust apply_esubst / apply_ssubst / instantiate (scratch build of the current lib.rs) vs the extracted coq/ML model
        on bounded-exhaustive small patterns and random larger ones; Python side through harness/pypat.py when present
oracle: textbook naive substitution + capture detection on concrete inputs; substitution lemma in random finite models;
        composition law on the Rust side
"""
import itertools
import json

import common as C
import mlgen as G
import mloracle as O
import mltie as T

CID = 'C11'


def small_patterns(names=2, depth=2):
    """all concrete patterns up to the given depth over `names` names (bounded-exhaustive stream)"""
    level = [('EVar', i) for i in range(names)] + [('SVar', i) for i in range(names)] + [('Sym', 0)]
    allp = list(level)
    for _ in range(depth):
        new = []
        for a in level:
            for i in range(names):
                new.append(('Ex', i, a))
                new.append(('Mu', i, a))
        for a, b in itertools.product(level[:6], level[:6]):
            new.append(('Imp', a, b))
            new.append(('App', a, b))
        level = new
        allp += new
        if len(allp) > 4000:
            break
    return allp


def run(tier, seed):
    R = C.Report(CID, tier, seed)
    rng = C.rng_for(seed, CID)
    quick = tier == 'quick'
    ok_tr, tr_msg = T.regen_gen()
    try:
        import pyside
        pyside.regen_pypattern()    # Props/C11.v imports Gen/PyPattern.v: regenerate before the proof stage (see c06.py)
    except Exception:  # noqa: BLE001
        pass
    P = R.proof_stage()
    if not ok_tr:
        P['ok'] = False
        P['log'] = 'translator failed closed: ' + tr_msg
        P['discharged'] = 0     # the regenerated model could not be produced: nothing is proved about the current source
    tie = T.Tie(R)
    if not tie.ready:
        R.violation('tie-build-failed', 'could not build model or Rust harness',
                    {'no_failing_input_found': True, 'theorem_or_correspondence': 'build', 'model_log': tie.model_log, 'rust_log': tie.rust_log})
        return R.finish(trusted_base=C.TRUSTED_COMMON)
    lines, labels, info = [], [], []
    small = small_patterns(2, 2)
    plugs_small = [('EVar', 0), ('EVar', 1), ('SVar', 0), ('SVar', 1), ('Sym', 0), ('App', ('EVar', 0), ('SVar', 1)), ('Ex', 0, ('EVar', 1)), ('Mu', 1, ('SVar', 0))]
    ex = small if not quick else rng.sample(small, min(len(small), 1200))
    for a in ex:
        for r in (plugs_small if not quick else rng.sample(plugs_small, 3)):
            for x in (0, 1):
                for kind in ('SE', 'SS'):
                    lines.append(f'{kind} {G.phex(a)} {x} {G.phex(r)}')
                    labels.append('exhaustive-small:' + kind)
                    info.append((kind, a, x, r))
    nrand = 12000 if quick else 1000000
    for _ in range(nrand):
        meta = rng.random() < 0.4
        a = G.gen_pat(rng, rng.choice([1, 2, 3, 4]), names=3, meta=meta, subst=meta)
        if meta and rng.random() < 0.3:
            a = G.gen_mvar(rng, 3, rich=True)
            if rng.random() < 0.4:
                a = (rng.choice(['ESub', 'SSub']), a, rng.randrange(3), G.gen_pat(rng, 1, 3, meta=False))
        r = G.gen_pat(rng, rng.choice([0, 1, 2]), names=3, meta=meta and rng.random() < 0.5, subst=False)
        x = rng.randrange(3)
        kind = rng.choice(['SE', 'SS'])
        lines.append(f'{kind} {G.phex(a)} {x} {G.phex(r)}')
        labels.append('random:' + kind + (':meta' if meta else ':concrete'))
        info.append((kind, a, x, r))
    # instantiation: partial and total maps, values mentioning other metavariables
    inst_info = []
    for _ in range(nrand // 2):
        p = G.gen_pat(rng, rng.choice([1, 2, 3]), names=3)
        ids = sorted(O.mvar_ids(p))
        extra = [i for i in range(5) if i not in ids]
        pick = [i for i in ids if rng.random() < 0.8] + ([rng.choice(extra)] if extra and rng.random() < 0.3 else [])
        rng.shuffle(pick)
        if rng.random() < 0.1 and pick:
            pick.append(pick[0])       # duplicate key: first one wins
        plugs = [G.gen_pat(rng, rng.choice([0, 1, 2]), names=3, meta=rng.random() < 0.5, subst=False) for _ in pick]
        ln = f'I {G.phex(p)} {G.hexs(pick)} ' + ' '.join(G.phex(q) for q in plugs)
        lines.append(ln.strip())
        labels.append('inst:' + ('total' if set(ids) <= set(pick) else 'partial'))
        inst_info.append((p, pick, plugs))
        info.append(('I', p, pick, plugs))
    m, r = tie.compare(lines, labels)

    # oracles on the Rust answers
    bad = []
    for (kind, a, x, rr), ln, lab, ro, mo in zip(info, lines, labels, r, m):
        R.case(ln, nontrivial=(ro != 'REJECT'), kind=lab + (':ok' if ro != 'REJECT' else ':rej'))
        if kind != 'I' and a[0] in ('MVar', 'ESub', 'SSub') and ro != 'REJECT':
            # deferred on metavariables and pending substitutions: the result is exactly the wrapped node
            want = ('ESub' if kind == 'SE' else 'SSub', a, x, rr)
            got = G.dec(G.unhex(ro))
            if got != want:
                bad.append(('not-deferred-on-metavariable', kind, a, x, rr, got, want))
            continue
        if kind == 'I' or not O.concrete(a) or not O.concrete(rr):
            continue
        ref, cap = (O.subst_e if kind == 'SE' else O.subst_s)(a, x, rr)
        if ro == 'REJECT':
            # the checker may reject conservatively (the proved model says exactly when: a binder on the way whose variable the plug mentions);
            # refusing a capture-free substitution that the model performs is a deviation with a concrete input (e.g. under a binder that
            # re-binds the substituted variable the result is the pattern itself)
            if not cap and mo != 'REJECT':
                bad.append(('refuses-capture-free-substitution', kind, a, x, rr, ('Sym', 0), ref))
            continue
        got = G.dec(G.unhex(ro))
        if cap:
            bad.append(('capture-not-rejected', kind, a, x, rr, got, ref))
        elif got != ref:
            bad.append(('differs-from-textbook', kind, a, x, rr, got, ref))
        else:
            # substitution lemma in a random finite model (set substitution; element substitution for EVar plugs)
            if kind == 'SS' or rr[0] == 'EVar':
                n = rng.choice([1, 2, 2, 3])
                pts = range(n)
                def rs():
                    return frozenset(z for z in pts if rng.random() < 0.5)
                app = {(u, w): rs() for u in pts for w in pts}
                sym = {i: rs() for i in range(4)}
                ev = {i: rng.randrange(n) for i in range(8)}
                sv = {i: rs() for i in range(8)}
                lhs = T.evaluate(got, n, app, sym, ev, sv, {})
                if kind == 'SS':
                    s2 = dict(sv)
                    s2[x] = T.evaluate(rr, n, app, sym, ev, sv, {})
                    rhs = T.evaluate(a, n, app, sym, ev, s2, {})
                else:
                    e2 = dict(ev)
                    e2[x] = ev.get(rr[1], 0)
                    rhs = T.evaluate(a, n, app, sym, e2, sv, {})
                if lhs != rhs:
                    bad.append(('substitution-lemma-fails', kind, a, x, rr, got, ref))
    for why, kind, a, x, rr, got, ref in bad[:4]:
        R.violation(f'rust-subst:{why}:{kind}', f'lib.rs {"apply_esubst" if kind == "SE" else "apply_ssubst"}({G.show(a)}, {x}, {G.show(rr)}) = {"<panics>" if why.startswith("refuses") else G.show(got)}: {why}',
                    {'function': kind, 'pattern': G.show(a), 'var': x, 'plug': G.show(rr), 'got': G.show(got), 'textbook': G.show(ref),
                     'request': f'{kind} {G.phex(a)} {x} {G.phex(rr)}'})
    # composition law on the Rust side: I(I(p,d),d') == I(p, d' o d) whenever first step and composed are defined
    comp = []
    for _ in range(nrand // 4):
        p0 = G.gen_pat(rng, rng.choice([1, 2, 3]), names=3)
        ids = sorted(O.mvar_ids(p0)) or [0]
        v1 = [i for i in ids if rng.random() < 0.7] or ids[:1]
        pl1 = [G.gen_pat(rng, rng.choice([0, 1, 2]), names=3, meta=True, subst=rng.random() < 0.3) for _ in v1]
        inner = sorted(set().union(*[O.mvar_ids(q) for q in pl1]) | set(ids))
        v2 = [i for i in inner if rng.random() < 0.7]
        pl2 = [G.gen_pat(rng, rng.choice([0, 1]), names=3, meta=rng.random() < 0.3, subst=False) for _ in v2]
        comp.append((p0, v1, pl1, v2, pl2))

    def ireq(pt, vs, pls):
        return (f'I {G.phex(pt)} {G.hexs(vs)} ' + ' '.join(G.phex(q) for q in pls)).strip()
    step1 = C.run_lines_parallel(tie.rsref, [ireq(p0, v1, pl1) for p0, v1, pl1, v2, pl2 in comp])
    plugs2 = C.run_lines_parallel(tie.rsref, [ireq(q, v2, pl2) for p0, v1, pl1, v2, pl2 in comp for q in pl1])
    k = 0
    reqs2, reqs3, idx = [], [], []
    for n_, ((p0, v1, pl1, v2, pl2), q1) in enumerate(zip(comp, step1)):
        pl1c = plugs2[k:k + len(pl1)]
        k += len(pl1)
        if q1 == 'REJECT' or any(x == 'REJECT' for x in pl1c):
            continue
        reqs2.append(ireq(G.dec(G.unhex(q1)), v2, pl2))
        reqs3.append((f'I {G.phex(p0)} {G.hexs(v1 + v2)} ' + ' '.join(pl1c + [G.phex(q) for q in pl2])).strip())
        idx.append(n_)
    out2 = C.run_lines_parallel(tie.rsref, reqs2)
    out3 = C.run_lines_parallel(tie.rsref, reqs3)
    ncomp = 0
    for n_, a2, a3, r2, r3 in zip(idx, out2, out3, reqs2, reqs3):
        R.case(('compose', r3), nontrivial=(a3 != 'REJECT'), kind='compose:' + ('both-defined' if a3 != 'REJECT' and a2 != 'REJECT' else 'rejected'))
        if a3 != 'REJECT':
            ncomp += 1
            if a2 != a3:
                p0, v1, pl1, v2, pl2 = comp[n_]
                R.violation('rust-inst:composition-law', 'instantiating twice differs from instantiating once with the composed map',
                            {'pattern': G.show(p0), 'first': [v1, [G.show(q) for q in pl1]], 'second': [v2, [G.show(q) for q in pl2]],
                             'sequential_request': r2, 'sequential': a2, 'composed_request': r3, 'composed': a3})
    R.hist['compose:checked'] = ncomp
    for c in (lines[0], lines[len(ex) * 2], lines[-1]):
        R.sample({'request': c})

    try:
        import pypat
        pypat.py_side(R, CID, tier, seed)
    except ImportError:
        R.notes.append('harness/pypat.py not present: generator-side part of C11 not run in this check')
    except Exception as e:  # noqa: BLE001
        R.violation('py-side-crashed', f'generator-side check crashed: {e!r}', {'no_failing_input_found': True, 'theorem_or_correspondence': 'harness/pypat.py'})

    if tie.mismatches and not R.violations:
        R.violation('correspondence-broken', 'Rust substitution/instantiate and coq/ML model disagree; no algebra law found broken',
                    {'no_failing_input_found': True, 'theorem_or_correspondence': 'correspondence lib.rs apply_esubst/apply_ssubst/instantiate_internal <-> coq/ML/Subst.v',
                     'implementation_behaves_like_model_without_guard': tie.diagnose(),
                     'first_mismatches': [dict(request=a, model=b, rust=c, label=d) for a, b, c, d in tie.mismatches[:5]]})
    if not P['ok'] and not R.violations:
        R.violation('proof-broken', 'Coq proof stage failed', {'no_failing_input_found': True, 'theorem_or_correspondence': 'Props/C11.v', 'log': P['log']})
    R.coverage['rule'] = ('apply_esubst/apply_ssubst on bounded-exhaustive small concrete patterns (2 names, depth<=2) x 8 plugs x 2 variables and on random '
                          'larger patterns (concrete and meta); instantiate with partial/total/duplicate-key maps whose values mention other metavariables; '
                          'non-trivial = not rejected; distinct by request')
    R.coverage['exhaustive'] = False
    return R.finish(trusted_base=C.TRUSTED_COMMON + [
        'translators/rust_judge.py, rust_subst.py, opcodes.py (Rust-subset readers that regenerate coq/Gen/*.v from lib.rs every run; fail closed)','harness/rust/harness.rs entry points SE/SS/I calling the private lib.rs functions',
                                                    'harness/mloracle.py textbook substitution and mltie.evaluate finite-model evaluator (search only)'])


def replay(path):
    d = json.load(open(path))
    print(json.dumps(d, indent=1)[:3000])
    req = d.get('replay', {}).get('request')
    if req:
        tie = T.Tie(None)
        print('rust :', C.run_lines(tie.rsref, [req]))
        print('model:', C.run_lines(tie.mlref, [req]))
    return 0

"""C08 -- A proof means the same under every interpreter.

proof stage : coq/Props/C08.v (interp_agree over all interpreter stacks for the dynamic DSL; memo/instopt
              transparency; refutation for static instantiate (D10); the empty delta (D11) is fixed in /repo, pre-fix behaviour under a named flag).
tie         : proof terms built with the REAL DSL (library lemmas composed to depth <= 4 + raw DSL compositions,
              incl. failing ones) are run under 16 interpreter stacks in Python (harness/impl/pterm_runner.py);
              the reified term is run by the extracted model (ocaml/mlref_pterm); verdict, conclusion and -- for
              notation-free cases -- final stack, memory, bytes, pretty tokens and usage counts are compared.
oracle      : independent of the model: pairwise agreement of the Python interpreters and equality with the
              advertised conclusion.
"""
import glob
import json
import os
import subprocess
from concurrent.futures import ThreadPoolExecutor

import common as C

CID = 'C08'
RUNNER = 'pterm_runner.py'
BASES = {'basic': 0, 'stateful': 1, 'counting': 2, 'serializing': 3, 'pretty': 4}
# must mirror STACKS in the runner (name -> base, layers outermost first)
STACKS = [
    ('basic', 'basic', []), ('stateful', 'stateful', []), ('counting', 'counting', []),
    ('serializing', 'serializing', []), ('pretty', 'pretty', []),
    ('memo/basic', 'basic', ['M']), ('memo/stateful', 'stateful', ['M']), ('memo/counting', 'counting', ['M']),
    ('memo/serializing', 'serializing', ['M']), ('memo/pretty', 'pretty', ['M']),
    ('instopt/basic', 'basic', ['I']), ('instopt/stateful', 'stateful', ['I']),
    ('instopt/serializing', 'serializing', ['I']), ('memo/instopt/stateful', 'stateful', ['M', 'I']),
    ('instopt/memo/serializing', 'serializing', ['I', 'M']), ('memo/memo/stateful', 'stateful', ['M2', 'M']),
]
SIG_D10 = 'ProofExp.instantiate(static):plugs-never-pushed:basic-ok/stateful-fail'
SIG_D11 = 'StatefulInterpreter.instantiate(delta={}):stack[-0:]-slice:stateful-fail/basic-ok'


def regen_source():
    """regenerate coq/Gen/PyProofDSL.v from the CURRENT source (statement-level translation, fail closed)"""
    import sys
    tdir = os.path.join(C.VERIF, 'translators')
    if tdir not in sys.path:
        sys.path.insert(0, tdir)
    import py_proofdsl
    try:
        text = py_proofdsl.generate(C.REPO)
        C.write_if_changed(os.path.join(C.COQ, 'Gen', 'PyProofDSL.v'), text)
        return True, ''
    except SystemExit as e:
        return False, str(e)
    except Exception as e:  # noqa: BLE001
        return False, f'py_proofdsl: {e!r}'


def setup():
    build_model()


def build_model():
    return C.build_mlref('pterm', 'Extract/ExtractPTerm.v', 'pterm_model', 'pterm_driver.ml', 'mlref_pterm',
                         ['PTerm/Model.vo'])


def runner_batch(reqs, timeout=900):
    """one runner process per request (parallel); returns decoded answers"""
    def one(req):
        p = subprocess.run([C.PY, os.path.join(C.VERIF, 'harness', 'impl', RUNNER)], input=json.dumps(req) + '\n',
                           capture_output=True, text=True, timeout=timeout, env={**os.environ, **C.py_env('0')})
        if p.returncode != 0 or not p.stdout.strip():
            return {'runner_error': p.stderr[-2000:]}
        return json.loads(p.stdout.strip().split('\n')[-1])
    with ThreadPoolExecutor(max_workers=C.NCPU) as ex:
        return list(ex.map(one, reqs))


def layer_tokens(layers, res):
    out = [str(len(layers))]
    for l in layers:
        if l == 'M':
            out.append('0 ' + res['S'])
        elif l == 'M2':
            out.append('0 ' + res['S2'])
        else:
            out.append('1')
    return ' '.join(out)


def model_line(res, base, layers):
    return (f"T {BASES[base]} {layer_tokens(layers, res)} {res['axs']} {res['term']} {res['mem0']} "
            f"{res['stack0']} 2 0 0")


def parse_model(ans):
    if not ans.startswith('OK'):
        return None
    parts = [x.strip() for x in ans[2:].split('|')]
    d = {'conc': parts[0]}
    for p in parts[1:]:
        if p.startswith('S '):
            d['stack'] = p[2:].strip()
        elif p.startswith('M '):
            d['mem'] = p[2:].strip()
        elif p.startswith('X'):
            d['extra'] = p[1:].strip()
    return d


def has_inst(case_res):
    st = case_res.get('stats') or {}
    return st.get('inst', 0) > 0


def big_ids(res):
    """ids outside range(256) anywhere in the case (documented limit of the binary format, instruction.py:pack)"""
    for k in ('term', 'axs', 'S', 'S2', 'stack0'):
        v = res.get(k)
        if v and any(int(t) > 255 for t in v.split()):
            return True
    return False


def check_case(R, res, model_answers, mismatches, label):
    """res: runner answer for one case; model_answers: dict stack-name -> model answer line"""
    runs = res['runs']
    names = [s[0] for s in STACKS]
    verd = {n: runs[n]['ok'] for n in names}
    # ---- oracle on the implementation: interpreters agree pairwise and with the advertised conclusion
    disagree = len(set(verd.values())) > 1
    concs = {runs[n]['conc'] for n in names if runs[n]['ok']}
    conc_bad = len(concs) > 1 or (concs and concs != {res['static']})
    kind = 'agree-ok' if all(verd.values()) else ('agree-fail' if not any(verd.values()) else 'disagree')
    if disagree or conc_bad:
        basic_fam = [n for n, b, _ in STACKS if b == 'basic']
        st_fam = [n for n, b, _ in STACKS if b != 'basic']
        replay = {'case': res.get('case'), 'verdicts': verd, 'conclusions': sorted(concs), 'advertised': res['static'],
                  'how': './check C08 --replay <this file>'}
        if conc_bad:
            R.violation('conclusion-differs', 'interpreters return different conclusions / not the advertised one', replay)
        elif has_inst(res) and all(verd[n] for n in basic_fam) and not any(verd[n] for n in st_fam) \
                and res['stats'].get('inst_nonempty', 0) > 0:
            R.violation(SIG_D10, 'static instantiate: Basic-based stacks succeed, Stateful-based fail', replay)
            kind = 'D10'
        elif has_inst(res) and all(verd[n] for n in basic_fam) \
                and all(verd[n] for n, b, ls in STACKS if b != 'basic' and 'I' in ls) \
                and not any(verd[n] for n, b, ls in STACKS if b != 'basic' and 'I' not in ls) \
                and res['stats'].get('inst_empty', 0) > 0 and res['stats'].get('inst_nonempty', 0) == 0:
            R.violation(SIG_D11, 'REGRESSION of the fixed D11: instantiate with empty delta: Stateful fails, Basic and InstantiationOptimizer succeed', replay)
            kind = 'D11'
        elif (not has_inst(res)) and big_ids(res) and all(verd[n] for n, b, _ in STACKS if b != 'serializing') \
                and all(runs[n].get('exc') == 'ValueError' for n, b, _ in STACKS if b == 'serializing'):
            kind = 'byte-range(documented limit; outside interp_agree hypothesis fits)'
        else:
            fail = ','.join(n for n in names if not verd[n])
            R.violation('interp-disagree:' + ('static-inst:' if has_inst(res) else 'dynamic:') + fail,
                        'interpreter stacks disagree on one proof expression', replay)
    # ---- oracle on the implementation: the client epilogue (save the proof, rebuild its conclusion as a pattern) succeeds under every stack
    #      that accepted the term, or under none of them
    ep = {n: runs[n].get('epilogue') for n in names if runs[n]['ok'] and runs[n].get('epilogue') is not None}
    if ep and len({v == 'ok' for v in ep.values()}) > 1 and not (disagree or conc_bad):
        bad = ','.join(n for n in names if n in ep and ep[n] != 'ok')
        R.violation('interp-disagree:client-save-then-pattern:' + bad,
                    'after the same proof expression, interpreter.save(proof) followed by interpreter.pattern(its conclusion) succeeds under some '
                    'interpreter stacks and raises under others',
                    {'case': res.get('case'), 'epilogue': ep, 'how': './check C08 --replay <this file>'})
    R.hist['epilogue:' + ('none' if not ep else 'all-ok' if all(v == 'ok' for v in ep.values()) else 'all-raise' if all(v != 'ok' for v in ep.values()) else 'mixed')] = \
        R.hist.get('epilogue:' + ('none' if not ep else 'all-ok' if all(v == 'ok' for v in ep.values()) else 'all-raise' if all(v != 'ok' for v in ep.values()) else 'mixed'), 0) + 1
    # ---- tie: model vs implementation, stack by stack
    if res.get('d3'):
        # the toolkit's notation-level evar_is_free (D3, owned by C06/C12) differs from the expanded judgement on a
        # Generalization node of this term: the expanded model is not comparable; the pairwise oracle above still ran
        return kind + '+d3-tie-skipped'
    exact = not res['notation']
    for n, b, ls in STACKS:
        m = parse_model(model_answers[n])
        py = runs[n]
        if (m is not None) != py['ok']:
            mismatches.append((label, n, 'verdict', model_answers[n][:80], py))
            continue
        if m is None:
            continue
        if m['conc'] != py['conc']:
            mismatches.append((label, n, 'conc', m['conc'], py['conc']))
            continue
        memo_free = not any(l in ('M', 'M2') for l in ls)
        if (exact or memo_free) and b != 'basic':
            # final tracker state (expanded); with notation only for stacks without a memoiser, whose set membership is
            # hash based (notation-sensitive)
            if m.get('stack') != py.get('stack') or m.get('mem') != py.get('mem'):
                mismatches.append((label, n, 'state', (m.get('stack'), m.get('mem')), (py.get('stack'), py.get('mem'))))
            if not exact:
                continue
            extra = py.get('bytes') if b == 'serializing' else py.get('tokens') if b == 'pretty' else py.get('uses') if b == 'counting' else ''
            if b == 'counting' and res['stats'].get('p3', 0) > 0:
                # BasicInterpreter.prop3 builds its conclusion with the notation bot(); _collect_patterns does not
                # look inside an Instantiate, the expanded model does: usage tables are compared only without prop3
                continue
            if (extra or '') != (m.get('extra') or ''):
                mismatches.append((label, n, 'trace', m.get('extra'), extra))
    return kind


def annotate_inst(res):
    """count static-instantiate nodes by emptiness of their delta (tokens: 17 <term> n ...) from the spec"""
    def walk(s, acc):
        if isinstance(s, list) and s and s[0] == 'inst':
            acc['inst_empty' if not s[2] else 'inst_nonempty'] += 1
        if isinstance(s, list):
            for x in s:
                walk(x, acc)
        elif isinstance(s, dict):
            for x in s.values():
                walk(x, acc)
    acc = {'inst_empty': 0, 'inst_nonempty': 0}
    walk(res['case']['term'], acc)
    res.setdefault('stats', {}).update(acc)


def process(R, results, mlref, mismatches):
    lines, index = [], []
    for i, res in enumerate(results):
        if res.get('timeout'):
            continue
        if res.get('built'):
            annotate_inst(res)
            for n, b, ls in STACKS:
                lines.append(model_line(res, b, ls))
                index.append((i, n))
        elif res.get('term'):
            lines.append(f"C {res['axs']} {res['term']}")
            index.append((i, 'static'))
    answers = C.run_lines_parallel(mlref, lines)
    if len(answers) != len(lines):
        answers += ['<missing>'] * (len(lines) - len(answers))
    per = {}
    for (i, n), a in zip(index, answers):
        per.setdefault(i, {})[n] = a
    for i, res in enumerate(results):
        label = json.dumps(res.get('case'))[:300]
        if res.get('timeout'):
            R.hist['skipped:time-budget'] = R.hist.get('skipped:time-budget', 0) + 1
            continue
        if res.get('built'):
            kind = check_case(R, res, per[i], mismatches, label)
            nodes = sum(v for k, v in res['stats'].items() if not k.startswith('inst_'))
            for n, _, _ in STACKS:
                R.case((res['term'], res['stack0'], res['S'], n), nontrivial=nodes >= 2, kind=None)
            R.hist[kind] = R.hist.get(kind, 0) + 1
            R.hist['nodes<=5' if nodes <= 5 else 'nodes<=30' if nodes <= 30 else 'nodes>30'] = \
                R.hist.get('nodes<=5' if nodes <= 5 else 'nodes<=30' if nodes <= 30 else 'nodes>30', 0) + 1
            R.hist['notation' if res['notation'] else 'notation-free'] = R.hist.get('notation' if res['notation'] else 'notation-free', 0) + 1
            for k, v in res['stats'].items():
                R.hist['rule:' + k] = R.hist.get('rule:' + k, 0) + v
            for fld in res.get('mvfields', []):
                R.hist['metavar-field:' + fld] = R.hist.get('metavar-field:' + fld, 0) + 1
            if res.get('d3'):
                R.hist['gen-under-notation(D3 flag)'] = R.hist.get('gen-under-notation(D3 flag)', 0) + 1
            R.sample({'term_spec': res['case']['term'], 'verdicts': {n: res['runs'][n]['ok'] for n, _, _ in STACKS}}, limit=4)
        else:
            R.hist['dsl-constructor-raises'] = R.hist.get('dsl-constructor-raises', 0) + 1
            R.case(('static', res.get('term'), res['axs']), nontrivial=True)
            if res.get('term'):
                a = per[i]['static']
                if a != 'NONE':
                    mismatches.append((label, 'static_conc', 'verdict', a[:80], 'constructor raised ' + res.get('build_exc', '')))


PIPE = ['basic', 'stateful', 'counting', 'serializing', 'pretty', 'finalize-memo/stateful', 'finalize-memo/serializing',
        'finalize-memo/pretty', 'instopt/finalize-memo/serializing']


def process_pipeline(R, results, mlref, mismatches):
    """the optimising pipeline as an interpreter stack: the memo set is what the REAL CountingInterpreter.finalize()
    suggested.  Oracle: all module-level runs agree; finalize() respects the free memory slots.  Tie: model bytes."""
    lines, idx = [], []
    for i, r in enumerate(results):
        if r.get('built') and 'model' in r and 'S' in r:
            md = r['model']
            lines.append(f"M 0 {md['axs']} {md['claims']} {md['proofs']}")
            idx.append((i, 'serializing'))
            lines.append(f"M 1 {r['S']} {md['axs']} {md['claims']} {md['proofs']}")
            idx.append((i, 'finalize-memo/serializing'))
    ans = dict(zip(idx, C.run_lines(mlref, lines))) if lines else {}
    for i, r in enumerate(results):
        if not r.get('built'):
            R.hist['pipeline:module-not-built'] = R.hist.get('pipeline:module-not-built', 0) + 1
            continue
        runs = r['runs']
        verd = {n: runs[n]['ok'] for n in PIPE if n in runs}
        for n in verd:
            R.case(('pipeline', json.dumps(r['mod'])[:2000], n), nontrivial=True)
        replay = {'pipeline_module': r['mod'], 'verdicts': {n: (runs[n]['ok'], runs[n].get('exc')) for n in verd},
                  'n_axioms': r.get('n_axioms'), 'memory_at_finalize': r.get('mem_at_finalize'), 'finalize_set_size': r.get('S_size'),
                  'how': './check C08 --replay <this file>'}
        kind = 'pipeline:agree-ok' if all(verd.values()) else 'pipeline:agree-fail' if not any(verd.values()) else 'pipeline:disagree'
        if 'finalize_exc' in r:
            R.violation('pipeline:finalize-raises:' + r['finalize_exc'], 'CountingInterpreter.finalize raised after a successful counting pass', replay)
        if r.get('S_size') is not None and r['S_size'] + r['mem_at_finalize'] > 256 and r['S_size'] > 0:
            R.violation('pipeline:CountingInterpreter.finalize:suggestions-exceed-free-memory-slots',
                        f"finalize() suggests {r['S_size']} patterns with {r['mem_at_finalize']} of the 256 slots already taken", replay)
        if len(set(verd.values())) > 1:
            ser_fam = [n for n in verd if 'serializing' in n]
            if all(verd[n] for n in verd if n not in ser_fam) and not any(verd[n] for n in ser_fam):
                kind = 'pipeline:byte-range(all serialisers refuse; documented limit)'
            else:
                fail = ','.join(n + '(' + str(runs[n].get('exc')) + ')' for n in verd if not verd[n])
                R.violation('pipeline-disagree:' + fail, 'module-level runs disagree; the memo set is the real finalize() output', replay)
        R.hist[kind] = R.hist.get(kind, 0) + 1
        R.hist['pipeline:axioms>=128' if r.get('n_axioms', 0) >= 128 else 'pipeline:axioms<128'] = \
            R.hist.get('pipeline:axioms>=128' if r.get('n_axioms', 0) >= 128 else 'pipeline:axioms<128', 0) + 1
        if r.get('S_size') is not None and r['S_size'] + r['mem_at_finalize'] >= 250:
            R.hist['pipeline:memory>=250-slots'] = R.hist.get('pipeline:memory>=250-slots', 0) + 1
        for n in ('serializing', 'finalize-memo/serializing'):
            a = ans.get((i, n))
            if a is None:
                continue
            py = runs.get(n)
            if py is None:
                continue
            if a.startswith('OK') != py['ok']:
                mismatches.append(('pipeline', n, 'verdict', a[:80], (py['ok'], py.get('exc'))))
            elif py['ok'] and a.split()[1:4] != py['bytes']:
                mismatches.append(('pipeline', n, 'bytes', a[:120], [b[:60] for b in py['bytes']]))


def corpus_cases():
    out = []
    for f in sorted(glob.glob(os.path.join(C.VERIF, 'harness', 'corpus', CID, '*.json'))):
        d = json.load(open(f))
        out.append(d['case'] if 'case' in d else d['replay']['case'])
    return out


def run(tier, seed):
    R = C.Report(CID, tier, seed)
    n = 480 if tier == 'quick' else 10000

    ok_tr, tr_msg = regen_source()
    P = R.proof_stage()
    if not ok_tr:
        # the model could not be regenerated from the current source: nothing is proved about it
        P['ok'] = False
        P['log'] = 'translator failed closed: ' + tr_msg
        P['discharged'] = 0
    proof_broken = not P['ok']

    ok, log, mlref = build_model()
    mismatches = []
    if not ok:
        mismatches.append(('build', 'mlref_pterm', 'build', log[-1500:], ''))
    else:
        # corpus (refutation witnesses, minimised failures) first
        reqs = [{'cmd': 'thunk', 'case': c} for c in corpus_cases()]
        corp = runner_batch(reqs)
        for c, r in zip(corpus_cases(), corp):
            r['case'] = c
        chunks = C.NCPU * 3 if tier == 'quick' else C.NCPU * 16
        per = (n + chunks - 1) // chunks
        gen = runner_batch([{'cmd': 'gen_thunks', 'seed': f'{seed}:{CID}:{i}', 'n': per} for i in range(chunks)],
                           timeout=3000)
        results = [r for r in corp if 'runner_error' not in r]
        for g in gen:
            if isinstance(g, dict):
                mismatches.append(('runner', 'gen', 'error', g.get('runner_error', '')[-800:], ''))
            else:
                results += g
        for r in corp:
            if 'runner_error' in r:
                mismatches.append(('runner', 'corpus', 'error', r['runner_error'][-800:], ''))
        process(R, results, mlref, mismatches)
        # the real counting -> finalize() -> memoizing pipeline on modules with memory pressure near the 256 slots
        pk = 2 if tier == 'quick' else 24
        pipe = runner_batch([{'cmd': 'pipeline', 'seed': f'{seed}:{CID}:pressure:{j}', 'n': 2} for j in range(pk // 2)], timeout=3000)
        pres = []
        for g in pipe:
            if isinstance(g, dict):
                mismatches.append(('runner', 'pipeline', 'error', g.get('runner_error', '')[-800:], ''))
            else:
                pres += g
        process_pipeline(R, pres, mlref, mismatches)
        # history independence: several symbol-heavy modules through fresh stacks in ONE process vs each in a fresh process
        hk = 3 if tier == 'quick' else 6
        shared = runner_batch([{'cmd': 'history', 'seed': f'{seed}:{CID}:history', 'n': hk}], timeout=3000)[0]
        if isinstance(shared, dict):
            mismatches.append(('runner', 'history', 'error', shared.get('runner_error', '')[-800:], ''))
        else:
            fresh = runner_batch([{'cmd': 'pipeline', 'mod': r['mod']} for r in shared], timeout=3000)
            fresh = [f[0] if isinstance(f, list) and f else {'built': False} for f in fresh]
            for j, (a, b) in enumerate(zip(shared, fresh)):
                if not (a.get('built') and b.get('built')):
                    mismatches.append(('runner', 'history', 'not built', str(a.get('build_exc')), str(b.get('build_exc'))))
                    continue
                for n in PIPE:
                    ra, rb = a['runs'].get(n), b['runs'].get(n)
                    if ra is None or rb is None:
                        continue
                    R.case(('history', j, n, json.dumps(a['mod'])[:500]), nontrivial=True, kind='history:module-%d-of-process' % (j + 1))
                    if ra['ok'] != rb['ok'] or ra.get('bytes') != rb.get('bytes'):
                        R.violation(f"history-dependence:{n}:{'verdict' if ra['ok'] != rb['ok'] else 'bytes'}:{ra.get('exc')}",
                                    f'module #{j + 1} run through a fresh {n} stack after {j} other module(s) in the same process behaves '
                                    'differently from the same module in a fresh process',
                                    {'history_seed': f'{seed}:{CID}:history', 'n': hk, 'module_index': j, 'stack': n,
                                     'shared_process': {k: v for k, v in ra.items() if k != 'bytes'},
                                     'fresh_process': {k: v for k, v in rb.items() if k != 'bytes'},
                                     'symbols_in_module': a['mod'].get('symbols'), 'how': './check C08 --replay <this file>'})
            process_pipeline(R, shared, mlref, mismatches)

    if proof_broken and not R.violations:
        R.violation('proof-broken', 'Coq proof stage failed',
                    {'no_failing_input_found': True, 'theorem_or_correspondence': f'Props/{CID}.v', 'log': P['log']})
    if mismatches and not R.violations:
        R.violation('correspondence-broken', 'PTerm model and the Python interpreters disagree',
                    {'no_failing_input_found': True,
                     'theorem_or_correspondence': 'correspondence PTerm.Model.run / stack_calls vs proof_generation interpreters',
                     'first_mismatches': [list(map(str, m)) for m in mismatches[:5]]})
    R.notes.append(f'mismatches={len(mismatches)}')
    if os.environ.get('VERIF_DEBUG'):
        json.dump([list(map(str, m)) for m in mismatches[:200]], open(os.path.join(C.OUT, CID + '_mismatches.json'), 'w'), indent=1)
    R.coverage['rule'] = ('one evaluation = one proof expression (built by the real DSL; library lemmas of Propositional composed to '
                          'depth<=4, raw DSL compositions, failing compositions) run under one of 16 interpreter stacks and by the '
                          'extracted model; distinct by (expanded term, initial stack, memo set, stack); non-trivial = term has >= 2 rule nodes')
    return R.finish(level='proof', trusted_base=C.TRUSTED_COMMON + [
        'translators/py_proofdsl.py (Python-ast statement-level translator of proof.py / basic_interpreter.py / interpreter.py / '
        'interpreter_transformer.py / optimizing_interpreters.py -> coq/Gen/PyProofDSL.v, fail closed) and the reading conventions of '
        'coq/PTerm/PyRt.v (monad of calls reaching the innermost interpreter, objects with open recursion, base_ops)',
        'harness/impl/pterm_runner.py: reifier (wraps the ProofExp rule constructors in-process to record the proof term), '
        'full notation expansion, encoders, pretty-output tokeniser',
        'modelling decision: patterns are notation-expanded; the hash-based membership of the memoisation set and the '
        'notation-level evar_is_free (D3) are outside this model (covered by C12/C06)'])


def replay(path):
    d = json.load(open(path))
    case = d.get('case') or d.get('replay', {}).get('case')
    hs = d.get('replay', {}).get('history_seed') if isinstance(d.get('replay'), dict) else None
    if hs is not None:
        shared = runner_batch([{'cmd': 'history', 'seed': hs, 'n': d['replay']['n']}])[0]
        fresh = runner_batch([{'cmd': 'pipeline', 'mod': r['mod']} for r in shared])
        for j, (a, b) in enumerate(zip(shared, fresh)):
            print(f'module #{j + 1} ({a["mod"].get("symbols")} symbols)')
            for n in PIPE:
                ra, rb = a['runs'].get(n), (b[0]['runs'].get(n) if b else None)
                if ra and rb:
                    print(f'   {n:36s} same process: {"OK" if ra["ok"] else "FAIL(" + str(ra.get("exc")) + ")":22s} fresh process: {"OK" if rb["ok"] else "FAIL(" + str(rb.get("exc")) + ")"}')
        return 0
    pm = d.get('replay', {}).get('pipeline_module') if isinstance(d.get('replay'), dict) else None
    if pm is not None:
        req = {'cmd': 'pipeline', **pm['regenerate']} if 'regenerate' in pm else {'cmd': 'pipeline', 'mod': pm}
        out = runner_batch([req])[0]
        for r in (out if isinstance(out, list) else [out]):
            if r.get('mod', {}).get('proofs') != pm.get('proofs'):
                continue
            print('axioms', r.get('n_axioms'), 'memory at finalize', r.get('mem_at_finalize'), 'finalize() set size', r.get('S_size'))
            for n in PIPE:
                if n in r.get('runs', {}):
                    print(f'{n:36s}', 'OK' if r['runs'][n]['ok'] else 'FAIL(' + str(r['runs'][n].get('exc')) + ': ' + str(r['runs'][n].get('msg')) + ')')
        return 0
    if case is None:
        print(json.dumps(d, indent=1)[:3000])
        return 0
    ok, log, mlref = build_model()
    res = runner_batch([{'cmd': 'thunk', 'case': case}])[0]
    if 'runner_error' in res:
        print(res['runner_error'])
        return 1
    print('term spec   :', json.dumps(case['term'])[:1000])
    if not res.get('built'):
        print('DSL constructor raised', res.get('build_exc'))
        return 0
    print('advertised  :', res['static'])
    lines = [model_line(res, b, ls) for _, b, ls in STACKS]
    ans = C.run_lines(mlref, lines) if ok else ['<no model>'] * len(lines)
    for (n, _, _), a in zip(STACKS, ans):
        r = res['runs'][n]
        print(f'{n:28s} python={"OK " + r["conc"][:60] if r["ok"] else "FAIL(" + r.get("exc", "") + ")":70s} model={a[:60]}  '
              f'then save(proof); pattern(conclusion): {r.get("epilogue", "-")}')
    oks = {r['ok'] for r in res['runs'].values()}
    eps = {r.get('epilogue') == 'ok' for r in res['runs'].values() if r['ok'] and r.get('epilogue') is not None}
    bad = len(oks) > 1 or len(eps) > 1
    print('VIOLATED (the interpreter stacks disagree)' if bad else 'HOLDS (all interpreter stacks agree)')
    return 1 if bad else 0

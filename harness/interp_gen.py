"""Generators shared by the C14 / C04 / C03 checks: patterns (with notation), call histories that know
the stack discipline (a SHADOW tracker guides generation only; it is never used as a judge), byte
stream mutations.  Patterns are nested tuples:
  ('e',n) ('s',n) ('y',n) ('i',l,r) ('a',l,r) ('x',v,p) ('m',v,p) ('v',id,ef,sf,ps,ng,hs)
  ('E',p,x,plug) ('S',p,X,plug)        and notation  ('N', body, ((k, v), ...))
Terms: ('P', pat) / ('T', pat).
"""
from __future__ import annotations

# ------------------------------------------------------------------------------------------------
# codec (request grammar of ocaml/interp_driver.ml and harness/impl/interp_runner.py)
# ------------------------------------------------------------------------------------------------


def enc(p):
    t = p[0]
    if t == 'e':
        return [0, p[1]]
    if t == 's':
        return [1, p[1]]
    if t == 'y':
        return [2, p[1]]
    if t == 'i':
        return [3] + enc(p[1]) + enc(p[2])
    if t == 'a':
        return [4] + enc(p[1]) + enc(p[2])
    if t == 'x':
        return [5, p[1]] + enc(p[2])
    if t == 'm':
        return [6, p[1]] + enc(p[2])
    if t == 'v':
        out = [7, p[1]]
        for l in p[2:7]:
            out.append(len(l))
            out += list(l)
        return out
    if t == 'E':
        return [8] + enc(p[1]) + [p[2]] + enc(p[3])
    if t == 'S':
        return [9] + enc(p[1]) + [p[2]] + enc(p[3])
    if t == 'N':
        out = [10] + enc(p[1]) + [len(p[2])]
        for k, v in p[2]:
            out += [k] + enc(v)
        return out
    raise ValueError(p)


def show(p):
    return '.'.join(str(x) for x in enc(p))


def show_term(t):
    return t[0] + show(t[1])


def dec(s):
    ints = [int(x) for x in s.split('.')]
    pos = 0

    def byte():
        nonlocal pos
        x = ints[pos]
        pos += 1
        return x

    def go():
        t = byte()
        if t == 0:
            return ('e', byte())
        if t == 1:
            return ('s', byte())
        if t == 2:
            return ('y', byte())
        if t in (3, 4):
            l = go()
            return ('i' if t == 3 else 'a', l, go())
        if t in (5, 6):
            v = byte()
            return ('x' if t == 5 else 'm', v, go())
        if t == 7:
            i = byte()
            ls = []
            for _ in range(5):
                n = byte()
                ls.append(tuple(byte() for _ in range(n)))
            return ('v', i, *ls)
        if t in (8, 9):
            p = go()
            x = byte()
            return ('E' if t == 8 else 'S', p, x, go())
        if t == 10:
            body = go()
            n = byte()
            args = []
            for _ in range(n):
                k = byte()
                args.append((k, go()))
            return ('N', body, tuple(args))
        raise ValueError('tag')

    return go()


def lst(l):
    return ','.join(str(x) for x in l) if l else '-'


# ------------------------------------------------------------------------------------------------
# shadow semantics (ports of coq/Interp/Calls.v py_esubst / py_ssubst / py_inst; guide only)
# ------------------------------------------------------------------------------------------------

def mv(i, ef=(), sf=(), ps=(), ng=(), hs=()):
    return ('v', i, tuple(ef), tuple(sf), tuple(ps), tuple(ng), tuple(hs))


BOT = ('m', 0, ('s', 0))
PROP1 = ('i', mv(0), ('i', mv(1), mv(0)))
PROP2 = ('i', ('i', mv(0), ('i', mv(1), mv(2))), ('i', ('i', mv(0), mv(1)), ('i', mv(0), mv(2))))
PROP3 = ('i', ('i', ('i', mv(0), BOT), BOT), mv(0))
QUANT = ('i', ('E', mv(0), 0, ('e', 1)), ('x', 0, mv(0)))


def py_esubst(p, x, plug):
    t = p[0]
    if t == 'e':
        return plug if p[1] == x else p
    if t in ('s', 'y'):
        return p
    if t in ('i', 'a'):
        return (t, py_esubst(p[1], x, plug), py_esubst(p[2], x, plug))
    if t == 'x':
        return p if p[1] == x else ('x', p[1], py_esubst(p[2], x, plug))
    if t == 'm':
        return ('m', p[1], py_esubst(p[2], x, plug))
    if t == 'v':
        return p if x in p[2] else ('E', p, x, plug)
    return ('E', p, x, plug)


def py_ssubst(p, X, plug):
    t = p[0]
    if t == 's':
        return plug if p[1] == X else p
    if t in ('e', 'y'):
        return p
    if t in ('i', 'a'):
        return (t, py_ssubst(p[1], X, plug), py_ssubst(p[2], X, plug))
    if t == 'x':
        return ('x', p[1], py_ssubst(p[2], X, plug))
    if t == 'm':
        return p if p[1] == X else ('m', p[1], py_ssubst(p[2], X, plug))
    if t == 'v':
        return p if X in p[3] else ('S', p, X, plug)
    return ('S', p, X, plug)


def py_inst(p, d):
    t = p[0]
    if t in ('e', 's', 'y'):
        return p
    if t in ('i', 'a'):
        return (t, py_inst(p[1], d), py_inst(p[2], d))
    if t in ('x', 'm'):
        return (t, p[1], py_inst(p[2], d))
    if t == 'v':
        return d.get(p[1], p)
    if not d:
        return p
    if t == 'E':
        return py_esubst(py_inst(p[1], d), p[2], py_inst(p[3], d))
    if t == 'S':
        return py_ssubst(py_inst(p[1], d), p[2], py_inst(p[3], d))
    raise ValueError(p)


def expand(p):
    t = p[0]
    if t == 'N':
        return py_inst(expand(p[1]), {k: expand(v) for k, v in p[2]})
    if t in ('i', 'a'):
        return (t, expand(p[1]), expand(p[2]))
    if t in ('x', 'm'):
        return (t, p[1], expand(p[2]))
    if t in ('E', 'S'):
        return (t, expand(p[1]), p[2], expand(p[3]))
    return p


def e_fresh(p, x):
    t = p[0]
    if t == 'e':
        return p[1] != x
    if t in ('s', 'y'):
        return True
    if t in ('i', 'a'):
        return e_fresh(p[1], x) and e_fresh(p[2], x)
    if t == 'x':
        return p[1] == x or e_fresh(p[2], x)
    if t == 'm':
        return e_fresh(p[2], x)
    if t == 'v':
        return x in p[2]
    if t == 'E':
        return e_fresh(p[3], x) if p[2] == x else e_fresh(p[1], x) and e_fresh(p[3], x)
    return e_fresh(p[1], x) and e_fresh(p[3], x)


def s_fresh(p, X):
    t = p[0]
    if t == 's':
        return p[1] != X
    if t in ('e', 'y'):
        return True
    if t in ('i', 'a'):
        return s_fresh(p[1], X) and s_fresh(p[2], X)
    if t == 'x':
        return s_fresh(p[2], X)
    if t == 'm':
        return p[1] == X or s_fresh(p[2], X)
    if t == 'v':
        return X in p[3]
    if t == 'S':
        return s_fresh(p[3], X) if p[2] == X else s_fresh(p[1], X) and s_fresh(p[3], X)
    return s_fresh(p[1], X) and s_fresh(p[3], X)


def metavars(p, acc=None):
    acc = set() if acc is None else acc
    t = p[0]
    if t == 'v':
        acc.add(p[1])
    elif t in ('i', 'a'):
        metavars(p[1], acc)
        metavars(p[2], acc)
    elif t in ('x', 'm'):
        metavars(p[2], acc)
    elif t in ('E', 'S'):
        metavars(p[1], acc)
        metavars(p[3], acc)
    elif t == 'N':
        metavars(p[1], acc)
        for _, v in p[2]:
            metavars(v, acc)
    return acc


def size(p):
    t = p[0]
    if t in ('e', 's', 'y', 'v'):
        return 1
    if t in ('i', 'a'):
        return 1 + size(p[1]) + size(p[2])
    if t in ('x', 'm'):
        return 1 + size(p[2])
    if t in ('E', 'S'):
        return 1 + size(p[1]) + size(p[3])
    if t == 'N':
        return 1 + size(p[1]) + sum(size(v) for _, v in p[2])
    return 1


def has_subst(p):
    t = p[0]
    if t in ('E', 'S'):
        return True
    if t in ('i', 'a'):
        return has_subst(p[1]) or has_subst(p[2])
    if t in ('x', 'm'):
        return has_subst(p[2])
    return False


# ------------------------------------------------------------------------------------------------
# random patterns
# ------------------------------------------------------------------------------------------------

class Cfg:
    """knobs of the pattern generator"""

    def __init__(self, max_id=4, syms=6, big_ids=False, constrained=0.25, subst=0.12, binders=0.2, safe=False):
        self.max_id, self.syms, self.big_ids = max_id, syms, big_ids
        self.constrained, self.subst, self.binders = constrained, subst, binders
        self.safe = safe         # stay inside the checker's side conditions (positive mu, well-formed substitutions)


def rid(rng, cfg):
    if cfg.big_ids and rng.random() < 0.05:
        return rng.choice([254, 255, 256, 257, 300, 1000])
    return rng.randrange(cfg.max_id)


def rsym(rng, cfg):
    return rng.randrange(cfg.syms)


def gen_metavar(rng, cfg):
    i = rid(rng, cfg)
    if rng.random() >= cfg.constrained:
        return mv(i)
    ls = []
    for _ in range(5):
        n = rng.choice([0, 0, 0, 1, 1, 2])
        ls.append(tuple(rid(rng, cfg) for _ in range(n)))
    if cfg.safe:
        ls[4] = tuple(h for h in ls[4] if h not in ls[0])     # app_ctx_holes disjoint from e_fresh
    return mv(i, *ls)


def gen_pat(rng, depth, cfg):
    """expanded pattern (no notation)"""
    r = rng.random()
    if depth <= 0 or r < 0.25:
        k = rng.random()
        if k < 0.3:
            return ('e', rid(rng, cfg))
        if k < 0.45:
            return ('s', rid(rng, cfg))
        if k < 0.7:
            return ('y', rsym(rng, cfg))
        return gen_metavar(rng, cfg)
    if r < 0.55:
        return ('i', gen_pat(rng, depth - 1, cfg), gen_pat(rng, depth - 1, cfg))
    if r < 0.7:
        return ('a', gen_pat(rng, depth - 1, cfg), gen_pat(rng, depth - 1, cfg))
    if r < 0.7 + cfg.binders:
        if rng.random() < 0.6:
            return ('x', rid(rng, cfg), gen_pat(rng, depth - 1, cfg))
        X = rid(rng, cfg)
        if cfg.safe:
            X = cfg.max_id + rng.randrange(3)      # a set variable the body cannot mention: trivially positive
        body = gen_pat(rng, depth - 1, cfg)
        if cfg.safe and metavars(body):
            return ('x', rid(rng, cfg), body)      # the checker wants declared positivity of metavariables under mu
        return ('m', X, body)
    if r < 0.7 + cfg.binders + cfg.subst:
        head = gen_metavar(rng, cfg)
        if cfg.safe:
            # well-formed: a clean metavariable head, a variable nobody declares fresh, a plug that is not that variable
            return ('E' if rng.random() < 0.5 else 'S', mv(head[1]), cfg.max_id + 1 + rng.randrange(2), ('y', rsym(rng, cfg)))
        if rng.random() < 0.3:
            head = ('E' if rng.random() < 0.5 else 'S', head, rid(rng, cfg), gen_pat(rng, 0, cfg))
        return ('E' if rng.random() < 0.5 else 'S', head, rid(rng, cfg), gen_pat(rng, max(0, depth - 2), cfg))
    return gen_pat(rng, depth - 1, cfg)


NOTATION_BODIES = [
    BOT,                                                          # bot
    ('i', mv(0), BOT),                                            # neg
    ('i', ('i', mv(0), ('i', mv(1), BOT)), BOT),                  # and
    ('i', ('i', mv(0), BOT), mv(1)),                              # or
    ('a', ('y', 0), mv(0)),                                       # a unary symbol application
    ('x', 0, ('i', mv(0), mv(1))),
]


def subterms(p, path=()):
    yield path, p
    t = p[0]
    if t in ('i', 'a'):
        yield from subterms(p[1], path + (1,))
        yield from subterms(p[2], path + (2,))
    elif t in ('x', 'm'):
        yield from subterms(p[2], path + (2,))


def replace_at(p, path, q):
    if not path:
        return q
    l = list(p)
    l[path[0]] = replace_at(p[path[0]], path[1:], q)
    return tuple(l)


def mv_leaves(p, path=(), under_subst=False):
    """(path, leaf) of every metavariable leaf outside ESubst/SSubst nodes"""
    t = p[0]
    if t == 'v':
        yield path, p
    elif t in ('i', 'a'):
        yield from mv_leaves(p[1], path + (1,))
        yield from mv_leaves(p[2], path + (2,))
    elif t in ('x', 'm'):
        yield from mv_leaves(p[2], path + (2,))


def under_mu(q, path):
    """does the path pass through a mu node?"""
    node = q
    for step in path:
        if node[0] == 'm':
            return True
        node = node[step]
    return False


def notate(rng, q, depth=1):
    """a notation-carrying pattern whose full expansion is the expanded pattern q.  Like every
    Notation.__call__ of the code base the result is a COMPLETE instantiation: every metavariable of
    the body is a key (partial Instantiate objects are exercised separately, by instantiate_pattern
    calls; Instantiate.instantiate on partial objects is defect D5 of C11/C12, not of this check)"""
    if has_subst(q) or rng.random() < 0.15:
        # zero-ary notation: Instantiate(q, {})
        return ('N', q, ())
    subs = [(path, s) for path, s in subterms(q) if path and s[0] != 'v' and not under_mu(q, path)]
    used = metavars(q)
    k = rng.choice([0, 1, 1, 2, 3])
    chosen = []
    for path, s in rng.sample(subs, min(k, len(subs))):
        if any(path[:len(c)] == c or c[:len(path)] == path for c, _ in chosen):
            continue
        chosen.append((path, s))
    body = q
    args = []
    nxt = 0
    for path, s in chosen:
        while nxt in used:
            nxt += 1
        used.add(nxt)
        body = replace_at(body, path, mv(nxt))
        arg = notate(rng, s, depth - 1) if depth > 0 and rng.random() < 0.4 else s
        args.append((nxt, arg))
    keys = {k for k, _ in args}
    seen = {}
    for path, leaf in list(mv_leaves(body)):
        if leaf[1] in keys and leaf == mv(leaf[1]):
            continue
        if under_mu(body, path):
            # a metavariable under mu must keep its positivity constraints: not abstractable;
            # fall back to the zero-ary notation
            return ('N', q, ())
        if leaf not in seen:
            while nxt in used:
                nxt += 1
            used.add(nxt)
            seen[leaf] = nxt
            args.append((nxt, leaf))
        body = replace_at(body, path, mv(seen[leaf]))
    rng.shuffle(args)
    return ('N', body, tuple(args))


def maybe_notate(rng, q, prob):
    if rng.random() < prob:
        n = notate(rng, q)
        return n
    return q


# ------------------------------------------------------------------------------------------------
# call histories
# ------------------------------------------------------------------------------------------------

class Shadow:
    def __init__(self, phase, claims=()):
        self.phase = phase
        self.stack = []          # bottom .. top, entries ('P'|'T', expanded pattern)
        self.memory = []
        self.claims = list(claims)
        self.published = []      # proof phase: conclusions published, in order
        self.residue = set()     # stack positions (from the bottom) whose entry was published (D8 residues)

    def trim(self):
        self.residue = {i for i in self.residue if i < len(self.stack)}

    def residue_pos(self, k):
        """positions among the top k entries that are residues"""
        n = len(self.stack)
        self.trim()
        return {i for i in self.residue if i >= n - k}

    def mark_top(self):
        if self.stack:
            self.residue.add(len(self.stack) - 1)


def build_calls(p, out, sh=None, memo=None):
    """the call sequence of Interpreter.pattern(p) for a pattern WITHOUT notation (pushes expand(p))"""
    t = p[0]
    if t == 'e':
        out.append(f'ev:{p[1]}')
    elif t == 's':
        out.append(f'sv:{p[1]}')
    elif t == 'y':
        out.append(f'sy:{p[1]}')
    elif t == 'v':
        out.append('mv:%d:%s' % (p[1], ':'.join(lst(l) for l in p[2:7])))
    elif t in ('i', 'a'):
        build_calls(p[1], out)
        build_calls(p[2], out)
        out.append(f'{"im" if t == "i" else "ap"}:{show(p[1])}:{show(p[2])}')
    elif t in ('x', 'm'):
        build_calls(p[2], out)
        out.append(f'{"ex" if t == "x" else "mu"}:{p[1]}:{show(p[2])}')
    elif t in ('E', 'S'):
        build_calls(p[3], out)
        build_calls(p[1], out)
        out.append(f'{"es" if t == "E" else "ss"}:{p[2]}:{show(p[1])}:{show(p[3])}')
    elif t == 'N':
        for _, v in p[2]:
            build_calls(v, out)
        build_calls(p[1], out)
        out.append(':'.join(['ip', show(p[1])] + [x for k, v in p[2] for x in (str(k), show(v))]))
    else:
        raise ValueError(p)


def delta_txt(d):
    return [x for k, v in d for x in (str(k), show(v))]


class HistGen:
    """random call histories inside one phase or across the three phases"""

    def __init__(self, rng, cfg, notation=0.15, wrong=0.03, wild=0.1, avoid_residue=True):
        self.rng, self.cfg = rng, cfg
        self.notation, self.wrong, self.wild = notation, wrong, wild
        self.avoid_residue = avoid_residue

    # -- argument rendering: the shadow's entry, possibly re-notated, rarely wrong
    def arg(self, q):
        rng = self.rng
        if rng.random() < self.wrong:
            return gen_pat(rng, 1, self.cfg)
        return maybe_notate(rng, q, self.notation)

    def targ(self, t):
        return (t[0], self.arg(t[1]))

    def step(self, sh, calls, ax_pool):
        """append one move (one or several calls) and update the shadow"""
        rng, cfg = self.rng, self.cfg
        st = sh.stack
        moves = ['atom', 'atom', 'atom', 'tree']
        top = st[-1] if st else None
        sec = st[-2] if len(st) > 1 else None
        if top and top[0] == 'P':
            moves += ['ex', 'mu', 'save', 'pop', 'publish', 'ipat']
            if sec and sec[0] == 'P':
                moves += ['im', 'im', 'ap', 'subst']
        if top and top[0] == 'T':
            moves += ['save', 'pop', 'gen', 'publish', 'publish']
        if sh.phase == 'P' or rng.random() < 0.1:
            moves += ['axiom', 'axiom', 'inst', 'inst', 'mpchain', 'mpchain']
        if sh.memory:
            moves += ['load', 'load']
        if top and top[0] == 'T' and top[1][0] == 'i':
            moves += ['gen', 'gen', 'gen']
        if self.avoid_residue and (len(st) - 1) in sh.residue_pos(2) and rng.random() < 0.93:
            # the top (or the entry below it) is a publish residue: do not read it
            moves = ['atom', 'tree', 'axiom', 'inst', 'ipat', 'mpchain'] + (['load'] if sh.memory else [])
            if (len(st) - 1) not in sh.residue_pos(1):
                moves += ['ex', 'save', 'pop', 'publish'] if top[0] == 'P' else ['save', 'pop', 'publish']
        if rng.random() < self.wild:
            moves = ['im', 'ap', 'ex', 'mu', 'subst', 'mp', 'gen', 'inst0', 'ipat', 'pop', 'save', 'load', 'publish',
                     'wildpub', 'inst_short', 'inst_perm', 'ipat_perm', 'subst_swapped']
        m = rng.choice(moves)
        sh.trim()
        if m in ('inst_short', 'inst_perm', 'ipat_perm'):
            self.bad_instantiate(sh, calls, m)
            return
        if m == 'subst_swapped':
            self.subst_swapped(sh, calls)
            return

        if m == 'atom':
            p = gen_pat(rng, 0, cfg)
            build_calls(p, calls)
            st.append(('P', p))
        elif m == 'tree':
            p = gen_pat(rng, rng.choice([1, 2, 2, 3]), cfg)
            if rng.random() < self.notation:
                build_calls(notate(rng, p), calls)
            else:
                build_calls(p, calls)
            st.append(('P', p))
        elif m in ('im', 'ap'):
            l = sec[1] if sec else gen_pat(rng, 0, cfg)
            r = top[1] if top else gen_pat(rng, 0, cfg)
            calls.append(f'{m}:{show(self.arg(l))}:{show(self.arg(r))}')
            if len(st) >= 2:
                del st[-2:]
                st.append(('P', ('i' if m == 'im' else 'a', l, r)))
        elif m in ('ex', 'mu'):
            q = top[1] if top else gen_pat(rng, 0, cfg)
            v = rid(rng, cfg)
            calls.append(f'{m}:{v}:{show(self.arg(q))}')
            if st:
                st[-1] = ('P', ('x' if m == 'ex' else 'm', v, q))
        elif m == 'subst':
            # top = pattern, below = plug
            q = top[1] if top else gen_pat(rng, 0, cfg)
            plug = sec[1] if sec else gen_pat(rng, 0, cfg)
            k = 'es' if rng.random() < 0.5 else 'ss'
            v = rid(rng, cfg)
            calls.append(f'{k}:{v}:{show(self.arg(q))}:{show(self.arg(plug))}')
            if len(st) >= 2:
                del st[-2:]
                st.append(('P', ('E' if k == 'es' else 'S', q, v, plug)))
        elif m == 'axiom':
            k = rng.choice(['p1', 'p2', 'p3', 'qu'])
            calls.append(k)
            st.append(('T', {'p1': PROP1, 'p2': PROP2, 'p3': PROP3, 'qu': QUANT}[k]))
        elif m in ('inst', 'inst0'):
            # plugs, then an axiom or the current proved top, then instantiate
            if top and top[0] == 'T' and rng.random() < 0.3 and m == 'inst':
                target = top[1]
                # the plugs must be BELOW the target: only possible with an empty delta here
                d = []
                calls.append(':'.join(['in', show(self.arg(target))]))
                if len(st) == 1:
                    st[-1] = ('T', target)
                return
            k = rng.choice(['p1', 'p2', 'p3', 'qu'])
            target = {'p1': PROP1, 'p2': PROP2, 'p3': PROP3, 'qu': QUANT}[k]
            ids = sorted(metavars(target))
            if rng.random() < 0.3:
                ids = rng.sample(ids, rng.randrange(len(ids) + 1))
            if rng.random() < 0.1:
                ids = ids + [rid(rng, cfg) + 3]
            ids = list(dict.fromkeys(ids))
            rng.shuffle(ids)
            if m == 'inst0':
                ids = []
            d = []
            for i in ids:
                v = gen_pat(rng, rng.choice([0, 1, 1, 2]), cfg)
                build_calls(v, calls)
                st.append(('P', v))
                d.append((i, v))
            calls.append(k)
            st.append(('T', target))
            calls.append(':'.join(['in', show(self.arg(target))] + delta_txt([(i, self.arg(v)) for i, v in d])))
            if d or len(st) == 1:
                res = py_inst(target, dict(d))
                del st[len(st) - 1 - len(d):]
                st.append(('T', res))
        elif m == 'ipat':
            # instantiate_pattern on the top pattern with plugs that must lie below it: build plugs, rebuild
            body = gen_pat(rng, rng.choice([1, 2]), cfg)
            if rng.random() < 0.3:
                head = gen_metavar(rng, cfg)
                body = ('E' if rng.random() < 0.5 else 'S', head, rid(rng, cfg), gen_pat(rng, 1, cfg))
                if rng.random() < 0.4:
                    body = ('i', body, gen_pat(rng, 1, cfg))
            ids = sorted(metavars(body))
            ids = rng.sample(ids, rng.randrange(len(ids) + 1)) if ids else []
            if rng.random() < 0.15:
                ids.append(rid(rng, cfg) + 5)
            ids = list(dict.fromkeys(ids))
            d = []
            for i in ids:
                v = gen_pat(rng, rng.choice([0, 1, 1]), cfg)
                build_calls(v, calls)
                st.append(('P', v))
                d.append((i, v))
            build_calls(body, calls)
            st.append(('P', body))
            calls.append(':'.join(['ip', show(self.arg(body))] + delta_txt([(i, self.arg(v)) for i, v in d])))
            del st[len(st) - 1 - len(d):]
            st.append(('P', py_inst(body, dict(d))))
        elif m == 'mpchain':
            # derive  q -> A  from a proved A:  [A-source] prop1{0:A,1:q}  A  mp
            src = None
            if ax_pool and rng.random() < 0.7:
                src = ('load', rng.choice(ax_pool))
            elif top and top[0] == 'T':
                src = ('top', top[1])
            if src is None:
                calls.append('p1')
                st.append(('T', PROP1))
                return
            A = src[1]
            q = gen_pat(rng, rng.choice([0, 1]), cfg)
            if src[0] == 'top':
                # save the proved top, pop it, and reload it later
                calls.append('sa:' + show_term(('T', A)))
                sh.memory.append(('T', A))
                calls.append('po:' + show_term(('T', A)))
                st.pop()
            build_calls(A, calls)
            build_calls(q, calls)
            calls.append('p1')
            calls.append(':'.join(['in', show(PROP1), '0', show(self.arg(A)), '1', show(self.arg(q))]))
            imp = ('i', A, ('i', q, A))
            calls.append('lo:' + show_term(('T', self.arg(A))))
            calls.append(f'mp:{show(self.arg(imp))}:{show(self.arg(A))}')
            st.append(('T', ('i', q, A)))
        elif m == 'mp':
            l = sec[1] if sec else PROP1
            r = top[1] if top else PROP1
            calls.append(f'mp:{show(l)}:{show(r)}')
            if len(st) >= 2 and sec[0] == 'T' and top[0] == 'T' and l[0] == 'i' and l[1] == r:
                del st[-2:]
                st.append(('T', l[2]))
        elif m == 'gen':
            q = top[1] if top else PROP1
            if q[0] == 'i' and rng.random() < 0.8:
                cand = [x for x in list(range(cfg.max_id + 2)) if e_fresh(q[2], x)]
                x = rng.choice(cand) if cand else rid(rng, cfg)
            else:
                x = rid(rng, cfg)
            # a NOT-fresh variable is only tried on a plain argument: under notation the answer of
            # Instantiate.evar_is_free is defect D3 (C06/C07/C12), not this component's subject
            fresh_here = q[0] == 'i' and e_fresh(q[2], x)
            calls.append(f'ge:{show(self.arg(q) if fresh_here else q)}:{x}')
            if top and top[0] == 'T' and q[0] == 'i' and e_fresh(q[2], x):
                st[-1] = ('T', ('i', ('x', x, q[1]), q[2]))
        elif m == 'pop':
            t = top if top else ('P', gen_pat(rng, 0, cfg))
            calls.append('po:' + show_term(self.targ(t)))
            if st:
                st.pop()
        elif m == 'save':
            t = top if top else ('P', gen_pat(rng, 0, cfg))
            calls.append('sa:' + show_term(self.targ(t)))
            if st:
                sh.memory.append(t)
        elif m == 'load':
            if sh.memory and rng.random() > self.wrong:
                t = rng.choice(sh.memory)
            else:
                t = ('P', gen_pat(rng, 1, cfg))
            calls.append('lo:' + show_term(self.targ(t)))
            if t in sh.memory:
                st.append(t)
        elif m in ('publish', 'wildpub'):
            t = top if top else ('P', gen_pat(rng, 0, cfg))
            ph = sh.phase if m == 'publish' else rng.choice('GCP')
            if ph == 'G':
                calls.append('pa:' + show(self.arg(t[1])))
                if st and t[0] == 'P' and sh.phase == 'G':
                    sh.memory.append(('T', t[1]))
                    sh.mark_top()
            elif ph == 'C':
                calls.append('pc:' + show(self.arg(t[1])))
                if st and t[0] == 'P' and sh.phase == 'C':
                    sh.mark_top()
            else:
                calls.append('pp:' + show(self.arg(t[1])))
                if st and t[0] == 'T' and sh.phase == 'P':
                    sh.published.append(t[1])
                    sh.mark_top()

    def subst_swapped(self, sh, calls):
        """esubst / ssubst with its two operands pushed in the OPPOSITE order (pattern first, plug on top);
        the checker pops the pattern first, so the tracker must refuse"""
        rng, cfg = self.rng, self.cfg
        k = 'es' if rng.random() < 0.5 else 'ss'
        x = cfg.max_id + 1
        body = mv(rid(rng, cfg))
        plug = mv(rid(rng, cfg) + cfg.max_id + 2)            # a different metavariable: well formed both ways round
        build_calls(body, calls)
        build_calls(plug, calls)
        calls.append(f'{k}:{x}:{show(body)}:{show(plug)}')

    def pattern_via_interpreter(self, p, calls):
        """`interpreter.pattern(p)`: the real traversal of interpreter.py decides the calls and their order"""
        calls.append('pt:' + show(p))

    def bad_instantiate(self, sh, calls, kind):
        """instantiate / instantiate_pattern whose plugs on the stack do NOT match delta: too few of them
        (`inst_short`: the static ProofExp.instantiate shape, proof pushed, plugs not or only partly
        constructed), or all of them but in a permuted order / with one value repeated (`inst_perm`,
        `ipat_perm`).  The tracker must refuse; the shadow is left as it is (the history ends here on a
        correct tracker)."""
        rng, cfg = self.rng, self.cfg
        name, target = rng.choice([('p1', PROP1), ('p2', PROP2), ('p2', PROP2), ('qu', QUANT)])
        if kind != 'inst_short' and len(metavars(target)) < 2:
            name, target = 'p2', PROP2
        ids = sorted(metavars(target))
        rng.shuffle(ids)
        vals = []
        while len(vals) < len(ids):
            v = gen_pat(rng, rng.choice([0, 0, 1]), cfg)
            if v not in vals:
                vals.append(v)
        d = list(zip(ids, vals))
        if kind == 'inst_short':
            pushed = vals[:rng.randrange(len(vals))]            # 0 .. n-1 of the n plugs
        else:
            pushed = list(vals)
            if rng.random() < 0.3:
                i, j = rng.sample(range(len(pushed)), 2)
                pushed[i] = pushed[j]                           # one value twice, another missing
            else:
                while pushed == vals:
                    rng.shuffle(pushed)
        for v in pushed:
            build_calls(v, calls)
        if kind == 'ipat_perm':
            build_calls(target, calls)
            calls.append(':'.join(['ip', show(target)] + delta_txt(d)))
        else:
            calls.append(name)
            calls.append(':'.join(['in', show(target)] + delta_txt(d)))

    def phase_history(self, phase, n_moves, memory_axioms=()):
        """a history inside one phase from a fresh interpreter -> (claims, calls)"""
        sh = Shadow(phase)
        calls = []
        pool = list(memory_axioms)
        for _ in range(n_moves):
            self.step(sh, calls, [a for a in pool if ('T', a) in sh.memory])
        claims = list(sh.published) if phase == 'P' else []
        if phase != 'P' and self.rng.random() < 0.3:
            claims = [gen_pat(self.rng, 1, self.cfg) for _ in range(self.rng.randrange(3))]
        return claims, calls, sh

    def module_history(self, n_ax, n_cl, extra=0.15, permute=0.0, repeat_ax=0.0, bad_inst=0.0, via_pattern=0.0,
                       many_syms=0):
        """gamma (axioms published), claims (reversed), proofs: the shape proof.py produces, with
        random extra moves in between (probability `extra` after each item) -> (claims, calls, shadow)"""
        rng, cfg = self.rng, self.cfg
        sh = Shadow('G')
        calls = []
        axioms = []

        def extras():
            while rng.random() < extra:
                self.step(sh, calls, [a for a in axioms if ('T', a) in sh.memory])

        def maybe_bad():
            # at the START of a phase the stack is empty: the only place where too few plugs lie under the proof
            if rng.random() < bad_inst:
                kind = rng.choice(['inst_short', 'inst_short', 'inst_perm', 'ipat_perm', 'subst_swapped'])
                if kind == 'subst_swapped':
                    self.subst_swapped(sh, calls)
                else:
                    self.bad_instantiate(sh, calls, kind)

        def build(p):
            # either the call sequence the harness knows, or the real Interpreter.pattern traversal
            if rng.random() < via_pattern:
                q = notate(rng, p) if rng.random() < self.notation else p
                self.pattern_via_interpreter(q, calls)
            elif rng.random() < self.notation:
                build_calls(notate(rng, p), calls)
            else:
                build_calls(p, calls)

        maybe_bad()
        extras()
        ax_list = [gen_pat(rng, rng.choice([1, 2, 2]), cfg) for _ in range(n_ax)]
        if via_pattern and rng.random() < 0.5:
            # a substitution reached through Interpreter.pattern (well formed for the checker)
            head = mv(rid(rng, cfg))
            ax_list.append(('S' if rng.random() < 0.6 else 'E', head, cfg.max_id + 1, ('y', rsym(rng, cfg))))
        # many distinct symbols (more than any plausible cache), the early ones are used again later
        ax_list += [('y', 2000 + j) for j in range(many_syms)]
        for a in ax_list:
            axioms.append(a)
            build(a)
            sh.stack.append(('P', a))
            calls.append('pa:' + show(self.arg(a)))
            sh.memory.append(('T', a))
            sh.mark_top()
            extras()
            if rng.random() < repeat_ax:
                # the same theory reached again (diamond import): an EQUAL axiom is published once more,
                # possibly written with notation; the checker gets one memory slot per publish
                b = rng.choice(axioms)
                if rng.random() < 0.5:
                    build_calls(notate(rng, b), calls)
                else:
                    build_calls(b, calls)
                sh.stack.append(('P', b))
                calls.append('pa:' + show(self.arg(b)))
                sh.memory.append(('T', b))
                sh.mark_top()
                if rng.random() < 0.5:
                    # save / load around the repeated slot
                    c = gen_pat(rng, 1, cfg)
                    build_calls(c, calls)
                    sh.stack.append(('P', c))
                    calls.append('sa:' + show_term(('P', c)))
                    sh.memory.append(('P', c))
                    calls.append('lo:' + show_term(('P', self.arg(c))))
                    sh.stack.append(('P', c))
        calls.append('ic')
        sh.phase = 'C'
        sh.stack = []
        sh.residue = set()
        # the claims: things provable by the mpchain macro:  q -> A
        proofs = []
        for _ in range(n_cl):
            if axioms and rng.random() < 0.8:
                A = rng.choice(axioms)
                q = gen_pat(rng, rng.choice([0, 1]), cfg)
                proofs.append((('i', q, A), A, q))
            else:
                k = rng.choice([PROP1, PROP2, PROP3, QUANT])
                proofs.append((k, None, None))
        # distinct claims (ProofExp.add_claim asserts it; the order of the proofs only matters then)
        seen, uniq = [], []
        for pr in proofs:
            if pr[0] not in seen:
                seen.append(pr[0])
                uniq.append(pr)
        proofs = uniq
        claims = [c for c, _, _ in proofs]
        extras()
        for c, _, _ in reversed(proofs):
            build(c)
            sh.stack.append(('P', c))
            calls.append('pc:' + show(self.arg(c)))
            sh.mark_top()
            extras()
        calls.append('if')
        sh.phase = 'P'
        sh.stack = []
        sh.residue = set()
        maybe_bad()
        extras()
        order = list(proofs)
        if len(order) >= 2 and rng.random() < permute:
            # proofs published in ANOTHER order than the claims: the checker's Publish must equal the NEXT
            # claim, so the tracker has to refuse at the first out-of-place publish_proof
            while order == proofs:
                rng.shuffle(order)
        for c, A, q in order:
            if A is None:
                calls.append({id(PROP1): 'p1', id(PROP2): 'p2', id(PROP3): 'p3', id(QUANT): 'qu'}[id(c)])
            else:
                build_calls(A, calls)
                build_calls(q, calls)
                calls.append('p1')
                calls.append(':'.join(['in', show(PROP1), '0', show(self.arg(A)), '1', show(self.arg(q))]))
                calls.append('lo:' + show_term(('T', self.arg(A))))
                calls.append(f'mp:{show(("i", A, ("i", q, A)))}:{show(self.arg(A))}')
            sh.stack.append(('T', c))
            calls.append('pp:' + show(self.arg(c)))
            sh.mark_top()
            extras()
        return claims, calls, sh


# ------------------------------------------------------------------------------------------------
# byte stream mutations (malformed stream for the deserialiser)
# ------------------------------------------------------------------------------------------------

KNOWN_OPS = [2, 3, 4, 5, 6, 7, 8, 9, 10, 11, 12, 13, 14, 15, 21, 22, 26, 27, 28, 29, 30, 137]
UNHANDLED = [0, 1, 16, 17, 18, 19, 20, 23, 24, 25, 31, 32, 100, 136, 138, 200, 255]


def mutate_bytes(rng, b):
    """-> (kind, bytes)"""
    b = bytearray(b)
    k = rng.choice(['trunc', 'trunc', 'unknown', 'zero', 'flip', 'insert', 'append'])
    if not b:
        k = 'append'
    if k == 'trunc':
        return k, bytes(b[:rng.randrange(len(b))])
    if k == 'unknown':
        i = rng.randrange(len(b) + 1)
        return k, bytes(b[:i] + bytes([rng.choice(UNHANDLED)]) + b[i:])
    if k == 'zero':
        i = rng.randrange(len(b) + 1)
        return k, bytes(b[:i] + b'\x00' + b[i:])
    if k == 'flip':
        i = rng.randrange(len(b))
        b[i] = rng.choice(KNOWN_OPS + UNHANDLED + [rng.randrange(256)])
        return k, bytes(b)
    if k == 'insert':
        i = rng.randrange(len(b) + 1)
        return k, bytes(b[:i] + bytes([rng.choice(KNOWN_OPS)]) + b[i:])
    return k, bytes(b + bytes([rng.choice(KNOWN_OPS + UNHANDLED)]))

"""Textbook functions on concrete patterns (independent of the Coq model): free variables, occurrence
polarity, naive substitution and capture detection.  Used only as oracles on implementation output."""


def concrete(p):
    t = p[0]
    if t in ('EVar', 'SVar', 'Sym'):
        return True
    if t in ('Imp', 'App'):
        return concrete(p[1]) and concrete(p[2])
    if t in ('Ex', 'Mu'):
        return concrete(p[2])
    return False


def fv_e(p):
    t = p[0]
    if t == 'EVar':
        return {p[1]}
    if t in ('Imp', 'App'):
        return fv_e(p[1]) | fv_e(p[2])
    if t == 'Ex':
        return fv_e(p[2]) - {p[1]}
    if t == 'Mu':
        return fv_e(p[2])
    return set()


def occ_s(p, pol=True):
    """set of (X, polarity) free occurrences"""
    t = p[0]
    if t == 'SVar':
        return {(p[1], pol)}
    if t == 'Imp':
        return occ_s(p[1], not pol) | occ_s(p[2], pol)
    if t == 'App':
        return occ_s(p[1], pol) | occ_s(p[2], pol)
    if t == 'Ex':
        return occ_s(p[2], pol)
    if t == 'Mu':
        return {(X, b) for (X, b) in occ_s(p[2], pol) if X != p[1]}
    return set()


def fv_s(p):
    return {X for X, _ in occ_s(p)}


def subst_e(p, x, r):
    """(result, captured?) naive structural substitution of r for free x"""
    t = p[0]
    if t == 'EVar':
        return (r if p[1] == x else p), False
    if t in ('Imp', 'App'):
        a, c1 = subst_e(p[1], x, r)
        b, c2 = subst_e(p[2], x, r)
        return (t, a, b), c1 or c2
    if t == 'Ex':
        if p[1] == x:
            return p, False
        q, c = subst_e(p[2], x, r)
        cap = x in fv_e(p[2]) and p[1] in fv_e(r)
        return ('Ex', p[1], q), c or cap
    if t == 'Mu':
        q, c = subst_e(p[2], x, r)
        cap = x in fv_e(p[2]) and p[1] in fv_s(r)
        return ('Mu', p[1], q), c or cap
    return p, False


def subst_s(p, X, r):
    t = p[0]
    if t == 'SVar':
        return (r if p[1] == X else p), False
    if t in ('Imp', 'App'):
        a, c1 = subst_s(p[1], X, r)
        b, c2 = subst_s(p[2], X, r)
        return (t, a, b), c1 or c2
    if t == 'Ex':
        q, c = subst_s(p[2], X, r)
        cap = X in fv_s(p[2]) and p[1] in fv_e(r)
        return ('Ex', p[1], q), c or cap
    if t == 'Mu':
        if p[1] == X:
            return p, False
        q, c = subst_s(p[2], X, r)
        cap = X in fv_s(p[2]) and p[1] in fv_s(r)
        return ('Mu', p[1], q), c or cap
    return p, False


def mvar_ids(p, acc=None):
    acc = set() if acc is None else acc
    if p[0] == 'MVar':
        acc.add(p[1])
    for q in p[1:]:
        if isinstance(q, tuple) and q and isinstance(q[0], str):
            mvar_ids(q, acc)
    return acc

#!/bin/bash
# usage: harness/refacrun.sh <set e.g. C01> <check ids...> — runs the given checks against each behaviour-preserving refactoring of the set
# (refactorings/<set>/<n>/patch.diff, scratch worktree via PI2_REPO); every line should be OK
set=$1; shift
cd "$(dirname "$0")/.."
for n in 1 2 3 4 5; do
  [ -f refactorings/$set/$n/patch.diff ] || continue
  echo "##### refactoring $set/$n"
  harness/seedrun.sh refactorings/$set/$n/patch.diff "$@" 2>&1 | grep -v KNOWN | grep -E "^\[|^    |APPLY" | cut -c1-200
done
